package spv

import "fmt"

// Opcode numbers are taken from the SPIR-V specification (unified 1.6), not
// from naga.  Only the ones the decoder / executor refer to by name get a Go
// constant; the table below names many more for the disassembler.
const (
	opNop                       = 0
	opUndef                     = 1
	opSourceContinued           = 2
	opSource                    = 3
	opSourceExtension           = 4
	opName                      = 5
	opMemberName                = 6
	opString                    = 7
	opLine                      = 8
	opExtension                 = 10
	opExtInstImport             = 11
	opExtInst                   = 12
	opMemoryModel               = 14
	opEntryPoint                = 15
	opExecutionMode             = 16
	opCapability                = 17
	opTypeVoid                  = 19
	opTypeBool                  = 20
	opTypeInt                   = 21
	opTypeFloat                 = 22
	opTypeVector                = 23
	opTypeMatrix                = 24
	opTypeImage                 = 25
	opTypeSampler               = 26
	opTypeSampledImage          = 27
	opTypeArray                 = 28
	opTypeRuntimeArray          = 29
	opTypeStruct                = 30
	opTypeOpaque                = 31
	opTypePointer               = 32
	opTypeFunction              = 33
	opTypeForwardPointer        = 39
	opConstantTrue              = 41
	opConstantFalse             = 42
	opConstant                  = 43
	opConstantComposite         = 44
	opConstantSampler           = 45
	opConstantNull              = 46
	opSpecConstantTrue          = 48
	opSpecConstantFalse         = 49
	opSpecConstant              = 50
	opSpecConstantComposite     = 51
	opSpecConstantOp            = 52
	opFunction                  = 54
	opFunctionParameter         = 55
	opFunctionEnd               = 56
	opFunctionCall              = 57
	opVariable                  = 59
	opImageTexelPointer         = 60
	opLoad                      = 61
	opStore                     = 62
	opCopyMemory                = 63
	opAccessChain               = 65
	opInBoundsAccessChain       = 66
	opArrayLength               = 68
	opDecorate                  = 71
	opMemberDecorate            = 72
	opDecorationGroup           = 73
	opGroupDecorate             = 74
	opGroupMemberDecorate       = 75
	opVectorExtractDynamic      = 77
	opVectorInsertDynamic       = 78
	opVectorShuffle             = 79
	opCompositeConstruct        = 80
	opCompositeExtract          = 81
	opCompositeInsert           = 82
	opCopyObject                = 83
	opTranspose                 = 84
	opConvertFToU               = 109
	opConvertFToS               = 110
	opConvertSToF               = 111
	opConvertUToF               = 112
	opUConvert                  = 113
	opSConvert                  = 114
	opFConvert                  = 115
	opQuantizeToF16             = 116
	opSatConvertSToU            = 118
	opSatConvertUToS            = 119
	opBitcast                   = 124
	opSNegate                   = 126
	opFNegate                   = 127
	opIAdd                      = 128
	opFAdd                      = 129
	opISub                      = 130
	opFSub                      = 131
	opIMul                      = 132
	opFMul                      = 133
	opUDiv                      = 134
	opSDiv                      = 135
	opFDiv                      = 136
	opUMod                      = 137
	opSRem                      = 138
	opSMod                      = 139
	opFRem                      = 140
	opFMod                      = 141
	opVectorTimesScalar         = 142
	opMatrixTimesScalar         = 143
	opVectorTimesMatrix         = 144
	opMatrixTimesVector         = 145
	opMatrixTimesMatrix         = 146
	opOuterProduct              = 147
	opDot                       = 148
	opIAddCarry                 = 149
	opISubBorrow                = 150
	opUMulExtended              = 151
	opSMulExtended              = 152
	opAny                       = 154
	opAll                       = 155
	opIsNan                     = 156
	opIsInf                     = 157
	opIsFinite                  = 158
	opIsNormal                  = 159
	opSignBitSet                = 160
	opLessOrGreater             = 161
	opOrdered                   = 162
	opUnordered                 = 163
	opLogicalEqual              = 164
	opLogicalNotEqual           = 165
	opLogicalOr                 = 166
	opLogicalAnd                = 167
	opLogicalNot                = 168
	opSelect                    = 169
	opIEqual                    = 170
	opINotEqual                 = 171
	opUGreaterThan              = 172
	opSGreaterThan              = 173
	opUGreaterThanEqual         = 174
	opSGreaterThanEqual         = 175
	opULessThan                 = 176
	opSLessThan                 = 177
	opULessThanEqual            = 178
	opSLessThanEqual            = 179
	opFOrdEqual                 = 180
	opFUnordEqual               = 181
	opFOrdNotEqual              = 182
	opFUnordNotEqual            = 183
	opFOrdLessThan              = 184
	opFUnordLessThan            = 185
	opFOrdGreaterThan           = 186
	opFUnordGreaterThan         = 187
	opFOrdLessThanEqual         = 188
	opFUnordLessThanEqual       = 189
	opFOrdGreaterThanEqual      = 190
	opFUnordGreaterThanEqual    = 191
	opShiftRightLogical         = 194
	opShiftRightArithmetic      = 195
	opShiftLeftLogical          = 196
	opBitwiseOr                 = 197
	opBitwiseXor                = 198
	opBitwiseAnd                = 199
	opNot                       = 200
	opBitFieldInsert            = 201
	opBitFieldSExtract          = 202
	opBitFieldUExtract          = 203
	opBitReverse                = 204
	opBitCount                  = 205
	opControlBarrier            = 224
	opMemoryBarrier             = 225
	opAtomicLoad                = 227
	opAtomicStore               = 228
	opAtomicExchange            = 229
	opAtomicCompareExchange     = 230
	opAtomicCompareExchangeWeak = 231
	opAtomicIIncrement          = 232
	opAtomicIDecrement          = 233
	opAtomicIAdd                = 234
	opAtomicISub                = 235
	opAtomicSMin                = 236
	opAtomicUMin                = 237
	opAtomicSMax                = 238
	opAtomicUMax                = 239
	opAtomicAnd                 = 240
	opAtomicOr                  = 241
	opAtomicXor                 = 242
	opPhi                       = 245
	opLoopMerge                 = 246
	opSelectionMerge            = 247
	opLabel                     = 248
	opBranch                    = 249
	opBranchConditional         = 250
	opSwitch                    = 251
	opKill                      = 252
	opReturn                    = 253
	opReturnValue               = 254
	opUnreachable               = 255
	opLifetimeStart             = 256
	opLifetimeStop              = 257
	opNoLine                    = 317
	opModuleProcessed           = 330
	opExecutionModeId           = 331
	opDecorateId                = 332
	opCopyLogical               = 400
	opTerminateInvocation       = 4416
	opSDot                      = 4450
	opUDot                      = 4451
	opSUDot                     = 4452
	opDecorateString            = 5632
	opMemberDecorateString      = 5633
	opAtomicFAddEXT             = 6035
)

// opInfo describes one opcode: its name without the "Op" prefix and an
// operand grammar used by the disassembler (and by the decoder to find the
// result-type / result-id words).
//
// Grammar letters, one per operand:
//
//	t result type id      r result id        i id             o optional id
//	I zero or more ids    n literal word     N zero or more literal words
//	s literal string      z optional literal string
//	c literal constant whose width follows the result type
//	S storage class       D decoration + its literal operands (rest)
//	d decoration + its id operands (rest; OpDecorateId)
//	E execution model     X execution mode + literal operands (rest)
//	x execution mode + id operands (rest; OpExecutionModeId)
//	C capability          F function control mask
//	M optional memory-access mask followed by its literal/id operands
//	m optional image-operands mask followed by ids
//	p (literal, label id) pairs (OpSwitch; the literal width follows the selector)
//	k opcode number of an OpSpecConstantOp followed by its operands
//	e extended instruction number
//	A addressing model    Y memory model     L loop control mask   K selection control mask
type opInfo struct {
	name string
	fmt  string
}

var opTable = map[uint16]opInfo{
	0:   {"Nop", ""},
	1:   {"Undef", "tr"},
	2:   {"SourceContinued", "s"},
	3:   {"Source", "nnoz"},
	4:   {"SourceExtension", "s"},
	5:   {"Name", "is"},
	6:   {"MemberName", "ins"},
	7:   {"String", "rs"},
	8:   {"Line", "inn"},
	10:  {"Extension", "s"},
	11:  {"ExtInstImport", "rs"},
	12:  {"ExtInst", "trieI"},
	14:  {"MemoryModel", "AY"},
	15:  {"EntryPoint", "EisI"},
	16:  {"ExecutionMode", "iX"},
	17:  {"Capability", "C"},
	19:  {"TypeVoid", "r"},
	20:  {"TypeBool", "r"},
	21:  {"TypeInt", "rnn"},
	22:  {"TypeFloat", "rnN"},
	23:  {"TypeVector", "rin"},
	24:  {"TypeMatrix", "rin"},
	25:  {"TypeImage", "rinnnnnnN"},
	26:  {"TypeSampler", "r"},
	27:  {"TypeSampledImage", "ri"},
	28:  {"TypeArray", "rii"},
	29:  {"TypeRuntimeArray", "ri"},
	30:  {"TypeStruct", "rI"},
	31:  {"TypeOpaque", "rs"},
	32:  {"TypePointer", "rSi"},
	33:  {"TypeFunction", "riI"},
	34:  {"TypeEvent", "r"},
	35:  {"TypeDeviceEvent", "r"},
	36:  {"TypeReserveId", "r"},
	37:  {"TypeQueue", "r"},
	38:  {"TypePipe", "rn"},
	39:  {"TypeForwardPointer", "iS"},
	41:  {"ConstantTrue", "tr"},
	42:  {"ConstantFalse", "tr"},
	43:  {"Constant", "trc"},
	44:  {"ConstantComposite", "trI"},
	45:  {"ConstantSampler", "trnnn"},
	46:  {"ConstantNull", "tr"},
	48:  {"SpecConstantTrue", "tr"},
	49:  {"SpecConstantFalse", "tr"},
	50:  {"SpecConstant", "trc"},
	51:  {"SpecConstantComposite", "trI"},
	52:  {"SpecConstantOp", "trk"},
	54:  {"Function", "trFi"},
	55:  {"FunctionParameter", "tr"},
	56:  {"FunctionEnd", ""},
	57:  {"FunctionCall", "triI"},
	59:  {"Variable", "trSo"},
	60:  {"ImageTexelPointer", "triii"},
	61:  {"Load", "triM"},
	62:  {"Store", "iiM"},
	63:  {"CopyMemory", "iiM"},
	64:  {"CopyMemorySized", "iiiM"},
	65:  {"AccessChain", "triI"},
	66:  {"InBoundsAccessChain", "triI"},
	67:  {"PtrAccessChain", "triiI"},
	68:  {"ArrayLength", "trin"},
	69:  {"GenericPtrMemSemantics", "tri"},
	70:  {"InBoundsPtrAccessChain", "triiI"},
	71:  {"Decorate", "iD"},
	72:  {"MemberDecorate", "inD"},
	73:  {"DecorationGroup", "r"},
	74:  {"GroupDecorate", "iI"},
	75:  {"GroupMemberDecorate", "iN"},
	77:  {"VectorExtractDynamic", "trii"},
	78:  {"VectorInsertDynamic", "triii"},
	79:  {"VectorShuffle", "triiN"},
	80:  {"CompositeConstruct", "trI"},
	81:  {"CompositeExtract", "triN"},
	82:  {"CompositeInsert", "triiN"},
	83:  {"CopyObject", "tri"},
	84:  {"Transpose", "tri"},
	86:  {"SampledImage", "trii"},
	87:  {"ImageSampleImplicitLod", "triim"},
	88:  {"ImageSampleExplicitLod", "triim"},
	89:  {"ImageSampleDrefImplicitLod", "triiim"},
	90:  {"ImageSampleDrefExplicitLod", "triiim"},
	91:  {"ImageSampleProjImplicitLod", "triim"},
	92:  {"ImageSampleProjExplicitLod", "triim"},
	93:  {"ImageSampleProjDrefImplicitLod", "triiim"},
	94:  {"ImageSampleProjDrefExplicitLod", "triiim"},
	95:  {"ImageFetch", "triim"},
	96:  {"ImageGather", "triiim"},
	97:  {"ImageDrefGather", "triiim"},
	98:  {"ImageRead", "triim"},
	99:  {"ImageWrite", "iiim"},
	100: {"Image", "tri"},
	101: {"ImageQueryFormat", "tri"},
	102: {"ImageQueryOrder", "tri"},
	103: {"ImageQuerySizeLod", "trii"},
	104: {"ImageQuerySize", "tri"},
	105: {"ImageQueryLod", "trii"},
	106: {"ImageQueryLevels", "tri"},
	107: {"ImageQuerySamples", "tri"},
	109: {"ConvertFToU", "tri"},
	110: {"ConvertFToS", "tri"},
	111: {"ConvertSToF", "tri"},
	112: {"ConvertUToF", "tri"},
	113: {"UConvert", "tri"},
	114: {"SConvert", "tri"},
	115: {"FConvert", "tri"},
	116: {"QuantizeToF16", "tri"},
	117: {"ConvertPtrToU", "tri"},
	118: {"SatConvertSToU", "tri"},
	119: {"SatConvertUToS", "tri"},
	120: {"ConvertUToPtr", "tri"},
	121: {"PtrCastToGeneric", "tri"},
	122: {"GenericCastToPtr", "tri"},
	123: {"GenericCastToPtrExplicit", "triS"},
	124: {"Bitcast", "tri"},
	126: {"SNegate", "tri"},
	127: {"FNegate", "tri"},
	128: {"IAdd", "trii"},
	129: {"FAdd", "trii"},
	130: {"ISub", "trii"},
	131: {"FSub", "trii"},
	132: {"IMul", "trii"},
	133: {"FMul", "trii"},
	134: {"UDiv", "trii"},
	135: {"SDiv", "trii"},
	136: {"FDiv", "trii"},
	137: {"UMod", "trii"},
	138: {"SRem", "trii"},
	139: {"SMod", "trii"},
	140: {"FRem", "trii"},
	141: {"FMod", "trii"},
	142: {"VectorTimesScalar", "trii"},
	143: {"MatrixTimesScalar", "trii"},
	144: {"VectorTimesMatrix", "trii"},
	145: {"MatrixTimesVector", "trii"},
	146: {"MatrixTimesMatrix", "trii"},
	147: {"OuterProduct", "trii"},
	148: {"Dot", "trii"},
	149: {"IAddCarry", "trii"},
	150: {"ISubBorrow", "trii"},
	151: {"UMulExtended", "trii"},
	152: {"SMulExtended", "trii"},
	154: {"Any", "tri"},
	155: {"All", "tri"},
	156: {"IsNan", "tri"},
	157: {"IsInf", "tri"},
	158: {"IsFinite", "tri"},
	159: {"IsNormal", "tri"},
	160: {"SignBitSet", "tri"},
	161: {"LessOrGreater", "trii"},
	162: {"Ordered", "trii"},
	163: {"Unordered", "trii"},
	164: {"LogicalEqual", "trii"},
	165: {"LogicalNotEqual", "trii"},
	166: {"LogicalOr", "trii"},
	167: {"LogicalAnd", "trii"},
	168: {"LogicalNot", "tri"},
	169: {"Select", "triii"},
	170: {"IEqual", "trii"},
	171: {"INotEqual", "trii"},
	172: {"UGreaterThan", "trii"},
	173: {"SGreaterThan", "trii"},
	174: {"UGreaterThanEqual", "trii"},
	175: {"SGreaterThanEqual", "trii"},
	176: {"ULessThan", "trii"},
	177: {"SLessThan", "trii"},
	178: {"ULessThanEqual", "trii"},
	179: {"SLessThanEqual", "trii"},
	180: {"FOrdEqual", "trii"},
	181: {"FUnordEqual", "trii"},
	182: {"FOrdNotEqual", "trii"},
	183: {"FUnordNotEqual", "trii"},
	184: {"FOrdLessThan", "trii"},
	185: {"FUnordLessThan", "trii"},
	186: {"FOrdGreaterThan", "trii"},
	187: {"FUnordGreaterThan", "trii"},
	188: {"FOrdLessThanEqual", "trii"},
	189: {"FUnordLessThanEqual", "trii"},
	190: {"FOrdGreaterThanEqual", "trii"},
	191: {"FUnordGreaterThanEqual", "trii"},
	194: {"ShiftRightLogical", "trii"},
	195: {"ShiftRightArithmetic", "trii"},
	196: {"ShiftLeftLogical", "trii"},
	197: {"BitwiseOr", "trii"},
	198: {"BitwiseXor", "trii"},
	199: {"BitwiseAnd", "trii"},
	200: {"Not", "tri"},
	201: {"BitFieldInsert", "triiii"},
	202: {"BitFieldSExtract", "triii"},
	203: {"BitFieldUExtract", "triii"},
	204: {"BitReverse", "tri"},
	205: {"BitCount", "tri"},
	207: {"DPdx", "tri"},
	208: {"DPdy", "tri"},
	209: {"Fwidth", "tri"},
	210: {"DPdxFine", "tri"},
	211: {"DPdyFine", "tri"},
	212: {"FwidthFine", "tri"},
	213: {"DPdxCoarse", "tri"},
	214: {"DPdyCoarse", "tri"},
	215: {"FwidthCoarse", "tri"},
	218: {"EmitVertex", ""},
	219: {"EndPrimitive", ""},
	220: {"EmitStreamVertex", "i"},
	221: {"EndStreamPrimitive", "i"},
	224: {"ControlBarrier", "iii"},
	225: {"MemoryBarrier", "ii"},
	227: {"AtomicLoad", "triii"},
	228: {"AtomicStore", "iiii"},
	229: {"AtomicExchange", "triiii"},
	230: {"AtomicCompareExchange", "triiiiii"},
	231: {"AtomicCompareExchangeWeak", "triiiiii"},
	232: {"AtomicIIncrement", "triii"},
	233: {"AtomicIDecrement", "triii"},
	234: {"AtomicIAdd", "triiii"},
	235: {"AtomicISub", "triiii"},
	236: {"AtomicSMin", "triiii"},
	237: {"AtomicUMin", "triiii"},
	238: {"AtomicSMax", "triiii"},
	239: {"AtomicUMax", "triiii"},
	240: {"AtomicAnd", "triiii"},
	241: {"AtomicOr", "triiii"},
	242: {"AtomicXor", "triiii"},
	245: {"Phi", "trI"},
	246: {"LoopMerge", "iiLN"},
	247: {"SelectionMerge", "iK"},
	248: {"Label", "r"},
	249: {"Branch", "i"},
	250: {"BranchConditional", "iiiN"},
	251: {"Switch", "iip"},
	252: {"Kill", ""},
	253: {"Return", ""},
	254: {"ReturnValue", "i"},
	255: {"Unreachable", ""},
	256: {"LifetimeStart", "in"},
	257: {"LifetimeStop", "in"},
	259: {"GroupAsyncCopy", "triiiiii"},
	260: {"GroupWaitEvents", "iii"},
	261: {"GroupAll", "trii"},
	262: {"GroupAny", "trii"},
	263: {"GroupBroadcast", "triii"},
	264: {"GroupIAdd", "trini"},
	265: {"GroupFAdd", "trini"},
	266: {"GroupFMin", "trini"},
	267: {"GroupUMin", "trini"},
	268: {"GroupSMin", "trini"},
	269: {"GroupFMax", "trini"},
	270: {"GroupUMax", "trini"},
	271: {"GroupSMax", "trini"},
	305: {"ImageSparseSampleImplicitLod", "triim"},
	306: {"ImageSparseSampleExplicitLod", "triim"},
	307: {"ImageSparseSampleDrefImplicitLod", "triiim"},
	308: {"ImageSparseSampleDrefExplicitLod", "triiim"},
	313: {"ImageSparseFetch", "triim"},
	314: {"ImageSparseGather", "triiim"},
	315: {"ImageSparseDrefGather", "triiim"},
	316: {"ImageSparseTexelsResident", "tri"},
	317: {"NoLine", ""},
	318: {"AtomicFlagTestAndSet", "triii"},
	319: {"AtomicFlagClear", "iii"},
	320: {"ImageSparseRead", "triim"},
	321: {"SizeOf", "tri"},
	330: {"ModuleProcessed", "s"},
	331: {"ExecutionModeId", "ix"},
	332: {"DecorateId", "id"},
	333: {"GroupNonUniformElect", "tri"},
	334: {"GroupNonUniformAll", "trii"},
	335: {"GroupNonUniformAny", "trii"},
	336: {"GroupNonUniformAllEqual", "trii"},
	337: {"GroupNonUniformBroadcast", "triii"},
	338: {"GroupNonUniformBroadcastFirst", "trii"},
	339: {"GroupNonUniformBallot", "trii"},
	340: {"GroupNonUniformInverseBallot", "trii"},
	341: {"GroupNonUniformBallotBitExtract", "triii"},
	342: {"GroupNonUniformBallotBitCount", "trini"},
	343: {"GroupNonUniformBallotFindLSB", "trii"},
	344: {"GroupNonUniformBallotFindMSB", "trii"},
	345: {"GroupNonUniformShuffle", "triii"},
	346: {"GroupNonUniformShuffleXor", "triii"},
	347: {"GroupNonUniformShuffleUp", "triii"},
	348: {"GroupNonUniformShuffleDown", "triii"},
	349: {"GroupNonUniformIAdd", "trinio"},
	350: {"GroupNonUniformFAdd", "trinio"},
	351: {"GroupNonUniformIMul", "trinio"},
	352: {"GroupNonUniformFMul", "trinio"},
	353: {"GroupNonUniformSMin", "trinio"},
	354: {"GroupNonUniformUMin", "trinio"},
	355: {"GroupNonUniformFMin", "trinio"},
	356: {"GroupNonUniformSMax", "trinio"},
	357: {"GroupNonUniformUMax", "trinio"},
	358: {"GroupNonUniformFMax", "trinio"},
	359: {"GroupNonUniformBitwiseAnd", "trinio"},
	360: {"GroupNonUniformBitwiseOr", "trinio"},
	361: {"GroupNonUniformBitwiseXor", "trinio"},
	362: {"GroupNonUniformLogicalAnd", "trinio"},
	363: {"GroupNonUniformLogicalOr", "trinio"},
	364: {"GroupNonUniformLogicalXor", "trinio"},
	365: {"GroupNonUniformQuadBroadcast", "triii"},
	366: {"GroupNonUniformQuadSwap", "triii"},
	400: {"CopyLogical", "tri"},
	401: {"PtrEqual", "trii"},
	402: {"PtrNotEqual", "trii"},
	403: {"PtrDiff", "trii"},

	4416: {"TerminateInvocation", ""},
	4421: {"SubgroupBallotKHR", "tri"},
	4422: {"SubgroupFirstInvocationKHR", "tri"},
	4428: {"SubgroupAllKHR", "tri"},
	4429: {"SubgroupAnyKHR", "tri"},
	4430: {"SubgroupAllEqualKHR", "tri"},
	4432: {"SubgroupReadInvocationKHR", "trii"},
	4445: {"TraceRayKHR", "iiiiiiiiiii"},
	4446: {"ExecuteCallableKHR", "ii"},
	4447: {"ConvertUToAccelerationStructureKHR", "tri"},
	4448: {"IgnoreIntersectionKHR", ""},
	4449: {"TerminateRayKHR", ""},
	4450: {"SDot", "triiN"},
	4451: {"UDot", "triiN"},
	4452: {"SUDot", "triiN"},
	4453: {"SDotAccSat", "triiiN"},
	4454: {"UDotAccSat", "triiiN"},
	4455: {"SUDotAccSat", "triiiN"},
	4472: {"TypeRayQueryKHR", "r"},
	4473: {"RayQueryInitializeKHR", "iiiiiiii"},
	4474: {"RayQueryTerminateKHR", "i"},
	4475: {"RayQueryGenerateIntersectionKHR", "ii"},
	4476: {"RayQueryConfirmIntersectionKHR", "i"},
	4477: {"RayQueryProceedKHR", "tri"},
	4479: {"RayQueryGetIntersectionTypeKHR", "trii"},
	5294: {"EmitMeshTasksEXT", "iiio"},
	5295: {"SetMeshOutputsEXT", "ii"},
	5341: {"TypeAccelerationStructureKHR", "r"},
	5380: {"DemoteToHelperInvocation", ""},
	5381: {"IsHelperInvocationEXT", "tr"},
	5632: {"DecorateString", "iD"},
	5633: {"MemberDecorateString", "inD"},
	6016: {"RayQueryGetRayTMinKHR", "tri"},
	6017: {"RayQueryGetRayFlagsKHR", "tri"},
	6018: {"RayQueryGetIntersectionTKHR", "trii"},
	6019: {"RayQueryGetIntersectionInstanceCustomIndexKHR", "trii"},
	6020: {"RayQueryGetIntersectionInstanceIdKHR", "trii"},
	6021: {"RayQueryGetIntersectionInstanceShaderBindingTableRecordOffsetKHR", "trii"},
	6022: {"RayQueryGetIntersectionGeometryIndexKHR", "trii"},
	6023: {"RayQueryGetIntersectionPrimitiveIndexKHR", "trii"},
	6024: {"RayQueryGetIntersectionBarycentricsKHR", "trii"},
	6025: {"RayQueryGetIntersectionFrontFaceKHR", "trii"},
	6026: {"RayQueryGetIntersectionCandidateAABBOpaqueKHR", "tri"},
	6027: {"RayQueryGetIntersectionObjectRayDirectionKHR", "trii"},
	6028: {"RayQueryGetIntersectionObjectRayOriginKHR", "trii"},
	6029: {"RayQueryGetWorldRayDirectionKHR", "tri"},
	6030: {"RayQueryGetWorldRayOriginKHR", "tri"},
	6031: {"RayQueryGetIntersectionObjectToWorldKHR", "trii"},
	6032: {"RayQueryGetIntersectionWorldToObjectKHR", "trii"},
	6035: {"AtomicFAddEXT", "triiii"},
}

// OpName returns the SPIR-V specification name of an opcode ("OpIAdd"), or
// "Op<number>" for an opcode this package has no name for.
func OpName(op uint16) string {
	if i, ok := opTable[op]; ok {
		return "Op" + i.name
	}
	return fmt.Sprintf("Op%d", op)
}

// resultLayout reports where the result type and result id words of an
// instruction are (word index, 0 = absent).  known is false for opcodes the
// table does not contain.
func resultLayout(op uint16) (typeWord, resultWord int, known bool) {
	i, ok := opTable[op]
	if !ok {
		return 0, 0, false
	}
	for k := 0; k < len(i.fmt) && k < 2; k++ {
		switch i.fmt[k] {
		case 't':
			typeWord = k + 1
		case 'r':
			resultWord = k + 1
		}
	}
	return typeWord, resultWord, true
}

// minWords is the smallest legal word count of an instruction according to
// the operand grammar (0 for unknown opcodes).
func minWords(op uint16) int {
	i, ok := opTable[op]
	if !ok {
		return 0
	}
	n := 1
	for k := 0; k < len(i.fmt); k++ {
		switch i.fmt[k] {
		case 'o', 'I', 'N', 'z', 'M', 'm', 'p':
		default:
			n++
		}
	}
	return n
}

var storageClassNames = map[uint32]string{
	0: "UniformConstant", 1: "Input", 2: "Uniform", 3: "Output", 4: "Workgroup",
	5: "CrossWorkgroup", 6: "Private", 7: "Function", 8: "Generic", 9: "PushConstant",
	10: "AtomicCounter", 11: "Image", 12: "StorageBuffer", 5328: "TaskPayloadWorkgroupEXT",
	5349: "PhysicalStorageBuffer",
}

// Storage classes (SPIR-V specification numbers).
const (
	StorageUniformConstant = 0
	StorageInput           = 1
	StorageUniform         = 2
	StorageOutput          = 3
	StorageWorkgroup       = 4
	StoragePrivate         = 6
	StorageFunction        = 7
	StoragePushConstant    = 9
	StorageStorageBuffer   = 12
)

// Decorations (SPIR-V specification numbers).
const (
	DecRelaxedPrecision = 0
	DecSpecId           = 1
	DecBlock            = 2
	DecBufferBlock      = 3
	DecRowMajor         = 4
	DecColMajor         = 5
	DecArrayStride      = 6
	DecMatrixStride     = 7
	DecBuiltIn          = 11
	DecNonWritable      = 24
	DecNonReadable      = 25
	DecLocation         = 30
	DecBinding          = 33
	DecDescriptorSet    = 34
	DecOffset           = 35
)

var decorationNames = map[uint32]string{
	0: "RelaxedPrecision", 1: "SpecId", 2: "Block", 3: "BufferBlock", 4: "RowMajor", 5: "ColMajor",
	6: "ArrayStride", 7: "MatrixStride", 8: "GLSLShared", 9: "GLSLPacked", 10: "CPacked", 11: "BuiltIn",
	13: "NoPerspective", 14: "Flat", 15: "Patch", 16: "Centroid", 17: "Sample", 18: "Invariant",
	19: "Restrict", 20: "Aliased", 21: "Volatile", 22: "Constant", 23: "Coherent", 24: "NonWritable",
	25: "NonReadable", 26: "Uniform", 27: "UniformId", 28: "SaturatedConversion", 29: "Stream",
	30: "Location", 31: "Component", 32: "Index", 33: "Binding", 34: "DescriptorSet", 35: "Offset",
	36: "XfbBuffer", 37: "XfbStride", 38: "FuncParamAttr", 39: "FPRoundingMode", 40: "FPFastMathMode",
	41: "LinkageAttributes", 42: "NoContraction", 43: "InputAttachmentIndex", 44: "Alignment",
	45: "MaxByteOffset", 46: "AlignmentId", 47: "MaxByteOffsetId", 4469: "NoSignedWrap",
	4470: "NoUnsignedWrap", 5271: "PerPrimitiveEXT", 5285: "PerVertexKHR", 5300: "NonUniform",
	5355: "RestrictPointer", 5356: "AliasedPointer", 5634: "UserTypeGOOGLE", 5635: "UserSemantic",
}

// Built-ins used by compute shaders (SPIR-V specification numbers).
const (
	BuiltInNumWorkgroups        = 24
	BuiltInWorkgroupSize        = 25
	BuiltInWorkgroupId          = 26
	BuiltInLocalInvocationId    = 27
	BuiltInGlobalInvocationId   = 28
	BuiltInLocalInvocationIndex = 29
)

var builtInNames = map[uint32]string{
	0: "Position", 1: "PointSize", 3: "ClipDistance", 4: "CullDistance", 5: "VertexId", 6: "InstanceId",
	7: "PrimitiveId", 8: "InvocationId", 9: "Layer", 10: "ViewportIndex", 11: "TessLevelOuter",
	12: "TessLevelInner", 13: "TessCoord", 14: "PatchVertices", 15: "FragCoord", 16: "PointCoord",
	17: "FrontFacing", 18: "SampleId", 19: "SamplePosition", 20: "SampleMask", 22: "FragDepth",
	23: "HelperInvocation", 24: "NumWorkgroups", 25: "WorkgroupSize", 26: "WorkgroupId",
	27: "LocalInvocationId", 28: "GlobalInvocationId", 29: "LocalInvocationIndex", 30: "WorkDim",
	31: "GlobalSize", 32: "EnqueuedWorkgroupSize", 33: "GlobalOffset", 34: "GlobalLinearId",
	36: "SubgroupSize", 37: "SubgroupMaxSize", 38: "NumSubgroups", 39: "NumEnqueuedSubgroups",
	40: "SubgroupId", 41: "SubgroupLocalInvocationId", 42: "VertexIndex", 43: "InstanceIndex",
	4416: "SubgroupEqMask", 4417: "SubgroupGeMask", 4418: "SubgroupGtMask", 4419: "SubgroupLeMask",
	4420: "SubgroupLtMask", 4424: "BaseVertex", 4425: "BaseInstance", 4426: "DrawIndex",
	4438: "DeviceIndex", 4440: "ViewIndex", 5286: "BaryCoordKHR", 5287: "BaryCoordNoPerspKHR",
}

var executionModelNames = map[uint32]string{
	0: "Vertex", 1: "TessellationControl", 2: "TessellationEvaluation", 3: "Geometry", 4: "Fragment",
	5: "GLCompute", 6: "Kernel", 5267: "TaskNV", 5268: "MeshNV", 5364: "TaskEXT", 5365: "MeshEXT",
}

var executionModeNames = map[uint32]string{
	0: "Invocations", 1: "SpacingEqual", 2: "SpacingFractionalEven", 3: "SpacingFractionalOdd",
	4: "VertexOrderCw", 5: "VertexOrderCcw", 6: "PixelCenterInteger", 7: "OriginUpperLeft",
	8: "OriginLowerLeft", 9: "EarlyFragmentTests", 10: "PointMode", 11: "Xfb", 12: "DepthReplacing",
	14: "DepthGreater", 15: "DepthLess", 16: "DepthUnchanged", 17: "LocalSize", 18: "LocalSizeHint",
	19: "InputPoints", 20: "InputLines", 21: "InputLinesAdjacency", 22: "Triangles",
	23: "InputTrianglesAdjacency", 24: "Quads", 25: "Isolines", 26: "OutputVertices", 27: "OutputPoints",
	28: "OutputLineStrip", 29: "OutputTriangleStrip", 30: "VecTypeHint", 31: "ContractionOff",
	33: "Initializer", 34: "Finalizer", 35: "SubgroupSize", 36: "SubgroupsPerWorkgroup",
	37: "SubgroupsPerWorkgroupId", 38: "LocalSizeId", 39: "LocalSizeHintId", 4446: "PostDepthCoverage",
	4459: "DenormPreserve", 4460: "DenormFlushToZero", 4461: "SignedZeroInfNanPreserve",
	4462: "RoundingModeRTE", 4463: "RoundingModeRTZ", 5269: "OutputLinesEXT", 5270: "OutputPrimitivesEXT",
	5298: "OutputTrianglesEXT",
}

// GLSL.std.450 extended instruction numbers (from the GLSL.std.450 specification).
const (
	glRound                 = 1
	glRoundEven             = 2
	glTrunc                 = 3
	glFAbs                  = 4
	glSAbs                  = 5
	glFSign                 = 6
	glSSign                 = 7
	glFloor                 = 8
	glCeil                  = 9
	glFract                 = 10
	glRadians               = 11
	glDegrees               = 12
	glSin                   = 13
	glCos                   = 14
	glTan                   = 15
	glAsin                  = 16
	glAcos                  = 17
	glAtan                  = 18
	glSinh                  = 19
	glCosh                  = 20
	glTanh                  = 21
	glAsinh                 = 22
	glAcosh                 = 23
	glAtanh                 = 24
	glAtan2                 = 25
	glPow                   = 26
	glExp                   = 27
	glLog                   = 28
	glExp2                  = 29
	glLog2                  = 30
	glSqrt                  = 31
	glInverseSqrt           = 32
	glDeterminant           = 33
	glMatrixInverse         = 34
	glModf                  = 35
	glModfStruct            = 36
	glFMin                  = 37
	glUMin                  = 38
	glSMin                  = 39
	glFMax                  = 40
	glUMax                  = 41
	glSMax                  = 42
	glFClamp                = 43
	glUClamp                = 44
	glSClamp                = 45
	glFMix                  = 46
	glIMix                  = 47
	glStep                  = 48
	glSmoothStep            = 49
	glFma                   = 50
	glFrexp                 = 51
	glFrexpStruct           = 52
	glLdexp                 = 53
	glPackSnorm4x8          = 54
	glPackUnorm4x8          = 55
	glPackSnorm2x16         = 56
	glPackUnorm2x16         = 57
	glPackHalf2x16          = 58
	glPackDouble2x32        = 59
	glUnpackSnorm2x16       = 60
	glUnpackUnorm2x16       = 61
	glUnpackHalf2x16        = 62
	glUnpackSnorm4x8        = 63
	glUnpackUnorm4x8        = 64
	glUnpackDouble2x32      = 65
	glLength                = 66
	glDistance              = 67
	glCross                 = 68
	glNormalize             = 69
	glFaceForward           = 70
	glReflect               = 71
	glRefract               = 72
	glFindILsb              = 73
	glFindSMsb              = 74
	glFindUMsb              = 75
	glInterpolateAtCentroid = 76
	glInterpolateAtSample   = 77
	glInterpolateAtOffset   = 78
	glNMin                  = 79
	glNMax                  = 80
	glNClamp                = 81
)

var glslNames = map[uint32]string{
	1: "Round", 2: "RoundEven", 3: "Trunc", 4: "FAbs", 5: "SAbs", 6: "FSign", 7: "SSign", 8: "Floor",
	9: "Ceil", 10: "Fract", 11: "Radians", 12: "Degrees", 13: "Sin", 14: "Cos", 15: "Tan", 16: "Asin",
	17: "Acos", 18: "Atan", 19: "Sinh", 20: "Cosh", 21: "Tanh", 22: "Asinh", 23: "Acosh", 24: "Atanh",
	25: "Atan2", 26: "Pow", 27: "Exp", 28: "Log", 29: "Exp2", 30: "Log2", 31: "Sqrt", 32: "InverseSqrt",
	33: "Determinant", 34: "MatrixInverse", 35: "Modf", 36: "ModfStruct", 37: "FMin", 38: "UMin",
	39: "SMin", 40: "FMax", 41: "UMax", 42: "SMax", 43: "FClamp", 44: "UClamp", 45: "SClamp", 46: "FMix",
	47: "IMix", 48: "Step", 49: "SmoothStep", 50: "Fma", 51: "Frexp", 52: "FrexpStruct", 53: "Ldexp",
	54: "PackSnorm4x8", 55: "PackUnorm4x8", 56: "PackSnorm2x16", 57: "PackUnorm2x16", 58: "PackHalf2x16",
	59: "PackDouble2x32", 60: "UnpackSnorm2x16", 61: "UnpackUnorm2x16", 62: "UnpackHalf2x16",
	63: "UnpackSnorm4x8", 64: "UnpackUnorm4x8", 65: "UnpackDouble2x32", 66: "Length", 67: "Distance",
	68: "Cross", 69: "Normalize", 70: "FaceForward", 71: "Reflect", 72: "Refract", 73: "FindILsb",
	74: "FindSMsb", 75: "FindUMsb", 76: "InterpolateAtCentroid", 77: "InterpolateAtSample",
	78: "InterpolateAtOffset", 79: "NMin", 80: "NMax", 81: "NClamp",
}
