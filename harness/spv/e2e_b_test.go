package spv

import (
	"testing"

	"verif/harness/xrt"
)

func TestE2E15AtomicsStorage(t *testing.T) {
	src := `
struct A { u: atomic<u32>, i: atomic<i32>, arr: array<atomic<u32>, 2> }
@group(0) @binding(0) var<storage, read_write> a: A;
@group(0) @binding(1) var<storage, read_write> o: array<u32>;
@compute @workgroup_size(1) fn main() {
  o[0] = atomicAdd(&a.u, 5u);
  o[1] = atomicSub(&a.u, 20u);
  o[2] = atomicMax(&a.u, 7u);
  o[3] = atomicMin(&a.u, 7u);
  o[4] = atomicAnd(&a.u, 6u);
  o[5] = atomicOr(&a.u, 9u);
  o[6] = atomicXor(&a.u, 5u);
  o[7] = atomicExchange(&a.u, 99u);
  o[8] = atomicLoad(&a.u);
  atomicStore(&a.arr[1], 77u);
  o[9] = bitcast<u32>(atomicMin(&a.i, -3));
  o[10] = bitcast<u32>(atomicMax(&a.i, 2));
  o[11] = bitcast<u32>(atomicAdd(&a.i, -5));
  let r = atomicCompareExchangeWeak(&a.arr[0], 1u, 50u);
  o[12] = r.old_value; o[13] = u32(r.exchanged);
  let r2 = atomicCompareExchangeWeak(&a.arr[0], 1u, 60u);
  o[14] = r2.old_value; o[15] = u32(r2.exchanged);
}`
	// u: 10 ->15 ->0xfffffffb ->(max 7) same ->7 ->6 ->15 ->10 ->99 ; i: 4 -> -3 -> 2 -> -3 ; arr[0]: 1 -> 50
	e2e(t, src, "main",
		map[string][]byte{"0.0": u32s(10, 4, 1, 0), "0.1": zeros(64)},
		map[string][]byte{"0.0": u32s(99, 0xfffffffd, 50, 77),
			"0.1": u32s(10, 15, 0xfffffffb, 0xfffffffb, 7, 6, 15, 10, 99, 4, 0xfffffffd, 2, 1, 1, 50, 0)})
}

func TestE2E16Workgroup(t *testing.T) {
	src := `
@group(0) @binding(0) var<storage, read_write> o: array<u32>;
var<workgroup> wa: atomic<u32>;
var<workgroup> warr: array<u32, 4>;
@compute @workgroup_size(1) fn main(@builtin(local_invocation_index) li: u32) {
  atomicAdd(&wa, 3u);
  atomicAdd(&wa, 4u);
  warr[2] = 5u;
  workgroupBarrier();
  storageBarrier();
  o[0] = atomicLoad(&wa);
  o[1] = warr[0] + warr[2];
  o[2] = li + 100u;
}`
	e2e(t, src, "main", map[string][]byte{"0.0": zeros(12)}, map[string][]byte{"0.0": u32s(7, 5, 100)})
}

func TestE2E17IfSwitch(t *testing.T) {
	src := hdrOA + `
fn classify(x: i32) -> u32 {
  if x < 0 { return 1u; } else if x == 0 { return 2u; } else if x < 10 { return 3u; } else { return 4u; }
}
fn sw(x: i32) -> u32 {
  var r = 0u;
  switch x {
    case 1, 2: { r = 10u; }
    default: { r = 99u; }
    case 3: { r = 30u; }
    case -1: { r = 40u; }
  }
  return r + 1u;
}
fn swu(x: u32) -> u32 {
  var r = 5u;
  switch x {
    case 0u: { r = 1u; }
    case 7u, 0xffffffffu: { r = 2u; }
    default: { }
  }
  return r;
}
@compute @workgroup_size(1) fn main() {
  for (var i = 0u; i < 4u; i++) { o[i] = classify(a[i]); }
  o[4] = sw(a[4]); o[5] = sw(a[5]); o[6] = sw(a[6]); o[7] = sw(a[7]); o[8] = sw(a[2]);
  o[9] = swu(b[0]); o[10] = swu(b[1]); o[11] = swu(b[2]); o[12] = swu(b[3]);
}`
	e2e(t, src, "main",
		map[string][]byte{"0.0": zeros(52), "0.1": i32s(-5, 0, 7, 10, 1, 2, 3, -1), "0.2": u32s(0, 7, 0xffffffff, 3)},
		map[string][]byte{"0.0": u32s(1, 2, 3, 4, 11, 11, 31, 41, 100, 1, 2, 2, 5)})
}

func TestE2E18Loops(t *testing.T) {
	src := hdrOA + `
@compute @workgroup_size(1) fn main() {
  var i = 0u; var s = 0u;
  loop { s += i; continuing { i++; break if i >= b[0]; } }
  o[0] = s; o[1] = i;
  var j = 0u; var e = 0u;
  while j < 10u { j++; if (j % 2u) == 1u { continue; } e += j; }
  o[2] = e;
  var c = 0u;
  for (var x = 0u; x < 4u; x++) { for (var y = 0u; y < 4u; y++) { if y > x { break; } c += 1u; } }
  o[3] = c;
  var k = 0u; var t = 0u;
  for (; k < 6u; k += 2u) { if k == 2u { continue; } t += k; }
  o[4] = t; o[5] = k;
  var n = 0u;
  loop { if n >= 3u { break; } n++; }
  o[6] = n;
  var big = 0u;
  for (var q = 1u; q <= 1000u; q++) { big += q; }
  o[7] = big;
}`
	// s=0+1+2+3+4=10 i=5 ; e=2+4+6+8+10=30 ; c=1+2+3+4=10 ; t=0+4 k=6 ; n=3 ; big=500500
	e2e(t, src, "main",
		map[string][]byte{"0.0": zeros(32), "0.2": u32s(5)},
		map[string][]byte{"0.0": u32s(10, 5, 30, 10, 4, 6, 3, 500500)})
}

func TestE2E19EarlyReturn(t *testing.T) {
	src := hdrOA + `
fn find(needle: u32) -> u32 {
  for (var i = 0u; i < 8u; i++) { if b[i] == needle { return i; } }
  return 99u;
}
fn sw_ret(x: u32) -> u32 {
  var guard = 0u;
  loop {
    if guard > 2u { break; }
    switch x + guard {
      case 1u: { return 11u; }
      case 2u, 4u: { guard += 2u; }
      default: { return 33u + guard; }
    }
  }
  return 44u;
}
fn nested(x: u32) -> u32 {
  var acc = 0u;
  for (var i = 0u; i < 3u; i++) {
    for (var j = 0u; j < 3u; j++) {
      acc += 1u;
      if acc == x { return acc * 10u; }
    }
  }
  return acc;
}
@compute @workgroup_size(1) fn main() {
  o[0] = find(b[8]); o[1] = find(b[9]); o[2] = find(b[10]);
  o[3] = sw_ret(b[11]); o[4] = sw_ret(b[12]); o[5] = sw_ret(b[13]);
  o[6] = nested(b[14]); o[7] = nested(b[10]);
}`
	e2e(t, src, "main",
		map[string][]byte{"0.0": zeros(32), "0.2": u32s(5, 6, 7, 8, 9, 10, 11, 12, 7, 12, 100, 1, 2, 3, 5)},
		map[string][]byte{"0.0": u32s(2, 7, 99, 11, 44, 33, 50, 9)})
}

func TestE2E20FunctionsPointers(t *testing.T) {
	src := hdrOA + `
var<private> pcount: u32;
var<workgroup> wval: u32;
fn inc(p: ptr<function, u32>, by: u32) -> u32 { *p = *p + by; return *p; }
fn incp(p: ptr<private, u32>) { *p = *p * 2u; }
fn incw(p: ptr<workgroup, u32>) { *p = *p + 7u; }
fn lvl3(x: u32) -> u32 { return x + 1u; }
fn lvl2(x: u32) -> u32 { return lvl3(x) * 2u; }
fn lvl1(x: u32) -> u32 { return lvl2(x) + lvl3(x); }
fn swap(p: ptr<function, vec2<u32>>) { let t = (*p).x; (*p).x = (*p).y; (*p).y = t; }
@compute @workgroup_size(1) fn main() {
  var loc = 1u;
  let r = inc(&loc, 4u);
  o[0] = r + loc;
  pcount = 3u; incp(&pcount); incp(&pcount); o[1] = pcount;
  wval = 1u; incw(&wval); o[2] = wval;
  o[3] = lvl1(b[0]);
  var n = 0u; var it = 0u;
  for (var q = 0u; lvl3(q) < 4u; q = lvl3(q)) { n += q; it++; }
  o[4] = n; o[5] = it;
  var v = vec2<u32>(8u, 9u);
  swap(&v);
  o[6] = v.x * 10u + v.y;
  var arr = array<u32, 3>(1u, 2u, 3u);
  let r2 = inc(&arr[1], 40u);
  o[7] = arr[1] + r2;
}`
	// 5+5 ; 12 ; 8 ; lvl1(4)=10+5 ; n=0+1+2=3 it=3 ; 98 ; 42+42
	e2e(t, src, "main",
		map[string][]byte{"0.0": zeros(32), "0.2": u32s(4)},
		map[string][]byte{"0.0": u32s(10, 12, 8, 15, 3, 3, 98, 84)})
}

func TestE2E21FloatBuiltins(t *testing.T) {
	src := hdrOA + `
@compute @workgroup_size(1) fn main() {
  var k = 0u;
  o[0] = bitcast<u32>(abs(f[0]));
  o[1] = bitcast<u32>(min(f[0], f[1]));
  o[2] = bitcast<u32>(max(f[0], f[1]));
  o[3] = bitcast<u32>(clamp(f[2], f[3], f[1]));
  o[4] = bitcast<u32>(sign(f[0]));
  o[5] = bitcast<u32>(floor(f[0]));
  o[6] = bitcast<u32>(ceil(f[0]));
  o[7] = bitcast<u32>(trunc(f[0]));
  o[8] = bitcast<u32>(round(f[0]));
  o[9] = bitcast<u32>(round(f[1]));
  o[10] = bitcast<u32>(round(f[2]));
  o[11] = bitcast<u32>(fract(f[0]));
  o[12] = bitcast<u32>(saturate(f[2]));
  o[13] = bitcast<u32>(saturate(f[0]));
  o[14] = bitcast<u32>(sqrt(f[4]));
  o[15] = bitcast<u32>(inverseSqrt(f[4]));
  o[16] = bitcast<u32>(exp2(f[6]));
  o[17] = bitcast<u32>(log2(f[7]));
  o[18] = bitcast<u32>(pow(f[8], f[6]));
  o[19] = bitcast<u32>(fma(f[1], f[2], f[3]));
  o[20] = bitcast<u32>(mix(f[1], f[2], f[5]));
  o[21] = bitcast<u32>(step(f[1], f[2]));
  o[22] = bitcast<u32>(step(f[2], f[1]));
  o[23] = bitcast<u32>(smoothstep(f[5], f[3], f[9]));
  let v = abs(vec2<f32>(f[0], f[1])) + floor(vec2<f32>(f[3], f[0]));
  o[24] = bitcast<u32>(v.x); o[25] = bitcast<u32>(v.y);
  o[26] = bitcast<u32>(sign(f[10]));
}`
	// f = -2.5 2.5 3.5 0.75 16 0.25 3 8 2 0.5 0
	// abs 2.5; min -2.5; max 2.5; clamp(3.5,.75,2.5)=2.5; sign -1; floor -3; ceil -2; trunc -2; round(-2.5)=-2; round(2.5)=2; round(3.5)=4;
	// fract(-2.5)=0.5; sat(3.5)=1; sat(-2.5)=0; sqrt 4; rsqrt .25; exp2(3)=8; log2(8)=3; pow(2,3)=8; fma=2.5*3.5+.75=9.5;
	// mix(2.5,3.5,.25)=2.75; step(2.5,3.5)=1; step(3.5,2.5)=0; smoothstep(.25,.75,.5): t=.5 -> .5 ; v=(2.5+0, 2.5-3)=(2.5,-0.5); sign(0)=0
	e2e(t, src, "main",
		map[string][]byte{"0.0": zeros(108), "0.3": f32s(-2.5, 2.5, 3.5, 0.75, 16, 0.25, 3, 8, 2, 0.5, 0)},
		map[string][]byte{"0.0": f32s(2.5, -2.5, 2.5, 2.5, -1, -3, -2, -2, -2, 2, 4, 0.5, 1, 0, 4, 0.25, 8, 3, 8, 9.5, 2.75, 1, 0, 0.5, 2.5, -0.5, 0)})
}

func TestE2E22IntBuiltins(t *testing.T) {
	src := hdrOA + `
@compute @workgroup_size(1) fn main() {
  o[0] = bitcast<u32>(abs(a[0]));
  o[1] = bitcast<u32>(abs(a[2]));
  o[2] = bitcast<u32>(min(a[0], a[1]));
  o[3] = bitcast<u32>(max(a[0], a[1]));
  o[4] = bitcast<u32>(clamp(a[0], a[1] - 8, a[1]));
  o[5] = bitcast<u32>(sign(a[0]));
  o[6] = bitcast<u32>(sign(a[1]));
  o[7] = bitcast<u32>(sign(a[3]));
  o[8] = min(b[0], b[1]);
  o[9] = max(b[0], b[1]);
  o[10] = clamp(b[0], b[1] - 3u, b[1]);
  let v = max(vec2<i32>(a[0], a[1]), vec2<i32>(a[3]));
  o[11] = bitcast<u32>(v.x); o[12] = bitcast<u32>(v.y);
  o[13] = bitcast<u32>(dot(vec3<i32>(a[1], a[0], a[1]), vec3<i32>(2, 3, 4)));
  o[14] = dot(vec2<u32>(b[0], b[1]), vec2<u32>(b[1], b[0]));
}`
	// a=-7 3 MIN 0 ; b = 9 4.  abs 7 ; abs(MIN)=MIN ; -7 ; 3 ; clamp(-7,-5,3)=-5 ; -1 ; 1 ; 0 ; 4 ; 9 ; clamp(9,1,4)=4 ; max((-7,3),0)=(0,3)
	// dot = 6-21+12 = -3 ; 36+36=72
	e2e(t, src, "main",
		map[string][]byte{"0.0": zeros(60), "0.1": i32s(-7, 3, iMin, 0), "0.2": u32s(9, 4)},
		map[string][]byte{"0.0": u32s(7, 0x80000000, 0xfffffff9, 3, 0xfffffffb, 0xffffffff, 1, 0, 4, 9, 4, 0, 3, 0xfffffffd, 72)})
}

func TestE2E23VectorBuiltins(t *testing.T) {
	src := hdrOA + `
@compute @workgroup_size(1) fn main() {
  let v1 = vec3<f32>(f[0], f[1], f[2]);
  let v2 = vec3<f32>(f[3], f[4], f[5]);
  o[0] = bitcast<u32>(dot(v1, v2));
  let c = cross(v1, v2);
  o[1] = bitcast<u32>(c.x); o[2] = bitcast<u32>(c.y); o[3] = bitcast<u32>(c.z);
  o[4] = bitcast<u32>(length(v1));
  o[5] = bitcast<u32>(distance(v1, vec3<f32>(f[0], f[6], f[7])));
  let n = normalize(vec3<f32>(f[4], f[5], f[3]));
  o[6] = bitcast<u32>(n.x); o[7] = bitcast<u32>(n.y); o[8] = bitcast<u32>(n.z);
  let r = reflect(vec3<f32>(f[0], -f[0], f[4]), vec3<f32>(f[4], f[0], f[4]));
  o[9] = bitcast<u32>(r.x); o[10] = bitcast<u32>(r.y); o[11] = bitcast<u32>(r.z);
  o[12] = bitcast<u32>(length(f[8]));
  o[13] = bitcast<u32>(dot(vec2<f32>(f[0], f[1]), vec2<f32>(f[1], f[1])));
  let ff = faceForward(v1, vec3<f32>(f[4], f[4], f[0]), vec3<f32>(f[4], f[4], f[0]));
  o[14] = bitcast<u32>(ff.x);
}`
	// f = 1 2 2 4 0 3 5 6 -7 ; v1=(1,2,2) v2=(4,0,3): dot 10 ; cross=(2*3-2*0, 2*4-1*3, 1*0-2*4)=(6,5,-8) ; |v1|=3 ;
	// distance((1,2,2),(1,5,6)) = 5 ; normalize(0,3,4)=(0,0.6,0.8) ; reflect((1,-1,0),(0,1,0)) = (1,1,0) ; length(-7)=7 ; dot((1,2),(2,2))=6
	// faceForward(v1, I=(0,0,1), Nref=(0,0,1)): dot(Nref,I)=1 >= 0 -> -v1 -> x=-1
	e2e(t, src, "main",
		map[string][]byte{"0.0": zeros(60), "0.3": f32s(1, 2, 2, 4, 0, 3, 5, 6, -7)},
		map[string][]byte{"0.0": f32s(10, 6, 5, -8, 3, 5, 0, 0.6, 0.8, 1, 1, 0, 7, 6, -1)})
}

func TestE2E24BitBuiltins(t *testing.T) {
	src := hdrOA + `
@compute @workgroup_size(1) fn main() {
  o[0] = countOneBits(b[0]);
  o[1] = 24u;
  o[2] = countTrailingZeros(b[0]);
  o[3] = reverseBits(b[0]);
  o[4] = firstLeadingBit(b[0]);
  o[5] = firstTrailingBit(b[0]);
  o[6] = 32u;
  o[7] = 32u;
  o[8] = firstLeadingBit(b[1]);
  o[9] = firstTrailingBit(b[1]);
  o[10] = 0u;
  o[11] = countTrailingZeros(b[2]);
  o[12] = bitcast<u32>(firstLeadingBit(a[0]));
  o[13] = bitcast<u32>(firstLeadingBit(a[1]));
  o[14] = bitcast<u32>(firstLeadingBit(a[2]));
  o[15] = bitcast<u32>(firstLeadingBit(a[3]));
  o[16] = 0u;
  o[17] = bitcast<u32>(countOneBits(a[0]));
  o[18] = extractBits(b[0], b[4], b[4]);
  o[19] = bitcast<u32>(extractBits(a[2], b[4], b[4]));
  o[20] = insertBits(b[1], b[3], b[5], b[4]);
  o[21] = extractBits(b[3], b[1], b[6]);
  o[22] = extractBits(b[3], b[7], b[4]);
  o[23] = bitcast<u32>(reverseBits(a[2]));
  let v = countOneBits(vec2<u32>(b[0], b[3]));
  o[24] = v.x + v.y;
}`
	// b = 0xf0 0 0x80000000 0xffffffff 4 8 32 28 ; a = -1 0 0xf0 MIN
	// (countLeadingZeros and countTrailingZeros(0) are exercised in findings_test.go: naga mistranslates them)
	// popcnt 4 ; clz 24 ; ctz 4 ; rev 0x0f000000 ; flb 7 ; ftb 4 ; clz(0)=32 ; ctz(0)=32 ; flb(0)=-1 ; ftb(0)=-1 ; clz(0x80000000)=0 ; ctz=31
	// flb(i32 -1)=-1 ; flb(0)=-1 ; flb(0xf0)=7 ; flb(MIN)=30 ; clz(-1)=0 ; popcnt(-1)=32 ; extractBits(0xf0,4,4)=0xf ; signed -> -1
	// insertBits(0, 0xffffffff, 8, 4) = 0xf00 ; extractBits(all,0,32)=all ; extractBits(all,28,4) -> 0xf ; rev(0xf0)=0x0f000000 ; 4+32
	e2e(t, src, "main",
		map[string][]byte{"0.0": zeros(100), "0.1": i32s(-1, 0, 0xf0, iMin), "0.2": u32s(0xf0, 0, 0x80000000, 0xffffffff, 4, 8, 32, 28)},
		map[string][]byte{"0.0": u32s(4, 24, 4, 0x0f000000, 7, 4, 32, 32, 0xffffffff, 0xffffffff, 0, 31,
			0xffffffff, 0xffffffff, 7, 30, 0, 32, 0xf, 0xffffffff, 0xf00, 0xffffffff, 0xf, 0x0f000000, 36)})
}

func TestE2E25PackUnpack(t *testing.T) {
	src := hdrOA + `
@compute @workgroup_size(1) fn main() {
  o[0] = pack4x8snorm(vec4<f32>(f[0], f[1], f[2], f[3]));
  o[1] = pack4x8unorm(vec4<f32>(f[0], f[2], f[3], f[4]));
  o[2] = pack2x16snorm(vec2<f32>(f[1], f[0]));
  o[3] = pack2x16unorm(vec2<f32>(f[0], f[2]));
  o[4] = pack2x16float(vec2<f32>(f[0], f[5]));
  let s = unpack4x8snorm(b[0]);
  o[5] = bitcast<u32>(s.x); o[6] = bitcast<u32>(s.y); o[7] = bitcast<u32>(s.z); o[8] = bitcast<u32>(s.w);
  let u = unpack4x8unorm(b[1]);
  o[9] = bitcast<u32>(u.x); o[10] = bitcast<u32>(u.y); o[11] = bitcast<u32>(u.z); o[12] = bitcast<u32>(u.w);
  let s2 = unpack2x16snorm(b[2]);
  o[13] = bitcast<u32>(s2.x); o[14] = bitcast<u32>(s2.y);
  let u2 = unpack2x16unorm(b[3]);
  o[15] = bitcast<u32>(u2.x); o[16] = bitcast<u32>(u2.y);
  let h = unpack2x16float(b[4]);
  o[17] = bitcast<u32>(h.x); o[18] = bitcast<u32>(h.y);
}`
	// f = 1 -1 0 0.5 2 -2
	// snorm4x8(1,-1,0,.5) = 7f 81 00 40 ; unorm4x8(1,0,.5,2) = ff 00 80 ff ; snorm2x16(-1,1) = 8001 7fff ; unorm2x16(1,0) = ffff 0000 ; half(1,-2) = 3c00 c000
	e2e(t, src, "main",
		map[string][]byte{"0.0": zeros(76), "0.2": u32s(0x0080817f, 0x00ff00ff, 0x80007fff, 0xffff0000, 0xc0003c00), "0.3": f32s(1, -1, 0, 0.5, 2, -2)},
		map[string][]byte{"0.0": cat(u32s(0x4000817f, 0xff8000ff, 0x7fff8001, 0x0000ffff, 0xc0003c00),
			f32s(1, -1, -1, 0, 1, 0, 1, 0, 1, -1, 0, 1, 1, -2))})
}

func TestE2E26BuiltinInputs(t *testing.T) {
	src := `
@group(0) @binding(0) var<storage, read_write> o: array<u32>;
@compute @workgroup_size(2, 3, 4)
fn main(@builtin(local_invocation_id) lid: vec3<u32>, @builtin(local_invocation_index) lidx: u32,
        @builtin(global_invocation_id) gid: vec3<u32>, @builtin(workgroup_id) wid: vec3<u32>,
        @builtin(num_workgroups) nwg: vec3<u32>) {
  o[0] = lid.x; o[1] = lid.y; o[2] = lid.z; o[3] = lidx;
  o[4] = gid.x; o[5] = gid.y; o[6] = gid.z;
  o[7] = wid.x; o[8] = wid.y; o[9] = wid.z;
  o[10] = nwg.x; o[11] = nwg.y; o[12] = nwg.z;
}`
	// index = 1 + 2*2 + 3*(2*3) = 23 ; gid = (1*2+1, 0*3+2, 2*4+3)
	e2eIn(t, src, xrt.Input{Entry: "main", Buffers: map[string][]byte{"0.0": zeros(52)},
		LocalID: [3]uint32{1, 2, 3}, WorkgroupID: [3]uint32{1, 0, 2}, NumWorkgroups: [3]uint32{2, 1, 3}},
		map[string][]byte{"0.0": u32s(1, 2, 3, 23, 3, 2, 11, 1, 0, 2, 2, 1, 3)})
	// Defaults: ids zero, num_workgroups (1,1,1).
	e2eIn(t, src, xrt.Input{Entry: "main", Buffers: map[string][]byte{"0.0": zeros(52)}},
		map[string][]byte{"0.0": u32s(0, 0, 0, 0, 0, 0, 0, 0, 0, 0, 1, 1, 1)})
}

func TestE2E27DynamicIndexing(t *testing.T) {
	src := hdrOA + `
@compute @workgroup_size(1) fn main() {
  let v = vec4<u32>(b[0], b[1], b[2], b[3]);
  let i = b[4];
  o[0] = v[i];
  var arr = array<u32, 4>(1u, 2u, 3u, 4u);
  arr[i] = 9u;
  o[1] = arr[2];
  o[2] = arr[b[5]];
  let larr = array<u32, 3>(b[0], b[1], b[2]);
  o[3] = larr[i];
  var m = mat2x2<f32>(1.0, 2.0, 3.0, 4.0);
  let c = b[6];
  o[4] = bitcast<u32>(m[c].x);
  o[5] = bitcast<u32>(m[c][c]);
  m[c][0] = 8.0;
  o[6] = bitcast<u32>(m[1].x + m[0].x);
  var vv = vec3<f32>(1.0, 2.0, 3.0);
  vv[i] = 7.0;
  o[7] = bitcast<u32>(vv.z + vv.x);
  var nest = array<array<u32, 2>, 2>(array<u32, 2>(1u, 2u), array<u32, 2>(3u, 4u));
  nest[c][b[7]] = 50u;
  o[8] = nest[1][0] + nest[1][1];
}`
	// b = 10 20 30 40 2 3 1 0 ; v[2]=30 ; arr[2]=9 ; arr[3]=4 ; larr[2]=30 ; m[1].x=3 ; m[1][1]=4 ; 8+1=9 ; 7+1=8 ; 50+4
	e2e(t, src, "main",
		map[string][]byte{"0.0": zeros(36), "0.2": u32s(10, 20, 30, 40, 2, 3, 1, 0)},
		map[string][]byte{"0.0": cat(u32s(30, 9, 4, 30), f32s(3, 4, 9, 8), u32s(54))})
}

func TestE2E28SwizzlesConstructors(t *testing.T) {
	src := hdrOA + `
@compute @workgroup_size(1) fn main() {
  let v = vec4<f32>(f[0], f[1], f[2], f[3]);
  let s = v.wzyx;
  o[0] = bitcast<u32>(s.x); o[1] = bitcast<u32>(s.y);
  let t = v.xxyy + vec4<f32>(1.0);
  o[2] = bitcast<u32>(t.z);
  let u2 = vec2<f32>(v.zw);
  let u3 = vec3<f32>(u2, 9.0);
  o[3] = bitcast<u32>(u3.y); o[4] = bitcast<u32>(u3.z);
  let u4 = vec4<f32>(vec2<f32>(5.0), v.xy);
  o[5] = bitcast<u32>(u4.w); o[6] = bitcast<u32>(u4.y);
  var w = v;
  w.y = 10.0;
  w = w * 2.0;
  o[7] = bitcast<u32>(w.y); o[8] = bitcast<u32>(w.x);
  let x = 2.0 * v.xyz + 1.0;
  o[9] = bitcast<u32>(x.z);
  let iv = vec3<i32>(v.xyz);
  o[10] = bitcast<u32>(iv.x + iv.y * iv.z);
  let sp = vec3<u32>(b[0]);
  o[11] = sp.x + sp.y + sp.z;
  let q = 8.0 / v.yw;
  o[12] = bitcast<u32>(q.x); o[13] = bitcast<u32>(q.y);
  var z = vec3<f32>();
  z.x = v.y;
  o[14] = bitcast<u32>(z.x + z.y);
  let neg = -v.xy;
  o[15] = bitcast<u32>(neg.y);
}`
	// v=(1,2,3,4): s=(4,3,..) ; t=(2,2,3,3) ; u3=(3,4,9) ; u4=(5,5,1,2) ; w=(2,20,..) ; x.z=7 ; 1+2*3=7 ; 21 ; (4,2) ; 2+0 ; -2
	e2e(t, src, "main",
		map[string][]byte{"0.0": zeros(64), "0.2": u32s(7), "0.3": f32s(1, 2, 3, 4)},
		map[string][]byte{"0.0": cat(f32s(4, 3, 3, 4, 9, 2, 5, 20, 2, 7), u32s(7, 21), f32s(4, 2, 2, -2))})
}

func TestE2E29StructValues(t *testing.T) {
	src := `
struct P { a: u32, b: vec2<f32>, c: array<u32, 2> }
@group(0) @binding(0) var<storage, read_write> ps: array<P, 2>;
@compute @workgroup_size(1) fn main() {
  var p = ps[0];
  p.a += 1u;
  p.c[1] = p.c[0] + 5u;
  p.b = p.b.yx;
  ps[1] = p;
  let q = P(7u, vec2<f32>(1.0, 2.0), array<u32, 2>(3u, 4u));
  ps[0] = q;
}`
	const X = 0xAAAAAAAA
	// P: a@0 (pad@4) b@8 c@16 size 24
	init := cat(u32s(10, X), f32s(1.5, 2.5), u32s(100, 200), u32s(0, X, 0, 0, 0, 0))
	want := cat(u32s(7, X), f32s(1, 2), u32s(3, 4), u32s(11, X), f32s(2.5, 1.5), u32s(100, 105))
	e2e(t, src, "main", map[string][]byte{"0.0": init}, map[string][]byte{"0.0": want})
}
