package spv

import (
	"encoding/binary"
	"fmt"
	"math"
	"strings"
	"testing"

	"verif/harness/xrt"
)

// trapPrelude declares two storage buffers and common types/constants and
// opens %main.  Slot 0.0: struct { uint data[]; }  (ArrayStride 4).
// Slot 0.1: struct { uint data[4]; }.
const trapPrelude = `
OpCapability Shader
%glsl = OpExtInstImport "GLSL.std.450"
OpMemoryModel Logical GLSL450
OpEntryPoint GLCompute %main "main"
OpExecutionMode %main LocalSize 1 1 1
OpDecorate %rta ArrayStride 4
OpDecorate %blk Block
OpMemberDecorate %blk 0 Offset 0
OpDecorate %buf DescriptorSet 0
OpDecorate %buf Binding 0
OpDecorate %arr4 ArrayStride 4
OpDecorate %blk2 Block
OpMemberDecorate %blk2 0 Offset 0
OpDecorate %buf2 DescriptorSet 0
OpDecorate %buf2 Binding 1
%void = OpTypeVoid
%fnty = OpTypeFunction %void
%bool = OpTypeBool
%u32 = OpTypeInt 32 0
%i32 = OpTypeInt 32 1
%f32 = OpTypeFloat 32
%v2u = OpTypeVector %u32 2
%v4u = OpTypeVector %u32 4
%v2f = OpTypeVector %f32 2
%v4f = OpTypeVector %f32 4
%c0 = OpConstant %u32 0
%c1 = OpConstant %u32 1
%c2 = OpConstant %u32 2
%c3 = OpConstant %u32 3
%c4 = OpConstant %u32 4
%c5 = OpConstant %u32 5
%c6 = OpConstant %u32 6
%c7 = OpConstant %u32 7
%c28 = OpConstant %u32 28
%c30 = OpConstant %u32 30
%c31 = OpConstant %u32 31
%c32 = OpConstant %u32 32
%c33 = OpConstant %u32 33
%cm1 = OpConstant %i32 -1
%true = OpConstantTrue %bool
%false = OpConstantFalse %bool
%rta = OpTypeRuntimeArray %u32
%blk = OpTypeStruct %rta
%p_blk = OpTypePointer StorageBuffer %blk
%p_u32 = OpTypePointer StorageBuffer %u32
%buf = OpVariable %p_blk StorageBuffer
%arr4 = OpTypeArray %u32 %c4
%blk2 = OpTypeStruct %arr4
%p_blk2 = OpTypePointer StorageBuffer %blk2
%buf2 = OpVariable %p_blk2 StorageBuffer
%pf_u32 = OpTypePointer Function %u32
%pf_bool = OpTypePointer Function %bool
%pf_v4u = OpTypePointer Function %v4u
%pp_u32 = OpTypePointer Private %u32
`

const trapMain = `
%main = OpFunction %void None %fnty
%entry = OpLabel
`

// ld loads buf.data[k] as uint into %name.
func ld(name string, k int) string {
	return fmt.Sprintf("%%p_%s = OpAccessChain %%p_u32 %%buf %%c0 %%c%d\n%%%s = OpLoad %%u32 %%p_%s\n", name, k, name, name)
}

// ldAs loads buf.data[k] and bitcasts it to ty (i32 / f32).
func ldAs(name, ty string, k int) string {
	return ld(name+"_u", k) + fmt.Sprintf("%%%s = OpBitcast %%%s %%%s_u\n", name, ty, name)
}

var stCount int

// st stores uint %val into buf.data[k].
func st(k int, val string) string {
	stCount++
	return fmt.Sprintf("%%p_st%d = OpAccessChain %%p_u32 %%buf %%c0 %%c%d\nOpStore %%p_st%d %%%s\n", stCount, k, stCount, val)
}

// stAs bitcasts %val to uint and stores it.
func stAs(k int, val string) string {
	stCount++
	return fmt.Sprintf("%%cast%d = OpBitcast %%u32 %%%s\n", stCount, val) + st(k, fmt.Sprintf("cast%d", stCount))
}

type asmCase struct {
	name  string
	decls string // extra module-scope declarations (after the prelude)
	body  string // body of %main after the entry label, including the terminator(s)
	in    []uint32
	in2   []uint32 // slot 0.1; nil = 4 zero words
	noBuf bool     // do not bind slot 0.0
	want  map[int]uint32
	trap  string
	skip  string
	steps int
}

func runAsmCase(t *testing.T, c asmCase) {
	t.Helper()
	text := trapPrelude + c.decls + trapMain + c.body + "OpFunctionEnd\n"
	if strings.Contains(c.body, "OpFunction ") {
		text = trapPrelude + c.decls + c.body
	}
	bin, err := assemble(text, 0x00010300)
	if err != nil {
		t.Fatalf("%s: assemble: %v", c.name, err)
	}
	buf := u32s(c.in...)
	buf2 := u32s(0, 0, 0, 0)
	if c.in2 != nil {
		buf2 = u32s(c.in2...)
	}
	bufs := map[string][]byte{"0.0": buf, "0.1": buf2}
	if c.noBuf {
		delete(bufs, "0.0")
	}
	out := Run(bin, xrt.Input{Entry: "main", Buffers: bufs, MaxSteps: c.steps})
	switch {
	case c.trap != "":
		if !strings.Contains(out.Trap, c.trap) {
			t.Errorf("%s: got %+v, want trap containing %q", c.name, out, c.trap)
		}
	case c.skip != "":
		if !strings.Contains(out.Skip, c.skip) {
			t.Errorf("%s: got %+v, want skip containing %q", c.name, out, c.skip)
		}
	default:
		if !out.OK() {
			t.Errorf("%s: unexpected %+v", c.name, out)
			return
		}
		for k, v := range c.want {
			if got := binary.LittleEndian.Uint32(buf[4*k:]); got != v {
				t.Errorf("%s: data[%d] = %#x, want %#x", c.name, k, got, v)
			}
		}
	}
}

// binop builds: r = op(T(a), T(b)); data[2] = r.
func binop(op, ty string) string {
	if ty == "u32" {
		return ld("a", 0) + ld("b", 1) + fmt.Sprintf("%%r = %s %%u32 %%a %%b\n", op) + st(2, "r") + "OpReturn\n"
	}
	return ldAs("a", ty, 0) + ldAs("b", ty, 1) + fmt.Sprintf("%%r = %s %%%s %%a %%b\n", op, ty) + stAs(2, "r") + "OpReturn\n"
}

func ext1(fn string, ty string) string {
	return ldAs("a", ty, 0) + fmt.Sprintf("%%r = OpExtInst %%%s %%glsl %s %%a\n", ty, fn) + stAs(3, "r") + "OpReturn\n"
}

func ext2(fn string, ty string) string {
	return ldAs("a", ty, 0) + ldAs("b", ty, 1) + fmt.Sprintf("%%r = OpExtInst %%%s %%glsl %s %%a %%b\n", ty, fn) + stAs(3, "r") + "OpReturn\n"
}

func ext3(fn string, ty string) string {
	return ldAs("a", ty, 0) + ldAs("b", ty, 1) + ldAs("c", ty, 2) + fmt.Sprintf("%%r = OpExtInst %%%s %%glsl %s %%a %%b %%c\n", ty, fn) + stAs(3, "r") + "OpReturn\n"
}

func conv(op, from, to string) string {
	return ldAs("a", from, 0) + fmt.Sprintf("%%r = %s %%%s %%a\n", op, to) + stAs(2, "r") + "OpReturn\n"
}

const (
	intMin = 0x80000000
	fNaN   = 0x7fc00000
	fInf   = 0x7f800000
	fOne   = 0x3f800000
	fTwo   = 0x40000000
	fThree = 0x40400000
	fNeg1  = 0xbf800000
)

func TestTrapIntegerDivision(t *testing.T) {
	m7 := uint32(0xfffffff9) // -7
	for _, c := range []asmCase{
		{name: "udiv0", body: binop("OpUDiv", "u32"), in: []uint32{7, 0, 0}, trap: "OpUDiv by zero"},
		{name: "umod0", body: binop("OpUMod", "u32"), in: []uint32{7, 0, 0}, trap: "OpUMod by zero"},
		{name: "sdiv0", body: binop("OpSDiv", "i32"), in: []uint32{7, 0, 0}, trap: "OpSDiv by zero"},
		{name: "srem0", body: binop("OpSRem", "i32"), in: []uint32{7, 0, 0}, trap: "OpSRem by zero"},
		{name: "smod0", body: binop("OpSMod", "i32"), in: []uint32{7, 0, 0}, trap: "OpSMod by zero"},
		{name: "sdiv-overflow", body: binop("OpSDiv", "i32"), in: []uint32{intMin, 0xffffffff, 0}, trap: "OpSDiv overflow"},
		{name: "srem-overflow", body: binop("OpSRem", "i32"), in: []uint32{intMin, 0xffffffff, 0}, trap: "OpSRem overflow"},
		{name: "smod-overflow", body: binop("OpSMod", "i32"), in: []uint32{intMin, 0xffffffff, 0}, trap: "OpSMod overflow"},
		// Defined results: -7/2 = -3 (toward zero), -7 rem 2 = -1 (sign of dividend), -7 mod 2 = 1 (sign of divisor), 7 mod -2 = -1.
		{name: "sdiv", body: binop("OpSDiv", "i32"), in: []uint32{m7, 2, 0}, want: map[int]uint32{2: 0xfffffffd}},
		{name: "srem", body: binop("OpSRem", "i32"), in: []uint32{m7, 2, 0}, want: map[int]uint32{2: 0xffffffff}},
		{name: "smod", body: binop("OpSMod", "i32"), in: []uint32{m7, 2, 0}, want: map[int]uint32{2: 1}},
		{name: "smod-neg-divisor", body: binop("OpSMod", "i32"), in: []uint32{7, 0xfffffffe, 0}, want: map[int]uint32{2: 0xffffffff}},
		{name: "sdiv-min-by-1", body: binop("OpSDiv", "i32"), in: []uint32{intMin, 1, 0}, want: map[int]uint32{2: intMin}},
		{name: "udiv-max", body: binop("OpUDiv", "u32"), in: []uint32{0xffffffff, 2, 0}, want: map[int]uint32{2: 0x7fffffff}},
		// Wrapping arithmetic is defined.
		{name: "iadd-wrap", body: binop("OpIAdd", "u32"), in: []uint32{0xffffffff, 2, 0}, want: map[int]uint32{2: 1}},
		{name: "isub-wrap", body: binop("OpISub", "i32"), in: []uint32{intMin, 1, 0}, want: map[int]uint32{2: 0x7fffffff}},
		{name: "imul-wrap", body: binop("OpIMul", "i32"), in: []uint32{0x10000, 0x10000, 9}, want: map[int]uint32{2: 0}},
		{name: "snegate-min", body: conv("OpSNegate", "i32", "i32"), in: []uint32{intMin, 0, 0}, want: map[int]uint32{2: intMin}},
	} {
		runAsmCase(t, c)
	}
}

func TestTrapShifts(t *testing.T) {
	for _, c := range []asmCase{
		{name: "shl32", body: binop("OpShiftLeftLogical", "u32"), in: []uint32{1, 32, 0}, trap: "shift count 32 >= bit width 32"},
		{name: "shr32", body: binop("OpShiftRightLogical", "u32"), in: []uint32{1, 32, 0}, trap: "shift count 32 >= bit width 32"},
		{name: "sar33", body: binop("OpShiftRightArithmetic", "i32"), in: []uint32{1, 33, 0}, trap: "shift count 33 >= bit width 32"},
		{name: "shl-huge", body: binop("OpShiftLeftLogical", "u32"), in: []uint32{1, 0xffffffff, 0}, trap: "shift count 4294967295"},
		{name: "shl31", body: binop("OpShiftLeftLogical", "u32"), in: []uint32{1, 31, 0}, want: map[int]uint32{2: 0x80000000}},
		{name: "shr31", body: binop("OpShiftRightLogical", "u32"), in: []uint32{0x80000000, 31, 0}, want: map[int]uint32{2: 1}},
		{name: "sar31", body: binop("OpShiftRightArithmetic", "i32"), in: []uint32{0x80000000, 31, 0}, want: map[int]uint32{2: 0xffffffff}},
		{name: "sar1", body: binop("OpShiftRightArithmetic", "i32"), in: []uint32{0xfffffff8, 1, 0}, want: map[int]uint32{2: 0xfffffffc}},
	} {
		runAsmCase(t, c)
	}
}

func TestTrapFloatToInt(t *testing.T) {
	for _, c := range []asmCase{
		{name: "ftos-nan", body: conv("OpConvertFToS", "f32", "i32"), in: []uint32{fNaN, 0, 0}, trap: "float-to-int conversion of NaN"},
		{name: "ftos-inf", body: conv("OpConvertFToS", "f32", "i32"), in: []uint32{fInf, 0, 0}, trap: "float-to-int conversion of +Inf"},
		{name: "ftos-2^31", body: conv("OpConvertFToS", "f32", "i32"), in: []uint32{0x4f000000, 0, 0}, trap: "not representable in a 32-bit signed"},
		{name: "ftos-below-min", body: conv("OpConvertFToS", "f32", "i32"), in: []uint32{0xcf000001, 0, 0}, trap: "not representable"},
		{name: "ftou-neg", body: conv("OpConvertFToU", "f32", "u32"), in: []uint32{fNeg1, 0, 0}, trap: "not representable in a 32-bit unsigned"},
		{name: "ftou-2^32", body: conv("OpConvertFToU", "f32", "u32"), in: []uint32{0x4f800000, 0, 0}, trap: "not representable"},
		{name: "ftou-nan", body: conv("OpConvertFToU", "f32", "u32"), in: []uint32{fNaN, 0, 0}, trap: "conversion of NaN"},
		// In range after truncation toward zero.
		{name: "ftos-min", body: conv("OpConvertFToS", "f32", "i32"), in: []uint32{0xcf000000, 0, 0}, want: map[int]uint32{2: 0x80000000}},
		{name: "ftos-max-f32", body: conv("OpConvertFToS", "f32", "i32"), in: []uint32{0x4effffff, 0, 0}, want: map[int]uint32{2: 0x7fffff80}},
		{name: "ftos-trunc", body: conv("OpConvertFToS", "f32", "i32"), in: []uint32{0xc0733333 /* -3.8 */, 0, 0}, want: map[int]uint32{2: 0xfffffffd}},
		{name: "ftou-minus-half", body: conv("OpConvertFToU", "f32", "u32"), in: []uint32{0xbf000000, 0, 5}, want: map[int]uint32{2: 0}},
		{name: "ftou-max-f32", body: conv("OpConvertFToU", "f32", "u32"), in: []uint32{0x4f7fffff, 0, 0}, want: map[int]uint32{2: 0xffffff00}},
		// int -> float rounds to nearest even.
		{name: "utof-2^24+1", body: conv("OpConvertUToF", "u32", "f32"), in: []uint32{16777217, 0, 0}, want: map[int]uint32{2: 0x4b800000}},
		{name: "utof-2^24+3", body: conv("OpConvertUToF", "u32", "f32"), in: []uint32{16777219, 0, 0}, want: map[int]uint32{2: 0x4b800002}},
		{name: "utof-max", body: conv("OpConvertUToF", "u32", "f32"), in: []uint32{0xffffffff, 0, 0}, want: map[int]uint32{2: 0x4f800000}},
		{name: "stof-neg", body: conv("OpConvertSToF", "i32", "f32"), in: []uint32{0xfffffffb, 0, 0}, want: map[int]uint32{2: 0xc0a00000}},
	} {
		runAsmCase(t, c)
	}
}

func TestTrapIndexing(t *testing.T) {
	chain := func(op, idx string) string {
		return fmt.Sprintf("%%q = %s %%p_u32 %%buf2 %%c0 %s\n", op, idx)
	}
	for _, c := range []asmCase{
		{name: "fixed-oob-load", body: chain("OpAccessChain", "%c4") + "%v = OpLoad %u32 %q\n" + st(0, "v") + "OpReturn\n", in: []uint32{0}, trap: "out-of-bounds access chain index 4 of 4"},
		{name: "fixed-oob-store", body: chain("OpAccessChain", "%c7") + "OpStore %q %c1\nOpReturn\n", in: []uint32{0}, trap: "out-of-bounds access chain index 7 of 4"},
		{name: "fixed-oob-negative", body: chain("OpAccessChain", "%cm1") + "%v = OpLoad %u32 %q\nOpReturn\n", in: []uint32{0}, trap: "index -1 of 4"},
		// An out-of-range OpAccessChain that is never dereferenced is not an access.
		{name: "fixed-oob-unused", body: chain("OpAccessChain", "%c4") + st(0, "c5") + "OpReturn\n", in: []uint32{0}, want: map[int]uint32{0: 5}},
		{name: "inbounds-oob", body: chain("OpInBoundsAccessChain", "%c4") + "OpReturn\n", in: []uint32{0}, trap: "out-of-bounds access chain index 4 of 4"},
		{name: "fixed-last-ok", body: chain("OpAccessChain", "%c3") + "%v = OpLoad %u32 %q\n" + st(0, "v") + "OpReturn\n", in: []uint32{0}, in2: []uint32{1, 2, 3, 44}, want: map[int]uint32{0: 44}},
		// Runtime array: 4 elements in a 16-byte buffer.
		{name: "runtime-oob", body: ld("v", 4) + "OpReturn\n", in: []uint32{1, 2, 3, 4}, trap: "index 4 of 4 into runtime array"},
		{name: "runtime-oob-store", body: st(5, "c1") + "OpReturn\n", in: []uint32{1, 2, 3, 4}, trap: "index 5 of 4 into runtime array"},
		{name: "runtime-last", body: ld("v", 3) + st(0, "v") + "OpReturn\n", in: []uint32{1, 2, 3, 4}, want: map[int]uint32{0: 4}},
		{name: "runtime-empty", body: ld("v", 0) + "OpReturn\n", in: []uint32{}, trap: "index 0 of 0 into runtime array"},
		// The type has 4 elements but the bound buffer only 8 bytes.
		{name: "buffer-too-small", body: chain("OpAccessChain", "%c3") + "%v = OpLoad %u32 %q\nOpReturn\n", in: []uint32{0}, in2: []uint32{1, 2}, trap: "load of 4 bytes at offset 12 is beyond buffer \"0.1\" of 8 bytes"},
		{name: "buffer-too-small-whole", body: "%q = OpAccessChain %p_arr4 %buf2 %c0\n%v = OpLoad %arr4 %q\nOpReturn\n", decls: "%p_arr4 = OpTypePointer StorageBuffer %arr4\n", in: []uint32{0}, in2: []uint32{1, 2, 3}, trap: "beyond buffer"},
		{name: "missing-buffer", body: ld("v", 0) + "OpReturn\n", noBuf: true, skip: `no buffer bound to slot "0.0"`},
		{name: "unused-missing-buffer", body: "OpReturn\n", noBuf: true, want: map[int]uint32{}},
		// Undefined index.
		{name: "undef-index", body: "%pi = OpVariable %pf_u32 Function\n%i = OpLoad %u32 %pi\n%q = OpAccessChain %p_u32 %buf %c0 %i\nOpReturn\n", in: []uint32{0}, trap: "used as access chain index"},
		// Dynamic vector indexing.
		{name: "extract-dyn-oob", body: ld("i", 0) + "%vec = OpCompositeConstruct %v4u %c1 %c2 %c3 %c4\n%e = OpVectorExtractDynamic %u32 %vec %i\n" + st(1, "e") + "OpReturn\n", in: []uint32{4, 0}, trap: "OpVectorExtractDynamic: index 4 out of range of 4"},
		{name: "extract-dyn", body: ld("i", 0) + "%vec = OpCompositeConstruct %v4u %c1 %c2 %c3 %c4\n%e = OpVectorExtractDynamic %u32 %vec %i\n" + st(1, "e") + "OpReturn\n", in: []uint32{3, 0}, want: map[int]uint32{1: 4}},
		{name: "insert-dyn-oob", body: ld("i", 0) + "%vec = OpCompositeConstruct %v4u %c1 %c2 %c3 %c4\n%e = OpVectorInsertDynamic %v4u %vec %c7 %i\nOpReturn\n", in: []uint32{9, 0}, trap: "OpVectorInsertDynamic: index 9 out of range of 4"},
		{name: "insert-dyn", body: ld("i", 0) + "%vec = OpCompositeConstruct %v4u %c1 %c2 %c3 %c4\n%e = OpVectorInsertDynamic %v4u %vec %c7 %i\n%x = OpCompositeExtract %u32 %e 2\n%y = OpCompositeExtract %u32 %e 3\n" + st(1, "x") + st(2, "y") + "OpReturn\n", in: []uint32{2, 0, 0}, want: map[int]uint32{1: 7, 2: 4}},
		{name: "composite-extract-oob", body: "%vec = OpCompositeConstruct %v4u %c1 %c2 %c3 %c4\n%e = OpCompositeExtract %u32 %vec 4\nOpReturn\n", in: []uint32{0}, trap: "OpCompositeExtract index 4 out of range of 4"},
		// Function-memory array.
		{name: "function-array-oob", decls: "%pf_arr4 = OpTypePointer Function %arr4f\n", body: "%a = OpVariable %pf_arr4 Function\n" + ld("i", 0) + "%q = OpAccessChain %pf_u32 %a %i\nOpStore %q %c1\nOpReturn\n", in: []uint32{4}, trap: "index 4 of 4 into array"},
	} {
		c.decls = "%arr4f = OpTypeArray %u32 %c4\n" + c.decls
		runAsmCase(t, c)
	}
}

func TestTrapUndefinedValues(t *testing.T) {
	for _, c := range []asmCase{
		{name: "uninit-arith", body: "%x = OpVariable %pf_u32 Function\n%v = OpLoad %u32 %x\n%r = OpIAdd %u32 %v %c1\nOpReturn\n", in: []uint32{0}, trap: "undefined value %"},
		{name: "uninit-store-to-buffer", body: "%x = OpVariable %pf_u32 Function\n%v = OpLoad %u32 %x\n" + st(0, "v") + "OpReturn\n", in: []uint32{0}, trap: "store of an undefined value to buffer"},
		{name: "uninit-branch", body: "%x = OpVariable %pf_bool Function\n%v = OpLoad %bool %x\nOpSelectionMerge %m None\nOpBranchConditional %v %a %m\n%a = OpLabel\nOpBranch %m\n%m = OpLabel\nOpReturn\n", in: []uint32{0}, trap: "branch on undefined condition"},
		{name: "uninit-switch", body: "%x = OpVariable %pf_u32 Function\n%v = OpLoad %u32 %x\nOpSelectionMerge %m None\nOpSwitch %v %m 1 %a\n%a = OpLabel\nOpBranch %m\n%m = OpLabel\nOpReturn\n", in: []uint32{0}, trap: "switch on undefined selector"},
		{name: "uninit-convert", body: "%x = OpVariable %pf_u32 Function\n%v = OpLoad %u32 %x\n%r = OpConvertUToF %f32 %v\nOpReturn\n", in: []uint32{0}, trap: "undefined value"},
		{name: "uninit-private", decls: "%pv = OpVariable %pp_u32 Private\n", body: "%v = OpLoad %u32 %pv\n%r = OpIAdd %u32 %v %c1\nOpReturn\n", in: []uint32{0}, trap: "undefined value"},
		{name: "private-initialised", decls: "%pv = OpVariable %pp_u32 Private %c7\n", body: "%v = OpLoad %u32 %pv\n%r = OpIAdd %u32 %v %c1\n" + st(0, "r") + "OpReturn\n", in: []uint32{0}, want: map[int]uint32{0: 8}},
		{name: "initialised-function-var", body: "%x = OpVariable %pf_u32 Function %c5\n%v = OpLoad %u32 %x\n" + st(0, "v") + "OpReturn\n", in: []uint32{0}, want: map[int]uint32{0: 5}},
		// Copying a partly undefined composite is fine; only consuming the undefined scalar traps.
		{name: "partial-composite-ok", body: "%x = OpVariable %pf_v4u Function\n%y = OpVariable %pf_v4u Function\n%q = OpAccessChain %pf_u32 %x %c0\nOpStore %q %c7\n%v = OpLoad %v4u %x\nOpStore %y %v\n%w = OpLoad %v4u %y\n%e = OpCompositeExtract %u32 %w 0\n" + st(0, "e") + "OpReturn\n", in: []uint32{0}, want: map[int]uint32{0: 7}},
		{name: "partial-composite-bad", body: "%x = OpVariable %pf_v4u Function\n%q = OpAccessChain %pf_u32 %x %c0\nOpStore %q %c7\n%v = OpLoad %v4u %x\n%e = OpCompositeExtract %u32 %v 1\n" + st(0, "e") + "OpReturn\n", in: []uint32{0}, trap: "store of an undefined value"},
		{name: "partial-composite-vector-op", body: "%x = OpVariable %pf_v4u Function\n%q = OpAccessChain %pf_u32 %x %c0\nOpStore %q %c7\n%v = OpLoad %v4u %x\n%r = OpIAdd %v4u %v %v\nOpReturn\n", in: []uint32{0}, trap: "undefined value"},
		{name: "opundef-used", decls: "%ud = OpUndef %u32\n", body: "%r = OpIAdd %u32 %ud %c1\nOpReturn\n", in: []uint32{0}, trap: "undefined value"},
		{name: "opundef-copied", decls: "%ud = OpUndef %u32\n", body: "%r = OpCopyObject %u32 %ud\n" + st(0, "c3") + "OpReturn\n", in: []uint32{0}, want: map[int]uint32{0: 3}},
		{name: "opundef-in-function", body: "%ud = OpUndef %u32\n%r = OpNot %u32 %ud\nOpReturn\n", in: []uint32{0}, trap: "undefined value"},
		{name: "constant-null-defined", decls: "%nul = OpConstantNull %v4u\n", body: "%e = OpCompositeExtract %u32 %nul 2\n%r = OpIAdd %u32 %e %c1\n" + st(0, "r") + "OpReturn\n", in: []uint32{9}, want: map[int]uint32{0: 1}},
		{name: "shuffle-undef-unused", body: "%a = OpCompositeConstruct %v2u %c1 %c2\n%s = OpVectorShuffle %v4u %a %a 0 4294967295 3 2\n%e = OpCompositeExtract %u32 %s 2\n%f = OpCompositeExtract %u32 %s 3\n" + st(0, "e") + st(1, "f") + "OpReturn\n", in: []uint32{0, 0}, want: map[int]uint32{0: 2, 1: 1}},
		{name: "shuffle-undef-used", body: "%a = OpCompositeConstruct %v2u %c1 %c2\n%s = OpVectorShuffle %v4u %a %a 0 4294967295 3 2\n%e = OpCompositeExtract %u32 %s 1\n" + st(0, "e") + "OpReturn\n", in: []uint32{0}, trap: "undefined value"},
		{name: "select-undef-cond", body: "%x = OpVariable %pf_bool Function\n%v = OpLoad %bool %x\n%r = OpSelect %u32 %v %c1 %c2\nOpReturn\n", in: []uint32{0}, trap: "undefined value"},
		{name: "select-undef-unchosen", decls: "%ud = OpUndef %u32\n", body: "%r = OpSelect %u32 %true %c1 %ud\n" + st(0, "r") + "OpReturn\n", in: []uint32{0}, want: map[int]uint32{0: 1}},
		{name: "phi-undef-unused", decls: "%ud = OpUndef %u32\n", body: "OpBranch %n\n%n = OpLabel\n%ph = OpPhi %u32 %ud %entry\n" + st(0, "c2") + "OpReturn\n", in: []uint32{0}, want: map[int]uint32{0: 2}},
		{name: "unreachable", body: "OpUnreachable\n", in: []uint32{0}, trap: "OpUnreachable reached"},
	} {
		runAsmCase(t, c)
	}
}

func TestTrapBitFieldClampPow(t *testing.T) {
	bfi := func(off, cnt string) string {
		return ld("a", 0) + ld("b", 1) + fmt.Sprintf("%%r = OpBitFieldInsert %%u32 %%a %%b %%%s %%%s\n", off, cnt) + st(3, "r") + "OpReturn\n"
	}
	bfe := func(op, ty, off, cnt string) string {
		return ldAs("a", ty, 0) + fmt.Sprintf("%%r = %s %%%s %%a %%%s %%%s\n", op, ty, off, cnt) + stAs(3, "r") + "OpReturn\n"
	}
	for _, c := range []asmCase{
		{name: "bfi-overflow", body: bfi("c30", "c3"), in: []uint32{0, 7, 0, 0}, trap: "offset 30 + count 3 > bit width 32"},
		{name: "bfi-offset-33", body: bfi("c33", "c0"), in: []uint32{0, 7, 0, 0}, trap: "offset 33 + count 0 > bit width 32"},
		{name: "bfi-ok", body: bfi("c28", "c4"), in: []uint32{0x0fffffff, 0xa5, 0, 0}, want: map[int]uint32{3: 0x5fffffff}},
		{name: "bfi-count0", body: bfi("c32", "c0"), in: []uint32{0x12345678, 0xffffffff, 0, 0}, want: map[int]uint32{3: 0x12345678}},
		{name: "bfi-full", body: bfi("c0", "c32"), in: []uint32{0x12345678, 0xcafebabe, 0, 0}, want: map[int]uint32{3: 0xcafebabe}},
		{name: "bfue-overflow", body: bfe("OpBitFieldUExtract", "u32", "c31", "c2"), in: []uint32{1, 0, 0, 0}, trap: "offset 31 + count 2 > bit width 32"},
		{name: "bfse-overflow", body: bfe("OpBitFieldSExtract", "i32", "c32", "c1"), in: []uint32{1, 0, 0, 0}, trap: "offset 32 + count 1 > bit width 32"},
		{name: "bfue-ok", body: bfe("OpBitFieldUExtract", "u32", "c28", "c4"), in: []uint32{0xa0000000, 0, 0, 0}, want: map[int]uint32{3: 0xa}},
		{name: "bfse-ok", body: bfe("OpBitFieldSExtract", "i32", "c28", "c4"), in: []uint32{0xa0000000, 0, 0, 0}, want: map[int]uint32{3: 0xfffffffa}},
		{name: "bfse-count0", body: bfe("OpBitFieldSExtract", "i32", "c5", "c0"), in: []uint32{0xffffffff, 0, 0, 9}, want: map[int]uint32{3: 0}},
		{name: "bfue-full", body: bfe("OpBitFieldUExtract", "u32", "c0", "c32"), in: []uint32{0xdeadbeef, 0, 0, 0}, want: map[int]uint32{3: 0xdeadbeef}},

		{name: "fclamp-bad", body: ext3("FClamp", "f32"), in: []uint32{fOne, fTwo, fOne, 0}, trap: "FClamp: minVal 2 > maxVal 1"},
		{name: "fclamp-ok", body: ext3("FClamp", "f32"), in: []uint32{fThree, fOne, fTwo, 0}, want: map[int]uint32{3: fTwo}},
		{name: "uclamp-bad", body: ext3("UClamp", "u32"), in: []uint32{5, 9, 3, 0}, trap: "UClamp: minVal 9 > maxVal 3"},
		{name: "uclamp-ok", body: ext3("UClamp", "u32"), in: []uint32{5, 7, 9, 0}, want: map[int]uint32{3: 7}},
		{name: "sclamp-bad", body: ext3("SClamp", "i32"), in: []uint32{5, 1, 0xffffffff, 0}, trap: "SClamp: minVal 1 > maxVal -1"},
		{name: "sclamp-ok", body: ext3("SClamp", "i32"), in: []uint32{0xfffffff0, 0xffffffff, 1, 0}, want: map[int]uint32{3: 0xffffffff}},
		{name: "pow-neg", body: ext2("Pow", "f32"), in: []uint32{fNeg1, fTwo, 0, 0}, trap: "Pow: x = -1 < 0"},
		{name: "pow-0-0", body: ext2("Pow", "f32"), in: []uint32{0, 0, 0, 0}, trap: "Pow: x = 0 and y = 0 <= 0"},
		{name: "pow-0-neg", body: ext2("Pow", "f32"), in: []uint32{0, fNeg1, 0, 0}, trap: "Pow: x = 0 and y = -1 <= 0"},
		{name: "pow-ok", body: ext2("Pow", "f32"), in: []uint32{fTwo, fThree, 0, 0}, want: map[int]uint32{3: 0x41000000}},
		{name: "pow-0-pos", body: ext2("Pow", "f32"), in: []uint32{0, fTwo, 0, 7}, want: map[int]uint32{3: 0}},
		{name: "smoothstep-bad", body: ext3("SmoothStep", "f32"), in: []uint32{fOne, fOne, fTwo, 0}, trap: "SmoothStep: edge0 1 >= edge1 1"},
		{name: "smoothstep-ok", body: ext3("SmoothStep", "f32"), in: []uint32{0, fTwo, fOne, 0}, want: map[int]uint32{3: 0x3f000000}},
		// Domain errors that yield NaN are not traps.
		{name: "sqrt-4", body: ext1("Sqrt", "f32"), in: []uint32{0x40800000, 0, 0, 0}, want: map[int]uint32{3: fTwo}},
		{name: "inversesqrt-4", body: ext1("InverseSqrt", "f32"), in: []uint32{0x40800000, 0, 0, 0}, want: map[int]uint32{3: 0x3f000000}},
	} {
		runAsmCase(t, c)
	}
	// Sqrt(-1), Log(-1), InverseSqrt(-1) ... are NaN (of either sign), not traps.
	for _, fn := range []string{"Sqrt", "Log", "InverseSqrt", "Log2", "Asin"} {
		text := trapPrelude + trapMain + ext1(fn, "f32") + "OpFunctionEnd\n"
		bin, err := assemble(text, 0x00010300)
		if err != nil {
			t.Fatal(err)
		}
		in := fNeg1
		if fn == "Asin" {
			in = fThree
		}
		buf := u32s(uint32(in), 0, 0, 0)
		out := Run(bin, xrt.Input{Entry: "main", Buffers: map[string][]byte{"0.0": buf}})
		got := binary.LittleEndian.Uint32(buf[12:])
		if !out.OK() || got&0x7f800000 != 0x7f800000 || got&0x7fffff == 0 {
			t.Errorf("%s of out-of-domain value: %+v, result %#x, want a NaN and no trap", fn, out, got)
		}
	}
}

func TestControlFlowAndCalls(t *testing.T) {
	for _, c := range []asmCase{
		{
			// sum = 0; for (i = 0; i < n; i++) sum += i, with OpPhi.
			name: "phi-loop",
			body: ld("n", 0) + `OpBranch %head
%head = OpLabel
%i = OpPhi %u32 %c0 %entry %i2 %cont
%sum = OpPhi %u32 %c0 %entry %sum2 %cont
%cond = OpULessThan %bool %i %n
OpLoopMerge %exit %cont None
OpBranchConditional %cond %bodyl %exit
%bodyl = OpLabel
%sum2 = OpIAdd %u32 %sum %i
OpBranch %cont
%cont = OpLabel
%i2 = OpIAdd %u32 %i %c1
OpBranch %head
%exit = OpLabel
` + st(1, "sum") + "OpReturn\n",
			in: []uint32{5, 0}, want: map[int]uint32{1: 10},
		},
		{
			// Phis are evaluated simultaneously: (a, b) = (b, a) three times.
			name: "phi-swap",
			body: `OpBranch %head
%head = OpLabel
%a = OpPhi %u32 %c1 %entry %b %cont
%b = OpPhi %u32 %c2 %entry %a %cont
%i = OpPhi %u32 %c0 %entry %i2 %cont
%cond = OpULessThan %bool %i %c3
OpLoopMerge %exit %cont None
OpBranchConditional %cond %cont %exit
%cont = OpLabel
%i2 = OpIAdd %u32 %i %c1
OpBranch %head
%exit = OpLabel
` + st(0, "a") + st(1, "b") + "OpReturn\n",
			in: []uint32{0, 0}, want: map[int]uint32{0: 2, 1: 1},
		},
		{
			name: "switch",
			body: ld("s", 0) + `OpSelectionMerge %m None
OpSwitch %s %dflt 1 %one 2 %two 4294967295 %neg
%one = OpLabel
OpBranch %two
%two = OpLabel
` + st(1, "c2") + `OpBranch %m
%neg = OpLabel
` + st(1, "c7") + `OpBranch %m
%dflt = OpLabel
` + st(1, "c5") + `OpBranch %m
%m = OpLabel
OpReturn
`,
			in: []uint32{0xffffffff, 0}, want: map[int]uint32{1: 7},
		},
		{name: "fuel", body: "OpBranch %l\n%l = OpLabel\nOpLoopMerge %e %l None\nOpBranch %l\n%e = OpLabel\nOpReturn\n", in: []uint32{0}, skip: "fuel", steps: 500},
		{name: "kill-ends-invocation", body: st(0, "c3") + "OpKill\n", in: []uint32{0}, want: map[int]uint32{0: 3}},
		{
			name: "call-with-pointers",
			decls: `%pv = OpVariable %pp_u32 Private %c5
%fty2 = OpTypeFunction %u32 %pf_u32 %pp_u32 %p_u32 %u32
`,
			body: `%helper = OpFunction %u32 None %fty2
%a1 = OpFunctionParameter %pf_u32
%a2 = OpFunctionParameter %pp_u32
%a3 = OpFunctionParameter %p_u32
%a4 = OpFunctionParameter %u32
%hl = OpLabel
%x1 = OpLoad %u32 %a1
%x2 = OpLoad %u32 %a2
%x3 = OpLoad %u32 %a3
%s1 = OpIAdd %u32 %x1 %x2
%s2 = OpIAdd %u32 %s1 %x3
%s3 = OpIAdd %u32 %s2 %a4
OpStore %a1 %s3
OpStore %a2 %c7
OpStore %a3 %c6
OpReturnValue %s3
OpFunctionEnd
%main = OpFunction %void None %fnty
%entry = OpLabel
%loc = OpVariable %pf_u32 Function %c1
%q = OpAccessChain %p_u32 %buf %c0 %c0
%r = OpFunctionCall %u32 %helper %loc %pv %q %c2
%l2 = OpLoad %u32 %loc
%p2 = OpLoad %u32 %pv
` + st(1, "r") + st(2, "l2") + st(3, "p2") + "OpReturn\nOpFunctionEnd\n",
			// 1 + 5 + 100 + 2 = 108
			in: []uint32{100, 0, 0, 0}, want: map[int]uint32{0: 6, 1: 108, 2: 108, 3: 7},
		},
		{
			name:  "recursion",
			decls: "%fty2 = OpTypeFunction %void\n",
			body: `%rec = OpFunction %void None %fty2
%rl = OpLabel
%rr = OpFunctionCall %void %rec
OpReturn
OpFunctionEnd
%main = OpFunction %void None %fnty
%entry = OpLabel
%r = OpFunctionCall %void %rec
OpReturn
OpFunctionEnd
`,
			in: []uint32{0}, skip: "recursive call",
		},
		{name: "copy-memory", body: "%x = OpVariable %pf_u32 Function %c6\n%q = OpAccessChain %p_u32 %buf %c0 %c1\nOpCopyMemory %q %x\nOpReturn\n", in: []uint32{0, 0}, want: map[int]uint32{1: 6}},
		{name: "spec-constant-op", decls: "%sc = OpSpecConstant %u32 40\n%sco = OpSpecConstantOp %u32 IAdd %sc %c2\nOpDecorate %sc SpecId 0\n", body: st(0, "sco") + "OpReturn\n", in: []uint32{0}, want: map[int]uint32{0: 42}},
		{name: "unsupported-opcode", decls: "%img = OpTypeImage %f32 1 0 0 0 1 0\n", body: "%d = OpDPdx %f32 %cf\nOpReturn\n", in: []uint32{0}, skip: "unsupported opcode OpDPdx"},
	} {
		if strings.Contains(c.body, "OpDPdx") {
			c.decls += "%cf = OpConstant %f32 1\n"
		}
		runAsmCase(t, c)
	}
	// Entry point problems.
	bin, err := assemble(trapPrelude+trapMain+"OpReturn\nOpFunctionEnd\n", 0x00010300)
	if err != nil {
		t.Fatal(err)
	}
	if out := Run(bin, xrt.Input{Entry: "nope"}); !strings.Contains(out.Skip, `entry point "nope" not found`) {
		t.Errorf("missing entry point: %+v", out)
	}
	if out := Run(bin, xrt.Input{Entry: "main", LocalID: [3]uint32{1, 0, 0}}); !strings.Contains(out.Skip, "outside LocalSize") {
		t.Errorf("LocalID outside LocalSize: %+v", out)
	}
}

// TestExplicitLayoutIsHonoured uses deliberately unusual decorations: the
// executor must follow them, not a std430 assumption.
func TestExplicitLayoutIsHonoured(t *testing.T) {
	decls := `
OpDecorate %odd ArrayStride 12
OpDecorate %sblk Block
OpMemberDecorate %sblk 0 Offset 4
OpMemberDecorate %sblk 1 Offset 20
OpMemberDecorate %sblk 1 RowMajor
OpMemberDecorate %sblk 1 MatrixStride 8
OpMemberDecorate %sblk 2 Offset 40
OpMemberDecorate %sblk 2 ColMajor
OpMemberDecorate %sblk 2 MatrixStride 16
OpMemberDecorate %sblk 3 Offset 72
OpDecorate %rtodd ArrayStride 12
OpDecorate %sbuf DescriptorSet 2
OpDecorate %sbuf Binding 5
%odd = OpTypeArray %u32 %c2
%m22 = OpTypeMatrix %v2f 2
%rtodd = OpTypeRuntimeArray %u32
%sblk = OpTypeStruct %odd %m22 %m22 %rtodd
%p_sblk = OpTypePointer StorageBuffer %sblk
%p_m22 = OpTypePointer StorageBuffer %m22
%p_v2f = OpTypePointer StorageBuffer %v2f
%p_f32 = OpTypePointer StorageBuffer %f32
%sbuf = OpVariable %p_sblk StorageBuffer
`
	body := `
%q0 = OpAccessChain %p_u32 %sbuf %c0 %c1
%e0 = OpLoad %u32 %q0
` + st(0, "e0") + `
%qm = OpAccessChain %p_m22 %sbuf %c1
%mrow = OpLoad %m22 %qm
%col0 = OpCompositeExtract %v2f %mrow 0
%col1 = OpCompositeExtract %v2f %mrow 1
%r00 = OpCompositeExtract %f32 %col0 0
%r01 = OpCompositeExtract %f32 %col0 1
%r10 = OpCompositeExtract %f32 %col1 0
%r11 = OpCompositeExtract %f32 %col1 1
` + stAs(1, "r00") + stAs(2, "r01") + stAs(3, "r10") + stAs(4, "r11") + `
%qc = OpAccessChain %p_v2f %sbuf %c1 %c1
%colv = OpLoad %v2f %qc
%cv1 = OpCompositeExtract %f32 %colv 1
` + stAs(5, "cv1") + `
%qe = OpAccessChain %p_f32 %sbuf %c1 %c0 %c1
%el = OpLoad %f32 %qe
` + stAs(6, "el") + `
%qm2 = OpAccessChain %p_m22 %sbuf %c2
OpStore %qm2 %mrow
%len = OpArrayLength %u32 %sbuf 3
` + st(7, "len") + `
%qr = OpAccessChain %p_u32 %sbuf %c3 %c1
OpStore %qr %c7
OpReturn
`
	text := trapPrelude + decls + trapMain + body + "OpFunctionEnd\n"
	bin, err := assemble(text, 0x00010300)
	if err != nil {
		t.Fatal(err)
	}
	// Layout: odd[0] @4, odd[1] @16; row-major mat @20: rows at 20 and 28
	// (row r = [m(c0,r), m(c1,r)]); col-major mat @40 stride 16: col0 @40, col1 @56;
	// runtime array @72 stride 12.
	s := make([]byte, 100)
	put := func(off int, v uint32) { binary.LittleEndian.PutUint32(s[off:], v) }
	put(4, 111)
	put(16, 222)
	f := func(x float32) uint32 { return binary.LittleEndian.Uint32(f32s(x)) }
	put(20, f(1)) // row 0: (c0,r0)=1 (c1,r0)=2
	put(24, f(2))
	put(28, f(3)) // row 1: (c0,r1)=3 (c1,r1)=4
	put(32, f(4))
	out0 := make([]byte, 32)
	res := Run(bin, xrt.Input{Entry: "main", Buffers: map[string][]byte{"0.0": out0, "2.5": s}, TraceAccesses: true})
	if !res.OK() {
		t.Fatalf("%+v", res)
	}
	want := u32s(222, f(1), f(3), f(2), f(4), f(4), f(3), 2)
	if string(out0) != string(want) {
		t.Errorf("out  %s\nwant %s", words(out0), words(want))
	}
	// The column-major copy: col0=(1,3) @40, col1=(2,4) @56.
	for off, v := range map[int]uint32{40: f(1), 44: f(3), 56: f(2), 60: f(4), 48: 0, 52: 0, 84: 7, 72: 0} {
		if got := binary.LittleEndian.Uint32(s[off:]); got != v {
			t.Errorf("s[%d] = %#x want %#x", off, got, v)
		}
	}
	// (100-72)/12 = 2 elements: index 2 must trap.
	bad := strings.Replace(text, "%qr = OpAccessChain %p_u32 %sbuf %c3 %c1", "%qr = OpAccessChain %p_u32 %sbuf %c3 %c2", 1)
	bin2, err := assemble(bad, 0x00010300)
	if err != nil {
		t.Fatal(err)
	}
	res = Run(bin2, xrt.Input{Entry: "main", Buffers: map[string][]byte{"0.0": make([]byte, 32), "2.5": s}})
	if !strings.Contains(res.Trap, "index 2 of 2 into runtime array") {
		t.Errorf("runtime array with odd stride: %+v", res)
	}
	// Missing decorations are a Skip with a precise reason, never a guess.
	for _, drop := range []struct{ line, want string }{
		{"OpMemberDecorate %sblk 1 Offset 20\n", "has no Offset decoration"},
		{"OpDecorate %odd ArrayStride 12\n", "has no ArrayStride decoration"},
		{"OpMemberDecorate %sblk 1 MatrixStride 8\n", "has no MatrixStride decoration"},
		{"OpMemberDecorate %sblk 1 RowMajor\n", "exactly one of ColMajor / RowMajor"},
		{"OpDecorate %sbuf Binding 5\n", "lacks DescriptorSet/Binding"},
	} {
		b, err := assemble(strings.Replace(text, drop.line, "", 1), 0x00010300)
		if err != nil {
			t.Fatal(err)
		}
		res := Run(b, xrt.Input{Entry: "main", Buffers: map[string][]byte{"0.0": make([]byte, 32), "2.5": make([]byte, 100)}})
		if !strings.Contains(res.Skip, drop.want) {
			t.Errorf("without %q: %+v", strings.TrimSpace(drop.line), res)
		}
	}
}

func TestReadOnlyStorage(t *testing.T) {
	// NonWritable storage buffer and Uniform Block must not be stored to;
	// Uniform + BufferBlock (pre-1.3 storage buffer) may.
	mk := func(extraDecor, class string) string {
		return strings.NewReplacer("CLASS", class).Replace(`
OpDecorate %ublk ` + extraDecor + `
OpMemberDecorate %ublk 0 Offset 0
OpDecorate %ubuf DescriptorSet 1
OpDecorate %ubuf Binding 0
%ublk = OpTypeStruct %u32
%p_ublk = OpTypePointer CLASS %ublk
%p_uu32 = OpTypePointer CLASS %u32
%ubuf = OpVariable %p_ublk CLASS
`)
	}
	body := "%q = OpAccessChain %p_uu32 %ubuf %c0\n%v = OpLoad %u32 %q\n%w = OpIAdd %u32 %v %c1\nOpStore %q %w\nOpReturn\n"
	run := func(decls string) (xrt.Outcome, []byte) {
		bin, err := assemble(trapPrelude+decls+trapMain+body+"OpFunctionEnd\n", 0x00010000)
		if err != nil {
			t.Fatal(err)
		}
		b := u32s(41)
		return Run(bin, xrt.Input{Entry: "main", Buffers: map[string][]byte{"1.0": b}}), b
	}
	if out, _ := run(mk("Block", "Uniform")); !strings.Contains(out.Trap, "Uniform Block storage is read-only") {
		t.Errorf("store to uniform block: %+v", out)
	}
	if out, b := run(mk("BufferBlock", "Uniform")); !out.OK() || binary.LittleEndian.Uint32(b) != 42 {
		t.Errorf("store to Uniform+BufferBlock: %+v %v", out, b)
	}
	if out, b := run(mk("Block", "StorageBuffer")); !out.OK() || binary.LittleEndian.Uint32(b) != 42 {
		t.Errorf("store to StorageBuffer: %+v %v", out, b)
	}
	if out, _ := run(mk("Block", "StorageBuffer") + "OpDecorate %ubuf NonWritable\n"); !strings.Contains(out.Trap, "NonWritable") {
		t.Errorf("store to NonWritable: %+v", out)
	}
}

func TestWideAndNarrowIntegers(t *testing.T) {
	decls := `
OpCapability Int64
OpCapability Int16
%u64 = OpTypeInt 64 0
%i64 = OpTypeInt 64 1
%u16 = OpTypeInt 16 0
%i16 = OpTypeInt 16 1
%big = OpConstant %u64 0xfffffffffffffffe
%three64 = OpConstant %u64 3
%m2_16 = OpConstant %i16 -2
`
	body := `
%s = OpIAdd %u64 %big %three64
%v = OpBitcast %v2u %s
%lo = OpCompositeExtract %u32 %v 0
%hi = OpCompositeExtract %u32 %v 1
` + st(0, "lo") + st(1, "hi") + `
%wide = OpSConvert %i32 %m2_16
` + stAs(2, "wide") + `
%u16v = OpBitcast %u16 %m2_16
%zext = OpUConvert %u32 %u16v
` + st(3, "zext") + `
%sh = OpShiftRightLogical %u64 %big %c32
%shl = OpUConvert %u32 %sh
` + st(4, "shl") + "OpReturn\n"
	runAsmCase(t, asmCase{name: "wide", decls: decls, body: body, in: []uint32{0, 0, 0, 0, 0},
		want: map[int]uint32{0: 1, 1: 0, 2: 0xfffffffe, 3: 0xfffe, 4: 0xffffffff}})
	runAsmCase(t, asmCase{name: "shift64-by-64", decls: decls + "%c64 = OpConstant %u32 64\n", body: "%sh = OpShiftLeftLogical %u64 %big %c64\nOpReturn\n", in: []uint32{0}, trap: "shift count 64 >= bit width 64"})
}

func TestQuantizeAndHalf(t *testing.T) {
	for _, c := range []asmCase{
		{name: "quantize-0.1", body: conv("OpQuantizeToF16", "f32", "f32"), in: []uint32{0x3dcccccd, 0, 0}, want: map[int]uint32{2: 0x3dccc000}},
		{name: "quantize-tiny", body: conv("OpQuantizeToF16", "f32", "f32"), in: []uint32{0xb58637bd /* -1e-6 */, 0, 0}, want: map[int]uint32{2: 0x80000000}},
		{name: "quantize-huge", body: conv("OpQuantizeToF16", "f32", "f32"), in: []uint32{0x47888000 /* 69888 */, 0, 0}, want: map[int]uint32{2: fInf}},
		{name: "quantize-65504", body: conv("OpQuantizeToF16", "f32", "f32"), in: []uint32{0x477fe000, 0, 0}, want: map[int]uint32{2: 0x477fe000}},
	} {
		runAsmCase(t, c)
	}
	// binary16 conversions against known encodings.
	for _, c := range []struct {
		f float64
		h uint16
	}{{1, 0x3c00}, {-2, 0xc000}, {65504, 0x7bff}, {65520, 0x7c00}, {0.5, 0x3800}, {5.960464477539063e-08, 0x0001},
		{2.980232238769531e-08, 0x0000}, {8.940696716308594e-08, 0x0002}, {6.103515625e-05, 0x0400}, {1.0009765625, 0x3c01},
		{1.00048828125, 0x3c00}, {1.00146484375, 0x3c02}} {
		if got := f64ToF16(c.f); got != c.h {
			t.Errorf("f64ToF16(%v) = %#04x, want %#04x", c.f, got, c.h)
		}
	}
	for h := 0; h < 0x10000; h++ {
		f := f16ToF64(uint16(h))
		if f != f {
			continue
		}
		if got := f64ToF16(f); got != uint16(h) {
			t.Fatalf("f16 round trip %#04x -> %v -> %#04x", h, f, got)
		}
	}
}

func TestFmaSingleRounding(t *testing.T) {
	p := func(e int) float64 { return math.Ldexp(1, e) }
	// (1+2^-12)^2 - (1+2^-11) = 2^-24 exactly; rounding the product first gives 0.
	a := 1 + p(-12)
	if got := fmaRound(a, a, -(1 + p(-11)), 32); got != p(-24) {
		t.Errorf("fma = %v want %v", got, p(-24))
	}
	// (1+2^-23)*1.5 = 1.5 + 1.5*2^-23 is a binary32 tie; the tiny negative
	// addend is lost in float64, so only round-to-odd resolves the tie
	// correctly (down to 1.5 + 2^-23; naive double rounding gives 1.5 + 2^-22).
	if got := fmaRound(1+p(-23), 1.5, -p(-100), 32); got != 1.5+p(-23) {
		t.Errorf("fma tie = %v want %v", got, 1.5+p(-23))
	}
	if got := fmaRound(1+p(-23), 1.5, p(-100), 32); got != 1.5+p(-22) {
		t.Errorf("fma tie up = %v want %v", got, 1.5+p(-22))
	}
	if got := fmaRound(2, 3, 4, 32); got != 10 {
		t.Errorf("fma(2,3,4) = %v", got)
	}
}
