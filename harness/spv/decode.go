package spv

import (
	"encoding/binary"
	"fmt"
)

// Inst is one decoded instruction.
type Inst struct {
	Op     uint16
	Words  []uint32 // all words including the first (wordcount<<16 | opcode)
	Offset int      // word offset of the first word in the binary (header is words 0..4)
}

// TypeKind classifies an OpType* declaration.
type TypeKind uint8

// Type kinds.
const (
	KindVoid TypeKind = iota + 1
	KindBool
	KindInt
	KindFloat
	KindVector
	KindMatrix
	KindArray
	KindRuntimeArray
	KindStruct
	KindPointer
	KindFunction
	KindImage
	KindSampler
	KindSampledImage
	KindOther // any other OpType* (acceleration structure, ray query, opaque ...)
)

func (k TypeKind) String() string {
	switch k {
	case KindVoid:
		return "void"
	case KindBool:
		return "bool"
	case KindInt:
		return "int"
	case KindFloat:
		return "float"
	case KindVector:
		return "vector"
	case KindMatrix:
		return "matrix"
	case KindArray:
		return "array"
	case KindRuntimeArray:
		return "runtime_array"
	case KindStruct:
		return "struct"
	case KindPointer:
		return "pointer"
	case KindFunction:
		return "function"
	case KindImage:
		return "image"
	case KindSampler:
		return "sampler"
	case KindSampledImage:
		return "sampled_image"
	case KindOther:
		return "other"
	}
	return "?"
}

// Type is one OpType* declaration.
type Type struct {
	ID      uint32
	Kind    TypeKind
	Op      uint16   // the declaring opcode
	Width   int      // KindInt / KindFloat: bit width
	Signed  bool     // KindInt: signedness operand
	Elem    uint32   // vector component / matrix column / array element / pointer pointee / sampled-image image type id
	Count   int      // vector components, matrix columns, array length (-1 when the length constant has no usable value)
	LenID   uint32   // KindArray: id of the length constant
	Members []uint32 // KindStruct: member type ids
	Storage uint32   // KindPointer: storage class
	Ret     uint32   // KindFunction: return type id
	Params  []uint32 // KindFunction: parameter type ids
}

// Decoration is one OpDecorate / OpMemberDecorate (also the Id and String forms).
type Decoration struct {
	Kind     uint32
	Operands []uint32 // literal words (ids for OpDecorateId)
}

// Variable is one OpVariable.
type Variable struct {
	ID      uint32
	PtrType uint32 // result type (an OpTypePointer)
	Storage uint32
	Init    uint32 // initializer id or 0
	Inst    int    // index into Module.Insts
}

// Block is one basic block of a function body.
type Block struct {
	Label uint32
	First int // index into Module.Insts of the OpLabel
	End   int // index one past the block's terminator
}

// Function is one OpFunction ... OpFunctionEnd.
type Function struct {
	ID         uint32
	ResultType uint32
	Control    uint32
	FuncType   uint32
	Params     []uint32 // result ids of the OpFunctionParameter instructions
	Blocks     []*Block
	blockIndex map[uint32]int
	First      int // index into Module.Insts of the OpFunction
}

// EntryPoint is one OpEntryPoint with the execution modes that target it.
type EntryPoint struct {
	Model     uint32
	Func      uint32
	Name      string
	Interface []uint32
	Modes     []ExecMode
}

// ExecMode is one OpExecutionMode / OpExecutionModeId.
type ExecMode struct {
	Mode     uint32
	Operands []uint32
	IsID     bool // operands are ids (OpExecutionModeId)
}

// Module is a decoded SPIR-V module.
type Module struct {
	Version   uint32 // header word 1: 0x00MMmm00
	Generator uint32
	Bound     uint32
	Schema    uint32
	Insts     []Inst // every instruction in stream order

	Capabilities []uint32
	Extensions   []string
	ExtImports   map[uint32]string // result id of OpExtInstImport -> set name
	AddrModel    uint32
	MemModel     uint32
	EntryPoints  []*EntryPoint

	Names             map[uint32]string
	MemberNames       map[uint32]map[uint32]string
	Decorations       map[uint32][]Decoration
	MemberDecorations map[uint32]map[uint32][]Decoration

	Types     map[uint32]*Type
	TypeOf    []uint32 // result id -> result type id (0 when the id has no type)
	DefInst   []int    // result id -> index into Insts of its definition, -1 when undefined
	Globals   []*Variable
	Functions []*Function
	funcByID  map[uint32]*Function

	constVals  []Value  // id -> value of module-scope constants / OpUndef (K == 0: none)
	constIssue []string // id -> why a module-scope constant has no value
}

// Major and Minor return the SPIR-V version from the header.
func (m *Module) Major() int { return int(m.Version>>16) & 0xff }

// Minor returns the minor version number.
func (m *Module) Minor() int { return int(m.Version>>8) & 0xff }

const magic = 0x07230203

// Decode parses a SPIR-V binary (a little-endian word stream) and builds the
// indexes.  It fails only on structural damage (bad magic, truncated
// instruction, id out of bound, duplicate definition, function structure);
// unsupported opcodes and types are kept and reported by Run as Skip.
func Decode(bin []byte) (m *Module, err error) {
	defer func() {
		if r := recover(); r != nil {
			m, err = nil, fmt.Errorf("spv: internal decoder error: %v", r)
		}
	}()
	if len(bin)%4 != 0 {
		return nil, fmt.Errorf("spv: length %d is not a multiple of 4", len(bin))
	}
	if len(bin) < 20 {
		return nil, fmt.Errorf("spv: %d bytes is too short for a header", len(bin))
	}
	words := make([]uint32, len(bin)/4)
	for i := range words {
		words[i] = binary.LittleEndian.Uint32(bin[4*i:])
	}
	if words[0] != magic {
		if words[0] == 0x03022307 {
			return nil, fmt.Errorf("spv: big-endian module not supported")
		}
		return nil, fmt.Errorf("spv: bad magic %#08x", words[0])
	}
	m = &Module{
		Version: words[1], Generator: words[2], Bound: words[3], Schema: words[4],
		ExtImports:        map[uint32]string{},
		Names:             map[uint32]string{},
		MemberNames:       map[uint32]map[uint32]string{},
		Decorations:       map[uint32][]Decoration{},
		MemberDecorations: map[uint32]map[uint32][]Decoration{},
		Types:             map[uint32]*Type{},
		funcByID:          map[uint32]*Function{},
	}
	if m.Version&0xff0000ff != 0 || m.Major() != 1 || m.Minor() > 6 {
		return nil, fmt.Errorf("spv: unsupported version word %#08x", m.Version)
	}
	if m.Bound == 0 || m.Bound > 1<<20 {
		return nil, fmt.Errorf("spv: unreasonable id bound %d", m.Bound)
	}
	for p := 5; p < len(words); {
		wc := int(words[p] >> 16)
		if wc == 0 {
			return nil, fmt.Errorf("spv: zero word count at word %d", p)
		}
		if p+wc > len(words) {
			return nil, fmt.Errorf("spv: instruction at word %d (%s, %d words) runs past the end", p, OpName(uint16(words[p])), wc)
		}
		m.Insts = append(m.Insts, Inst{Op: uint16(words[p]), Words: words[p : p+wc : p+wc], Offset: p})
		p += wc
	}
	m.TypeOf = make([]uint32, m.Bound)
	m.DefInst = make([]int, m.Bound)
	for i := range m.DefInst {
		m.DefInst[i] = -1
	}
	m.constVals = make([]Value, m.Bound)
	m.constIssue = make([]string, m.Bound)

	// Pass 1: result ids.
	for idx := range m.Insts {
		in := &m.Insts[idx]
		tw, rw, _ := resultLayout(in.Op)
		if rw != 0 {
			if rw >= len(in.Words) || (tw != 0 && tw >= len(in.Words)) {
				return nil, fmt.Errorf("spv: %s at word %d is too short", OpName(in.Op), in.Offset)
			}
			id := in.Words[rw]
			if id == 0 || id >= m.Bound {
				return nil, fmt.Errorf("spv: %s at word %d defines id %d outside bound %d", OpName(in.Op), in.Offset, id, m.Bound)
			}
			if m.DefInst[id] >= 0 {
				return nil, fmt.Errorf("spv: id %d defined twice (words %d and %d)", id, m.Insts[m.DefInst[id]].Offset, in.Offset)
			}
			m.DefInst[id] = idx
			if tw != 0 {
				m.TypeOf[id] = in.Words[tw]
			}
		}
	}

	// Pass 2: module-level indexes in stream order.
	var fn *Function
	var blk *Block
	need := func(in *Inst, n int) error {
		if len(in.Words) < n {
			return fmt.Errorf("spv: %s at word %d has %d words, needs %d", OpName(in.Op), in.Offset, len(in.Words), n)
		}
		return nil
	}
	for idx := range m.Insts {
		in := &m.Insts[idx]
		w := in.Words
		if fn != nil {
			// Inside a function body.
			switch in.Op {
			case opFunctionParameter:
				if len(fn.Blocks) != 0 {
					return nil, fmt.Errorf("spv: OpFunctionParameter after first block at word %d", in.Offset)
				}
				fn.Params = append(fn.Params, w[2])
			case opLabel:
				if blk != nil {
					return nil, fmt.Errorf("spv: OpLabel inside unterminated block at word %d", in.Offset)
				}
				blk = &Block{Label: w[1], First: idx}
				if _, dup := fn.blockIndex[w[1]]; dup {
					return nil, fmt.Errorf("spv: duplicate label %d", w[1])
				}
				fn.blockIndex[w[1]] = len(fn.Blocks)
				fn.Blocks = append(fn.Blocks, blk)
			case opFunctionEnd:
				if blk != nil {
					return nil, fmt.Errorf("spv: OpFunctionEnd inside unterminated block at word %d", in.Offset)
				}
				fn = nil
			case opFunction:
				return nil, fmt.Errorf("spv: nested OpFunction at word %d", in.Offset)
			case opBranch, opBranchConditional, opSwitch, opKill, opReturn, opReturnValue, opUnreachable, opTerminateInvocation:
				if blk == nil {
					return nil, fmt.Errorf("spv: terminator outside block at word %d", in.Offset)
				}
				blk.End = idx + 1
				blk = nil
			case opLine, opNoLine:
			default:
				if blk == nil {
					return nil, fmt.Errorf("spv: %s outside a block at word %d", OpName(in.Op), in.Offset)
				}
			}
			continue
		}
		switch in.Op {
		case opCapability:
			if err := need(in, 2); err != nil {
				return nil, err
			}
			m.Capabilities = append(m.Capabilities, w[1])
		case opExtension:
			s, _ := decodeString(w[1:])
			m.Extensions = append(m.Extensions, s)
		case opExtInstImport:
			s, _ := decodeString(w[2:])
			m.ExtImports[w[1]] = s
		case opMemoryModel:
			if err := need(in, 3); err != nil {
				return nil, err
			}
			m.AddrModel, m.MemModel = w[1], w[2]
		case opEntryPoint:
			if err := need(in, 4); err != nil {
				return nil, err
			}
			s, n := decodeString(w[3:])
			ep := &EntryPoint{Model: w[1], Func: w[2], Name: s}
			ep.Interface = append(ep.Interface, w[3+n:]...)
			m.EntryPoints = append(m.EntryPoints, ep)
		case opExecutionMode, opExecutionModeId:
			if err := need(in, 3); err != nil {
				return nil, err
			}
			for _, ep := range m.EntryPoints {
				if ep.Func == w[1] {
					ep.Modes = append(ep.Modes, ExecMode{Mode: w[2], Operands: w[3:], IsID: in.Op == opExecutionModeId})
				}
			}
		case opName:
			if err := need(in, 3); err != nil {
				return nil, err
			}
			s, _ := decodeString(w[2:])
			m.Names[w[1]] = s
		case opMemberName:
			if err := need(in, 4); err != nil {
				return nil, err
			}
			s, _ := decodeString(w[3:])
			if m.MemberNames[w[1]] == nil {
				m.MemberNames[w[1]] = map[uint32]string{}
			}
			m.MemberNames[w[1]][w[2]] = s
		case opDecorate, opDecorateId, opDecorateString:
			if err := need(in, 3); err != nil {
				return nil, err
			}
			m.Decorations[w[1]] = append(m.Decorations[w[1]], Decoration{Kind: w[2], Operands: w[3:]})
		case opMemberDecorate, opMemberDecorateString:
			if err := need(in, 4); err != nil {
				return nil, err
			}
			if m.MemberDecorations[w[1]] == nil {
				m.MemberDecorations[w[1]] = map[uint32][]Decoration{}
			}
			m.MemberDecorations[w[1]][w[2]] = append(m.MemberDecorations[w[1]][w[2]], Decoration{Kind: w[3], Operands: w[4:]})
		case opDecorationGroup, opGroupDecorate, opGroupMemberDecorate:
			// Deprecated decoration groups: apply them by copying.
			if in.Op == opGroupDecorate {
				for _, tgt := range w[2:] {
					m.Decorations[tgt] = append(m.Decorations[tgt], m.Decorations[w[1]]...)
				}
			} else if in.Op == opGroupMemberDecorate {
				for k := 2; k+1 < len(w); k += 2 {
					if m.MemberDecorations[w[k]] == nil {
						m.MemberDecorations[w[k]] = map[uint32][]Decoration{}
					}
					m.MemberDecorations[w[k]][w[k+1]] = append(m.MemberDecorations[w[k]][w[k+1]], m.Decorations[w[1]]...)
				}
			}
		case opTypeVoid, opTypeBool, opTypeInt, opTypeFloat, opTypeVector, opTypeMatrix, opTypeImage, opTypeSampler,
			opTypeSampledImage, opTypeArray, opTypeRuntimeArray, opTypeStruct, opTypeOpaque, opTypePointer, opTypeFunction,
			4472, 5341, 34, 35, 36, 37, 38:
			if err := m.declType(in); err != nil {
				return nil, err
			}
		case opConstantTrue, opConstantFalse, opConstant, opConstantComposite, opConstantNull, opConstantSampler,
			opSpecConstantTrue, opSpecConstantFalse, opSpecConstant, opSpecConstantComposite, opSpecConstantOp, opUndef:
			m.declConst(in)
		case opVariable:
			if err := need(in, 4); err != nil {
				return nil, err
			}
			v := &Variable{ID: w[2], PtrType: w[1], Storage: w[3], Inst: idx}
			if len(w) > 4 {
				v.Init = w[4]
			}
			m.Globals = append(m.Globals, v)
		case opFunction:
			if err := need(in, 5); err != nil {
				return nil, err
			}
			fn = &Function{ID: w[2], ResultType: w[1], Control: w[3], FuncType: w[4], blockIndex: map[uint32]int{}, First: idx}
			m.Functions = append(m.Functions, fn)
			m.funcByID[fn.ID] = fn
		case opFunctionEnd, opLabel:
			return nil, fmt.Errorf("spv: %s outside a function at word %d", OpName(in.Op), in.Offset)
		}
	}
	if fn != nil {
		return nil, fmt.Errorf("spv: missing OpFunctionEnd")
	}
	return m, nil
}

// decodeString decodes a nul-terminated UTF-8 literal string packed into
// little-endian words and returns it with the number of words consumed.
func decodeString(w []uint32) (string, int) {
	var b []byte
	for i, x := range w {
		for k := 0; k < 4; k++ {
			c := byte(x >> (8 * k))
			if c == 0 {
				return string(b), i + 1
			}
			b = append(b, c)
		}
	}
	return string(b), len(w)
}

func (m *Module) declType(in *Inst) error {
	w := in.Words
	t := &Type{ID: w[1], Op: in.Op}
	short := func(n int) error {
		if len(w) < n {
			return fmt.Errorf("spv: %s at word %d has %d words, needs %d", OpName(in.Op), in.Offset, len(w), n)
		}
		return nil
	}
	switch in.Op {
	case opTypeVoid:
		t.Kind = KindVoid
	case opTypeBool:
		t.Kind = KindBool
		t.Width = 1
	case opTypeInt:
		if err := short(4); err != nil {
			return err
		}
		t.Kind, t.Width, t.Signed = KindInt, int(w[2]), w[3] != 0
	case opTypeFloat:
		if err := short(3); err != nil {
			return err
		}
		t.Kind, t.Width = KindFloat, int(w[2])
		if len(w) > 3 {
			// An explicit FP encoding (bfloat16, fp8 ...) is not IEEE: keep the
			// type but make it unusable.
			t.Kind = KindOther
		}
	case opTypeVector:
		if err := short(4); err != nil {
			return err
		}
		t.Kind, t.Elem, t.Count = KindVector, w[2], int(w[3])
		if w[3] < 2 || w[3] > 16 {
			t.Kind = KindOther // not a legal vector size
		}
	case opTypeMatrix:
		if err := short(4); err != nil {
			return err
		}
		t.Kind, t.Elem, t.Count = KindMatrix, w[2], int(w[3])
		if w[3] < 2 || w[3] > 4 {
			t.Kind = KindOther // not a legal column count
		}
	case opTypeArray:
		if err := short(4); err != nil {
			return err
		}
		t.Kind, t.Elem, t.LenID, t.Count = KindArray, w[2], w[3], -1
		if w[3] < m.Bound {
			if lt := m.Types[m.TypeOf[w[3]]]; lt != nil && lt.Kind == KindInt {
				if c := m.constVals[w[3]]; c.K == kScalar && !c.Undef && c.Bits < 1<<31 {
					t.Count = int(c.Bits)
				}
			}
		}
	case opTypeRuntimeArray:
		if err := short(3); err != nil {
			return err
		}
		t.Kind, t.Elem = KindRuntimeArray, w[2]
	case opTypeStruct:
		t.Kind = KindStruct
		t.Members = append(t.Members, w[2:]...)
	case opTypePointer:
		if err := short(4); err != nil {
			return err
		}
		t.Kind, t.Storage, t.Elem = KindPointer, w[2], w[3]
	case opTypeFunction:
		if err := short(3); err != nil {
			return err
		}
		t.Kind, t.Ret = KindFunction, w[2]
		t.Params = append(t.Params, w[3:]...)
	case opTypeImage:
		t.Kind = KindImage
		if len(w) > 2 {
			t.Elem = w[2]
		}
	case opTypeSampler:
		t.Kind = KindSampler
	case opTypeSampledImage:
		t.Kind = KindSampledImage
		if len(w) > 2 {
			t.Elem = w[2]
		}
	default:
		t.Kind = KindOther
	}
	m.Types[t.ID] = t
	return nil
}

// T returns the type with the given id or nil.
func (m *Module) T(id uint32) *Type { return m.Types[id] }

// scalarOf returns the scalar component type of a scalar, vector or matrix type.
func (m *Module) scalarOf(t *Type) *Type {
	for t != nil && (t.Kind == KindVector || t.Kind == KindMatrix) {
		t = m.Types[t.Elem]
	}
	return t
}

// declConst evaluates one module-scope constant instruction; a constant that
// cannot be evaluated is recorded in constIssue and reported when used.
func (m *Module) declConst(in *Inst) {
	w := in.Words
	if len(w) < 3 {
		return
	}
	id := w[2]
	t := m.Types[w[1]]
	fail := func(f string, a ...any) { m.constIssue[id] = fmt.Sprintf(f, a...) }
	if t == nil {
		fail("constant %%%d has undeclared type %%%d", id, w[1])
		return
	}
	switch in.Op {
	case opConstantTrue, opSpecConstantTrue:
		m.constVals[id] = scalar(1)
	case opConstantFalse, opSpecConstantFalse:
		m.constVals[id] = scalar(0)
	case opConstant, opSpecConstant:
		if (t.Kind != KindInt && t.Kind != KindFloat) || len(w) < 4 {
			fail("OpConstant %%%d of non-numeric type", id)
			return
		}
		bits := uint64(w[3])
		if t.Width > 32 {
			if len(w) < 5 {
				fail("OpConstant %%%d: missing high word", id)
				return
			}
			bits |= uint64(w[4]) << 32
		}
		// Narrow literals are stored sign- or zero-extended in the word: keep
		// only the low Width bits.
		m.constVals[id] = scalar(bits & widthMask(t.Width))
	case opConstantNull:
		v, err := m.zeroValue(t)
		if err != "" {
			fail("OpConstantNull %%%d: %s", id, err)
			return
		}
		m.constVals[id] = v
	case opUndef:
		v, err := m.undefValue(t)
		if err != "" {
			fail("OpUndef %%%d: %s", id, err)
			return
		}
		m.constVals[id] = v
	case opConstantComposite, opSpecConstantComposite:
		elems := make([]Value, 0, len(w)-3)
		for _, c := range w[3:] {
			if c >= m.Bound || m.constVals[c].K == 0 {
				fail("constant composite %%%d uses %%%d which has no value", id, c)
				return
			}
			elems = append(elems, m.constVals[c])
		}
		m.constVals[id] = Value{K: kComposite, Elems: elems}
	case opSpecConstantOp:
		if len(w) < 4 {
			fail("short OpSpecConstantOp")
			return
		}
		// Re-shape into the ordinary instruction and evaluate it with the
		// executor's pure-operation evaluator over the constants seen so far.
		words := make([]uint32, 0, len(w)-1)
		words = append(words, uint32(len(w)-1)<<16|w[3]&0xffff, w[1], w[2])
		words = append(words, w[4:]...)
		syn := Inst{Op: uint16(w[3]), Words: words, Offset: in.Offset}
		x := &exec{m: m, vals: m.constVals}
		func() {
			defer func() {
				if r := recover(); r != nil {
					m.constVals[id] = Value{}
					fail("OpSpecConstantOp %s %%%d: %v", OpName(syn.Op), id, r)
				}
			}()
			if !x.pure(&syn) {
				fail("OpSpecConstantOp %%%d: opcode %s not allowed", id, OpName(syn.Op))
			}
		}()
	default:
		fail("%s %%%d not supported", OpName(in.Op), id)
	}
}

// hasDecoration finds a decoration on an id.
func (m *Module) decoration(id, kind uint32) (Decoration, bool) {
	for _, d := range m.Decorations[id] {
		if d.Kind == kind {
			return d, true
		}
	}
	return Decoration{}, false
}

func (m *Module) memberDecoration(id, member, kind uint32) (Decoration, bool) {
	for _, d := range m.MemberDecorations[id][member] {
		if d.Kind == kind {
			return d, true
		}
	}
	return Decoration{}, false
}

// decorationWord returns the first literal operand of a decoration.
func (m *Module) decorationWord(id, kind uint32) (uint32, bool) {
	d, ok := m.decoration(id, kind)
	if !ok || len(d.Operands) == 0 {
		return 0, false
	}
	return d.Operands[0], true
}

func (m *Module) memberDecorationWord(id, member, kind uint32) (uint32, bool) {
	d, ok := m.memberDecoration(id, member, kind)
	if !ok || len(d.Operands) == 0 {
		return 0, false
	}
	return d.Operands[0], true
}

// Name returns the debug name of an id ("" when the module has none).
func (m *Module) Name(id uint32) string { return m.Names[id] }

// FindEntryPoint returns the entry point with the given name and execution model.
func (m *Module) FindEntryPoint(name string, model uint32) *EntryPoint {
	for _, ep := range m.EntryPoints {
		if ep.Name == name && ep.Model == model {
			return ep
		}
	}
	return nil
}
