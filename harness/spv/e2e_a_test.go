package spv

import (
	"testing"
)

// Every expectation in the e2e tests is computed by hand from WGSL semantics.

const hdrOA = `
@group(0) @binding(0) var<storage, read_write> o: array<u32>;
@group(0) @binding(1) var<storage, read> a: array<i32>;
@group(0) @binding(2) var<storage, read> b: array<u32>;
@group(0) @binding(3) var<storage, read> f: array<f32>;
`

const iMin = -2147483648

func TestE2E01IntWrap(t *testing.T) {
	src := hdrOA + `
@compute @workgroup_size(1) fn main() {
  let x = a[0]; let y = a[1];
  o[0] = bitcast<u32>(x + 1);
  o[1] = bitcast<u32>(y - 1);
  o[2] = bitcast<u32>(x * 2);
  o[3] = bitcast<u32>(-y);
  o[4] = 0xffffffffu + bitcast<u32>(a[2]);
  o[5] = bitcast<u32>(a[3]) - 1u;
  o[6] = bitcast<u32>(a[4]) * 0x10000u;
  o[7] = bitcast<u32>(a[5] * a[5]);
}`
	e2e(t, src, "main",
		map[string][]byte{"0.0": zeros(32), "0.1": i32s(0x7fffffff, iMin, 2, 0, 0x10000, -3)},
		map[string][]byte{"0.0": u32s(0x80000000, 0x7fffffff, 0xfffffffe, 0x80000000, 1, 0xffffffff, 0, 9)})
}

func TestE2E02DivMod(t *testing.T) {
	src := hdrOA + `
@compute @workgroup_size(1) fn main() {
  o[0] = bitcast<u32>(a[0] / a[1]);
  o[1] = bitcast<u32>(a[0] % a[1]);
  o[2] = bitcast<u32>(a[2] / a[3]);
  o[3] = bitcast<u32>(a[2] % a[3]);
  o[4] = bitcast<u32>(a[0] / a[4]);
  o[5] = bitcast<u32>(a[0] % a[4]);
  o[6] = bitcast<u32>(a[5] / a[6]);
  o[7] = bitcast<u32>(a[5] % a[6]);
  o[8] = b[0] / b[1];
  o[9] = b[0] % b[1];
  o[10] = b[0] / b[2];
  o[11] = b[0] % b[2];
  o[12] = b[3] / b[1];
  o[13] = b[3] % b[0];
  let v = vec2<i32>(a[0], a[2]) / vec2<i32>(a[1], a[4]);
  o[14] = bitcast<u32>(v.x);
  o[15] = bitcast<u32>(v.y);
}`
	// -7/2=-3 -7%2=-1 7/-2=-3 7%-2=1 x/0=x x%0=0 MIN/-1=MIN MIN%-1=0
	// 7/2=3 7%2=1 7/0=7 7%0=0 0xffffffff/2=0x7fffffff 0xffffffff%7=3 (7*613566756=4294967292)
	e2e(t, src, "main",
		map[string][]byte{"0.0": zeros(64), "0.1": i32s(-7, 2, 7, -2, 0, iMin, -1), "0.2": u32s(7, 2, 0, 0xffffffff)},
		map[string][]byte{"0.0": u32s(0xfffffffd, 0xffffffff, 0xfffffffd, 1, 0xfffffff9, 0, 0x80000000, 0,
			3, 1, 7, 0, 0x7fffffff, 3, 0xfffffffd, 7)})
}

func TestE2E03Shifts(t *testing.T) {
	src := hdrOA + `
@compute @workgroup_size(1) fn main() {
  o[0] = b[0] << b[1];
  o[1] = b[2] >> b[1];
  o[2] = bitcast<u32>(bitcast<i32>(b[3]) >> b[4]);
  o[3] = bitcast<u32>(bitcast<i32>(b[2]) >> b[1]);
  o[4] = bitcast<u32>(bitcast<i32>(b[0]) << b[1]);
  o[5] = b[3] >> b[5];
  o[6] = 1u << 31u;
  let v = vec2<u32>(b[0], b[3]) << vec2<u32>(b[5], b[4]);
  o[7] = v.x; o[8] = v.y;
}`
	e2e(t, src, "main",
		map[string][]byte{"0.0": zeros(36), "0.2": u32s(1, 31, 0x80000000, 0xfffffff8, 1, 4)},
		map[string][]byte{"0.0": u32s(0x80000000, 1, 0xfffffffc, 0xffffffff, 0x80000000, 0x0fffffff, 0x80000000, 16, 0xfffffff0)})
}

func TestE2E04Bitwise(t *testing.T) {
	src := hdrOA + `
@compute @workgroup_size(1) fn main() {
  let x = b[0]; let y = b[1];
  o[0] = x & y; o[1] = x | y; o[2] = x ^ y; o[3] = ~x;
  o[4] = bitcast<u32>(~bitcast<i32>(y));
  let v = vec2<u32>(x, y) & vec2<u32>(0xffffu, 0xffff0000u);
  o[5] = v.x; o[6] = v.y;
  let w = vec2<u32>(x, y) | vec2<u32>(1u);
  o[7] = w.y;
}`
	e2e(t, src, "main",
		map[string][]byte{"0.0": zeros(32), "0.2": u32s(0xf0f0f0f0, 0x0ff00ff0)},
		map[string][]byte{"0.0": u32s(0x00f000f0, 0xfff0fff0, 0xff00ff00, 0x0f0f0f0f, 0xf00ff00f, 0xf0f0, 0x0ff00000, 0x0ff00ff1)})
}

func TestE2E05CompareSelectLogic(t *testing.T) {
	src := hdrOA + `
@compute @workgroup_size(1) fn main() {
  let a0 = a[0]; let a1 = a[1]; let b0 = b[0]; let b1 = b[1];
  o[0] = select(0u, 1u, a0 < a1);
  o[1] = select(0u, 1u, b0 < b1);
  o[2] = u32(a0 <= a0);
  o[3] = u32(a0 >= a1);
  o[4] = u32(a0 != a1);
  o[5] = u32(a0 == a1);
  o[6] = u32(b0 > b1);
  o[7] = u32((a0 < a1) && (b0 < b1));
  o[8] = u32((a0 < a1) || (b0 < b1));
  o[9] = u32(!(a0 < a1));
  let t = a0 < a1; let g = b0 < b1;
  o[10] = u32(t & g); o[11] = u32(t | g); o[12] = u32(t != g);
  o[13] = select(7u, 9u, g);
  let sv = select(vec3<u32>(1u, 2u, 3u), vec3<u32>(4u, 5u, 6u), vec3<bool>(t, g, t));
  o[14] = sv.x * 100u + sv.y * 10u + sv.z;
  o[15] = 2u;
  let cv = vec3<i32>(a0, a1, a0) < vec3<i32>(0, 0, a1);
  o[16] = u32(cv.x) + 2u * u32(cv.y) + 4u * u32(cv.z);
  o[17] = u32(f[0] < f[1]) + 2u * u32(f[0] == f[0]) + 4u * u32(f[1] >= f[1]) + 8u * u32(f[1] != f[1]);
}`
	// a=(-1,1) b=(0xffffffff,1): t=true g=false.  sv=(4,2,6)=426.  cv=(true,false,true)=5.  f=(-0.5,2): 1+2+4=7.
	e2e(t, src, "main",
		map[string][]byte{"0.0": zeros(72), "0.1": i32s(-1, 1), "0.2": u32s(0xffffffff, 1), "0.3": f32s(-0.5, 2)},
		map[string][]byte{"0.0": u32s(1, 0, 1, 0, 1, 0, 1, 0, 1, 0, 0, 1, 1, 7, 426, 2, 5, 7)})
}

func TestE2E06ShortCircuit(t *testing.T) {
	src := hdrOA + `
var<private> cnt: u32;
fn bump(r: bool) -> bool { cnt = cnt + 1u; return r; }
@compute @workgroup_size(1) fn main() {
  cnt = b[0];
  let r1 = bump(false) && bump(true);
  o[0] = cnt;
  let r2 = bump(true) || bump(false);
  o[1] = cnt;
  let r3 = bump(true) && bump(false);
  o[2] = cnt;
  o[3] = u32(r1) + 2u * u32(r2) + 4u * u32(r3);
  if bump(false) || bump(true) { o[4] = cnt; } else { o[4] = 99u; }
}`
	e2e(t, src, "main",
		map[string][]byte{"0.0": zeros(20), "0.2": u32s(0)},
		map[string][]byte{"0.0": u32s(1, 2, 4, 2, 6)})
}

func TestE2E07FloatArith(t *testing.T) {
	src := hdrOA + `
@compute @workgroup_size(1) fn main() {
  o[0] = bitcast<u32>(f[0] + f[1]);
  o[1] = bitcast<u32>(f[0] - f[1]);
  o[2] = bitcast<u32>(f[0] * f[1]);
  o[3] = bitcast<u32>(f[2] / f[3]);
  o[4] = bitcast<u32>(f[4] % f[5]);
  o[5] = bitcast<u32>(f[5] % f[4]);
  o[6] = bitcast<u32>(-f[0]);
  o[7] = bitcast<u32>(f[1] / f[0]);
  let v = vec2<f32>(f[0], f[1]) * f[5] + vec2<f32>(f[2]);
  o[8] = bitcast<u32>(v.x); o[9] = bitcast<u32>(v.y);
  o[10] = bitcast<u32>(f[2] / f[7]);
  o[11] = bitcast<u32>(f[7] - f[7]);
}`
	// 1.5+2.25 1.5-2.25 1.5*2.25 1/3 5.5%2 2%5.5 -1.5 2.25/1.5 ; (1.5,2.25)*2+1=(4,5.5) ; 1/0=+inf ; 0-0=0
	e2e(t, src, "main",
		map[string][]byte{"0.0": zeros(48), "0.3": f32s(1.5, 2.25, 1, 3, 5.5, 2, -5.5, 0)},
		map[string][]byte{"0.0": cat(f32s(3.75, -0.75, 3.375), u32s(0x3eaaaaab), f32s(1.5, 2, -1.5, 1.5, 4, 5.5), u32s(0x7f800000, 0))})
}

func TestE2E08Conversions(t *testing.T) {
	src := hdrOA + `
@compute @workgroup_size(1) fn main() {
  o[0] = bitcast<u32>(i32(f[0]));
  o[1] = bitcast<u32>(i32(f[1]));
  o[2] = u32(f[0]);
  o[3] = u32(f[5]);
  o[4] = bitcast<u32>(f32(a[0]));
  o[5] = bitcast<u32>(f32(b[0]));
  o[6] = bitcast<u32>(f32(b[1]));
  o[7] = u32(bool(b[2]));
  o[8] = u32(bool(b[3]));
  o[9] = bitcast<u32>(f[0]);
  o[10] = u32(a[0]);
  o[11] = bitcast<u32>(i32(b[0]));
  o[12] = bitcast<u32>(bitcast<f32>(b[4]) * 2.0);
  let vi = vec2<i32>(vec2<f32>(f[0], f[1]));
  o[13] = bitcast<u32>(vi.x + vi.y);
  let vb = bitcast<vec2<u32>>(vec2<f32>(f[3], f[4]));
  o[14] = vb.x; o[15] = vb.y;
  o[16] = bitcast<u32>(f32(bool(b[3])));
  o[17] = bitcast<u32>(i32(bool(b[2])) - 1);
}`
	// 3.9 -> 3 ; -3.9 -> -3 ; u32(3.9)=3 ; u32(0.99)=0 ; f32(-5) ; f32(0xffffffff)=2^32 ; f32(16777217)=16777216 (ties to even)
	// 0x40490fdb (pi) * 2 = 0x40c90fdb ; vi = (3,-3) sum 0
	e2e(t, src, "main",
		map[string][]byte{"0.0": zeros(72), "0.1": i32s(-5), "0.2": u32s(0xffffffff, 16777217, 0, 3, 0x40490fdb), "0.3": f32s(3.9, -3.9, -1.5, 1, -2, 0.99)},
		map[string][]byte{"0.0": cat(u32s(3, 0xfffffffd, 3, 0), f32s(-5, 4294967296, 16777216), u32s(0, 1, 0x4079999a, 0xfffffffb, 0xffffffff, 0x40c90fdb, 0, 0x3f800000, 0xc0000000, 0x3f800000, 0xffffffff))})
}

func TestE2E09Vec3Padding(t *testing.T) {
	src := `
struct S { a: vec3<f32>, b: f32, c: vec3<u32>, d: array<vec3<u32>, 2> }
@group(0) @binding(0) var<storage, read_write> s: S;
@compute @workgroup_size(1) fn main() {
  s.a = vec3<f32>(1.0, 2.0, 3.0);
  s.c = vec3<u32>(7u, 8u, 9u);
  s.d[1] = vec3<u32>(4u, 5u, 6u);
  s.b = s.a.z + 1.0;
  s.d[0].y = s.c.z;
}`
	const P = 0xAAAAAAAA
	init := u32s(P, P, P, P, P, P, P, P, P, P, P, P, P, P, P, P)
	// a@0 b@12 c@16 (pad@28) d@32 stride 16 (pads @44, @60)
	want := cat(f32s(1, 2, 3, 4), u32s(7, 8, 9, P, P, 9, P, P, 4, 5, 6, P))
	e2e(t, src, "main", map[string][]byte{"0.0": init}, map[string][]byte{"0.0": want})
}

func TestE2E10MatrixStorage(t *testing.T) {
	src := `
struct M { m: mat2x3<f32>, n: mat3x2<f32> }
@group(0) @binding(0) var<storage, read_write> s: M;
@group(0) @binding(1) var<storage, read_write> o: array<f32>;
@compute @workgroup_size(1) fn main() {
  s.m[1] = vec3<f32>(4.0, 5.0, 6.0);
  s.m[0][2] = 3.0;
  s.n[2][1] = 9.0;
  o[0] = s.m[0][0];
  let mm = s.m;
  o[1] = mm[1].y;
  let v = s.m * vec2<f32>(1.0, 2.0);
  o[2] = v.x; o[3] = v.y; o[4] = v.z;
  let w = vec3<f32>(1.0, 1.0, 1.0) * s.m;
  o[5] = w.x; o[6] = w.y;
  let p = s.m * s.n;
  o[7] = p[2][2]; o[8] = p[1][0];
  let t = transpose(s.m);
  o[9] = t[2].x; o[10] = t[2].y;
}`
	const P = 0xAAAAAAAA
	// m: col0 @0 (1,2,0,pad) col1 @16 ; n @32: (1,2) (3,4) (5,6) ; pad @56..63
	init := cat(f32s(1, 2, 0), u32s(P), f32s(0, 0, 0), u32s(P), f32s(1, 2, 3, 4, 5, 6), u32s(P, P))
	wantS := cat(f32s(1, 2, 3), u32s(P), f32s(4, 5, 6), u32s(P), f32s(1, 2, 3, 4, 5, 9), u32s(P, P))
	// v = col0*1 + col1*2 = (9,12,15) ; w = (6,15) ; p col1 = m*(3,4) = (19,26,33) ; p col2 = m*(5,9) = (41,55,69)
	wantO := f32s(1, 5, 9, 12, 15, 6, 15, 69, 19, 3, 6)
	e2e(t, src, "main", map[string][]byte{"0.0": init, "0.1": zeros(44)}, map[string][]byte{"0.0": wantS, "0.1": wantO})
}

func TestE2E11MatrixOps(t *testing.T) {
	src := hdrOA + `
@compute @workgroup_size(1) fn main() {
  let m = mat2x2<f32>(f[0], f[1], f[2], f[3]);
  o[0] = bitcast<u32>(determinant(m));
  let d3 = mat3x3<f32>(f[1], 0.0, 0.0, 0.0, f[2], 0.0, 0.0, 0.0, f[3]);
  o[1] = bitcast<u32>(determinant(d3));
  let c = m * 2.0;
  o[2] = bitcast<u32>(c[1][0]);
  let e = m * m;
  o[3] = bitcast<u32>(e[0][1]);
  o[4] = bitcast<u32>(e[1][0]);
  let d4 = mat4x4<f32>(vec4<f32>(f[0], 0.0, 0.0, 0.0), vec4<f32>(0.0, f[1], 0.0, 0.0), vec4<f32>(0.0, 0.0, f[2], 0.0), vec4<f32>(5.0, 6.0, 7.0, f[3]));
  o[5] = bitcast<u32>(determinant(d4));
  let s = m + m;
  o[6] = bitcast<u32>(s[1][1]);
  let u = m - c;
  o[7] = bitcast<u32>(u[0][1]);
  let g3 = mat3x3<f32>(f[0], f[1], f[2], f[3], f[0], f[1], f[2], f[3], f[3]);
  o[8] = bitcast<u32>(determinant(g3));
}`
	// m cols (1,2),(3,4): det -2 ; diag(2,3,4) det 24 ; c[1][0]=6 ; e col0 = m*(1,2) = (7,10), col1 = m*(3,4) = (15,22)
	// d4 lower... columns: triangular with diag 1,2,3,4 -> 24 ; s[1][1]=8 ; u[0][1] = 2-4 = -2
	// g3 cols (1,2,3),(4,1,2),(3,4,4): det = 1*(1*4-4*2) - 4*(2*4-4*3) + 3*(2*2-1*3) = -4 + 16 + 3 = 15
	e2e(t, src, "main",
		map[string][]byte{"0.0": zeros(36), "0.3": f32s(1, 2, 3, 4)},
		map[string][]byte{"0.0": f32s(-2, 24, 6, 10, 15, 24, 8, -2, 15)})
}

func TestE2E12NestedStructs(t *testing.T) {
	src := `
struct Inner { a: u32, b: vec2<f32> }
struct Mid { x: f32, inner: Inner, y: u32 }
struct Outer { p: u32, mids: array<Mid, 2>, @size(16) q: u32, @align(16) r: u32, tail: Inner }
@group(0) @binding(0) var<storage, read_write> s: Outer;
@compute @workgroup_size(1) fn main() {
  s.mids[1].inner.b = vec2<f32>(1.0, 2.0);
  s.mids[0].inner.a = 5u;
  s.mids[1].y = 6u;
  s.q = 7u;
  s.r = 8u;
  s.tail.b.y = 3.0;
  s.p = s.mids[1].y + s.q + s.r;
  let m = s.mids[1];
  s.mids[0].x = m.inner.b.y;
}`
	// Inner: a@0 b@8 size 16 align 8.  Mid: x@0 inner@8 y@24 size 32.  Outer: p@0 mids@8 (stride 32) q@72 (size 16) r@96 tail@104, size 128.
	want := zeros(128)
	put := func(off int, b []byte) { copy(want[off:], b) }
	put(56, f32s(1, 2))
	put(16, u32s(5))
	put(64, u32s(6))
	put(72, u32s(7))
	put(96, u32s(8))
	put(116, f32s(3))
	put(0, u32s(21))
	put(8, f32s(2))
	e2e(t, src, "main", map[string][]byte{"0.0": zeros(128)}, map[string][]byte{"0.0": want})
}

func TestE2E13RuntimeArrays(t *testing.T) {
	src := `
struct Hdr { n: u32, items: array<vec2<u32>> }
@group(0) @binding(0) var<storage, read_write> h: Hdr;
@group(0) @binding(1) var<storage, read_write> whole: array<u32>;
@compute @workgroup_size(1) fn main() {
  let len = arrayLength(&h.items);
  let wl = arrayLength(&whole);
  h.n = len * 100u + wl;
  var sum = 0u;
  for (var i = 0u; i < len; i++) { sum += h.items[i].x * h.items[i].y; }
  whole[wl - 1u] = sum;
}`
	// items @8 stride 8: 3 elements in 32 bytes; a trailing partial element (36 bytes) does not count.
	for _, extra := range []int{0, 4} {
		h := cat(u32s(0, 0, 1, 2, 3, 4, 5, 6), zeros(extra))
		wantH := cat(u32s(305, 0, 1, 2, 3, 4, 5, 6), zeros(extra))
		e2e(t, src, "main", map[string][]byte{"0.0": h, "0.1": zeros(20)},
			map[string][]byte{"0.0": wantH, "0.1": u32s(0, 0, 0, 0, 44)})
	}
}

func TestE2E14Uniform(t *testing.T) {
	src := `
struct U { scale: vec4<f32>, idx: array<vec4<u32>, 2>, m: mat4x4<f32>, k: i32 }
@group(0) @binding(0) var<uniform> u: U;
@group(1) @binding(0) var<storage, read_write> o: array<f32>;
@compute @workgroup_size(1) fn main() {
  o[0] = u.scale.w * 2.0;
  o[1] = f32(u.idx[1].z);
  o[2] = (u.m * vec4<f32>(1.0, 1.0, 1.0, 1.0)).y;
  o[3] = f32(u.k);
  let mm = u.m;
  o[4] = mm[3][0];
  let i = u.idx[0].x;
  o[5] = f32(u.idx[i].y);
}`
	// scale@0 idx@16 (stride 16) m@48 k@112 size 128
	ub := cat(f32s(1, 2, 3, 4), u32s(1, 11, 12, 13, 20, 21, 22, 23),
		f32s(1, 10, 0, 0, 2, 20, 0, 0, 3, 30, 0, 0, 4, 40, 0, 0), i32s(-9), zeros(12))
	e2e(t, src, "main", map[string][]byte{"0.0": ub, "1.0": zeros(24)},
		map[string][]byte{"1.0": f32s(8, 22, 100, -9, 4, 21), "0.0": ub})
}
