package spv

import (
	"fmt"

	"verif/harness/xrt"
)

// trapErr and skipErr unwind the executor (panic/recover inside this package only).
type trapErr string
type skipErr string

// layout is the explicit-layout context inherited from the enclosing struct
// member while walking into buffer-backed memory.
type layout struct {
	matStride  int  // MatrixStride of the enclosing member
	hasStride  bool // MatrixStride present
	rowMajor   bool
	colMajor   bool
	compStride int // byte distance between vector components; 0 = the scalar size
}

// varInst is a run-time variable: either a window onto a bound buffer or a
// value tree with per-scalar defined bits.
type varInst struct {
	id      uint32
	name    string
	storage uint32
	t       *Type // pointee type

	buffer   bool // backed by Input.Buffers
	slot     string
	buf      []byte
	bound    bool   // a buffer was supplied for slot
	readOnly string // non-empty: why a store is invalid

	val         Value  // value-backed storage (mutable, owned by the variable)
	unsupported string // non-empty: any use is a Skip with this reason
}

// Pointer is a logical pointer: a variable plus the path walked into it.
type Pointer struct {
	v    *varInst
	t    *Type  // pointee type
	path []int  // value-backed: index path from the variable's value
	off  int    // buffer-backed: byte offset
	lay  layout // buffer-backed: inherited layout
	bad  string // non-empty: produced by an out-of-range OpAccessChain index; dereferencing traps
}

type exec struct {
	m        *Module
	in       xrt.Input
	vals     []Value
	steps    int
	maxSteps int
	active   map[uint32]bool
	acc      []xrt.Access
	accStart int
	cur      *Inst
	wgSize   [3]uint32
	minW     map[uint16]int
	depth    int
}

// Run decodes bin and executes one invocation of the GLCompute entry point
// named in.Entry.  It never panics.
func Run(bin []byte, in xrt.Input) xrt.Outcome {
	m, err := Decode(bin)
	if err != nil {
		return xrt.Outcome{Skip: "decode: " + err.Error()}
	}
	return m.Run(in)
}

// Run executes one invocation on an already decoded module.
func (m *Module) Run(in xrt.Input) (out xrt.Outcome) {
	x := &exec{m: m, in: in, active: map[uint32]bool{}}
	x.maxSteps = in.MaxSteps
	if x.maxSteps <= 0 {
		x.maxSteps = 1_000_000
	}
	defer func() {
		out.Steps = x.steps
		if in.TraceAccesses {
			out.Accesses = x.acc
		}
		if r := recover(); r != nil {
			switch e := r.(type) {
			case haltErr:
				// OpKill / OpTerminateInvocation: the invocation ends normally.
			case trapErr:
				out.Trap = string(e)
			case skipErr:
				out.Skip = string(e)
			default:
				out.Skip = fmt.Sprintf("internal: %v%s", r, x.where())
			}
		}
	}()
	x.run()
	return out
}

func (x *exec) where() string {
	if x.cur == nil {
		return ""
	}
	in := x.cur
	_, rw, _ := resultLayout(in.Op)
	if rw != 0 && rw < len(in.Words) {
		return fmt.Sprintf(" [%%%d = %s, word %d]", in.Words[rw], OpName(in.Op), in.Offset)
	}
	return fmt.Sprintf(" [%s, word %d]", OpName(in.Op), in.Offset)
}

func (x *exec) trapf(f string, a ...any) {
	panic(trapErr(fmt.Sprintf(f, a...) + x.where()))
}

func (x *exec) skipf(f string, a ...any) {
	panic(skipErr(fmt.Sprintf(f, a...) + x.where()))
}

// idName renders an id with its debug name when there is one.
func (x *exec) idName(id uint32) string {
	if n := x.m.Names[id]; n != "" {
		return fmt.Sprintf("%%%d(%s)", id, n)
	}
	return fmt.Sprintf("%%%d", id)
}

func (x *exec) run() {
	m := x.m
	if m.AddrModel != 0 {
		x.skipf("addressing model %d is not Logical", m.AddrModel)
	}
	ep := m.FindEntryPoint(x.in.Entry, 5)
	if ep == nil {
		for _, e := range m.EntryPoints {
			if e.Name == x.in.Entry {
				x.skipf("entry point %q has execution model %s, not GLCompute", e.Name, executionModelNames[e.Model])
			}
		}
		x.skipf("entry point %q not found", x.in.Entry)
	}
	fn := m.funcByID[ep.Func]
	if fn == nil {
		x.skipf("entry point %q refers to %%%d which is not a function", ep.Name, ep.Func)
	}
	x.vals = make([]Value, m.Bound)
	copy(x.vals, m.constVals)

	// Workgroup size: a constant decorated BuiltIn WorkgroupSize wins, then
	// LocalSizeId, then LocalSize.
	haveSize := false
	for _, md := range ep.Modes {
		switch {
		case md.Mode == 17 && !md.IsID && len(md.Operands) >= 3:
			copy(x.wgSize[:], md.Operands[:3])
			haveSize = true
		case md.Mode == 38 && len(md.Operands) >= 3:
			for i := 0; i < 3; i++ {
				c := x.constScalar(md.Operands[i], "LocalSizeId operand")
				x.wgSize[i] = uint32(c)
			}
			haveSize = true
		}
	}
	for id, ds := range m.Decorations {
		for _, d := range ds {
			if d.Kind == DecBuiltIn && len(d.Operands) > 0 && d.Operands[0] == BuiltInWorkgroupSize {
				if v := x.vals[id]; v.K == kComposite && len(v.Elems) == 3 {
					for i := 0; i < 3; i++ {
						x.wgSize[i] = uint32(v.Elems[i].Bits)
					}
					haveSize = true
				}
			}
		}
	}
	if !haveSize {
		x.skipf("entry point %q has no LocalSize", ep.Name)
	}
	for i := 0; i < 3; i++ {
		if x.wgSize[i] == 0 {
			x.skipf("LocalSize component %d is zero", i)
		}
		if x.in.LocalID[i] >= x.wgSize[i] {
			x.skipf("Input.LocalID %v is outside LocalSize %v", x.in.LocalID, x.wgSize)
		}
	}

	for _, g := range m.Globals {
		x.vals[g.ID] = Value{K: kPointer, Ptr: x.newGlobal(g)}
	}
	if len(fn.Params) != 0 {
		x.skipf("entry point function has parameters")
	}
	x.call(fn, nil)
}

func (x *exec) constScalar(id uint32, what string) uint64 {
	if id >= uint32(len(x.vals)) || x.vals[id].K != kScalar || x.vals[id].Undef {
		x.skipf("%s %%%d is not a defined scalar constant", what, id)
	}
	return x.vals[id].Bits
}

// newGlobal instantiates a module-scope variable.
func (x *exec) newGlobal(g *Variable) *Pointer {
	m := x.m
	v := &varInst{id: g.ID, name: m.Names[g.ID], storage: g.Storage}
	pt := m.Types[g.PtrType]
	if pt == nil || pt.Kind != KindPointer {
		v.unsupported = fmt.Sprintf("variable %s has non-pointer type %%%d", x.idName(g.ID), g.PtrType)
		return &Pointer{v: v}
	}
	v.t = m.Types[pt.Elem]
	p := &Pointer{v: v, t: v.t}
	if v.t == nil {
		v.unsupported = fmt.Sprintf("variable %s has undeclared pointee type %%%d", x.idName(g.ID), pt.Elem)
		return p
	}
	switch g.Storage {
	case StorageStorageBuffer, StorageUniform, StoragePushConstant:
		v.buffer = true
		if g.Storage == StoragePushConstant {
			v.slot = "push_constant"
			v.readOnly = "PushConstant storage is read-only"
		} else {
			set, ok1 := m.decorationWord(g.ID, DecDescriptorSet)
			bind, ok2 := m.decorationWord(g.ID, DecBinding)
			if !ok1 || !ok2 {
				v.unsupported = fmt.Sprintf("variable %s lacks DescriptorSet/Binding decorations", x.idName(g.ID))
				return p
			}
			v.slot = fmt.Sprintf("%d.%d", set, bind)
			if g.Storage == StorageUniform {
				if _, bb := m.decoration(v.t.ID, DecBufferBlock); !bb {
					v.readOnly = "Uniform Block storage is read-only"
				}
			}
			if _, nw := m.decoration(g.ID, DecNonWritable); nw {
				v.readOnly = "variable is decorated NonWritable"
			}
		}
		v.buf, v.bound = x.in.Buffers[v.slot]
		if g.Init != 0 {
			v.unsupported = fmt.Sprintf("buffer variable %s has an initializer", x.idName(g.ID))
		}
	case StoragePrivate, StorageWorkgroup, StorageOutput:
		x.initValueVar(v, g.Init)
	case StorageInput:
		v.readOnly = "Input storage is read-only"
		bi, ok := m.decorationWord(g.ID, DecBuiltIn)
		if !ok {
			v.unsupported = fmt.Sprintf("Input variable %s has no BuiltIn decoration", x.idName(g.ID))
			return p
		}
		x.initBuiltIn(v, bi)
	default:
		v.unsupported = fmt.Sprintf("variable %s in storage class %s", x.idName(g.ID), storageClassName(g.Storage))
	}
	return p
}

func storageClassName(sc uint32) string {
	if n, ok := storageClassNames[sc]; ok {
		return n
	}
	return fmt.Sprintf("StorageClass(%d)", sc)
}

func (x *exec) initValueVar(v *varInst, init uint32) {
	if init != 0 {
		iv := x.valueOf(init)
		v.val = deepCopy(iv)
		return
	}
	uv, err := x.m.undefValue(v.t)
	if err != "" {
		v.unsupported = fmt.Sprintf("variable %s: %s", x.idName(v.id), err)
		return
	}
	v.val = uv
}

func (x *exec) initBuiltIn(v *varInst, bi uint32) {
	m := x.m
	in := x.in
	num := in.NumWorkgroups
	if num == [3]uint32{} {
		num = [3]uint32{1, 1, 1}
	}
	var vec [3]uint32
	isVec := true
	switch bi {
	case BuiltInLocalInvocationId:
		vec = in.LocalID
	case BuiltInWorkgroupId:
		vec = in.WorkgroupID
	case BuiltInNumWorkgroups:
		vec = num
	case BuiltInGlobalInvocationId:
		for i := 0; i < 3; i++ {
			vec[i] = in.WorkgroupID[i]*x.wgSize[i] + in.LocalID[i]
		}
	case BuiltInWorkgroupSize:
		vec = x.wgSize
	case BuiltInLocalInvocationIndex:
		isVec = false
		vec[0] = in.LocalID[2]*x.wgSize[0]*x.wgSize[1] + in.LocalID[1]*x.wgSize[0] + in.LocalID[0]
	default:
		n := builtInNames[bi]
		if n == "" {
			n = fmt.Sprint(bi)
		}
		v.unsupported = fmt.Sprintf("Input variable %s with BuiltIn %s", x.idName(v.id), n)
		return
	}
	st := m.scalarOf(v.t)
	if st == nil || st.Kind != KindInt || st.Width != 32 {
		v.unsupported = fmt.Sprintf("BuiltIn variable %s is not made of 32-bit integers", x.idName(v.id))
		return
	}
	if isVec {
		if v.t.Kind != KindVector || v.t.Count != 3 {
			v.unsupported = fmt.Sprintf("BuiltIn variable %s is not a 3-component vector", x.idName(v.id))
			return
		}
		v.val = composite([]Value{scalar(uint64(vec[0])), scalar(uint64(vec[1])), scalar(uint64(vec[2]))})
	} else {
		if v.t.Kind != KindInt {
			v.unsupported = fmt.Sprintf("BuiltIn variable %s is not a scalar", x.idName(v.id))
			return
		}
		v.val = scalar(uint64(vec[0]))
	}
}

// valueOf returns the value of an id, Skip if it has none.
func (x *exec) valueOf(id uint32) Value {
	if id == 0 || id >= uint32(len(x.vals)) {
		x.skipf("id %%%d out of bound", id)
	}
	v := x.vals[id]
	if v.K == kNone {
		if int(id) < len(x.m.constIssue) && x.m.constIssue[id] != "" {
			x.skipf("%s", x.m.constIssue[id])
		}
		if di := x.m.DefInst[id]; di >= 0 {
			x.skipf("use of %%%d (%s) which has no value", id, OpName(x.m.Insts[di].Op))
		}
		x.skipf("use of undefined id %%%d", id)
	}
	return v
}

// typeOfID returns the type of a value id.
func (x *exec) typeOfID(id uint32) *Type {
	if id >= uint32(len(x.m.TypeOf)) {
		x.skipf("id %%%d out of bound", id)
	}
	t := x.m.Types[x.m.TypeOf[id]]
	if t == nil {
		x.skipf("id %%%d has no declared type", id)
	}
	return t
}

func (x *exec) typ(id uint32) *Type {
	t := x.m.Types[id]
	if t == nil {
		x.skipf("undeclared type %%%d", id)
	}
	return t
}

func (x *exec) ptrOf(id uint32) *Pointer {
	v := x.valueOf(id)
	if v.K != kPointer || v.Ptr == nil {
		if v.K == kPointer {
			x.trapf("use of undefined pointer %s", x.idName(id))
		}
		x.skipf("%%%d is not a pointer", id)
	}
	return v.Ptr
}

func (x *exec) minWords(op uint16) int {
	if x.minW == nil {
		x.minW = map[uint16]int{}
	}
	n, ok := x.minW[op]
	if !ok {
		n = minWords(op)
		x.minW[op] = n
	}
	return n
}

func (x *exec) step() {
	x.steps++
	if x.steps > x.maxSteps {
		x.steps = x.maxSteps
		panic(skipErr("fuel"))
	}
}

// call runs a function to completion and returns its result.
func (x *exec) call(fn *Function, args []Value) Value {
	m := x.m
	if x.active[fn.ID] {
		x.skipf("recursive call of %s", x.idName(fn.ID))
	}
	if len(fn.Blocks) == 0 {
		x.skipf("call of function %s without a body", x.idName(fn.ID))
	}
	if len(args) != len(fn.Params) {
		x.skipf("call of %s with %d arguments, expects %d", x.idName(fn.ID), len(args), len(fn.Params))
	}
	x.active[fn.ID] = true
	defer delete(x.active, fn.ID)
	for i, p := range fn.Params {
		x.vals[p] = args[i]
	}
	blk := fn.Blocks[0]
	prev := uint32(0)
	var phiIDs []uint32
	var phiVals []Value
	for {
		idx := blk.First + 1
		// OpPhi group: evaluate all with the values at the end of the predecessor, then assign.
		phiIDs, phiVals = phiIDs[:0], phiVals[:0]
		for ; idx < blk.End; idx++ {
			in := &m.Insts[idx]
			if in.Op == opLine || in.Op == opNoLine {
				continue
			}
			if in.Op != opPhi {
				break
			}
			x.cur = in
			x.step()
			w := in.Words
			if len(w) < 3 {
				x.skipf("malformed OpPhi")
			}
			found := false
			for k := 3; k+1 < len(w); k += 2 {
				if w[k+1] == prev {
					phiIDs = append(phiIDs, w[2])
					phiVals = append(phiVals, x.valueOf(w[k]))
					found = true
					break
				}
			}
			if !found {
				x.skipf("OpPhi %%%d has no entry for predecessor %%%d", w[2], prev)
			}
		}
		for i, id := range phiIDs {
			x.vals[id] = phiVals[i]
		}
		var next uint32
	body:
		for ; idx < blk.End; idx++ {
			in := &m.Insts[idx]
			x.cur = in
			x.accStart = len(x.acc)
			x.step()
			w := in.Words
			if len(w) < x.minWords(in.Op) {
				x.skipf("malformed %s: %d words", OpName(in.Op), len(w))
			}
			switch in.Op {
			case opBranch:
				next = w[1]
				break body
			case opBranchConditional:
				c := x.valueOf(w[1])
				if c.K != kScalar {
					x.skipf("branch condition %%%d is not a scalar", w[1])
				}
				if c.Undef {
					x.trapf("branch on undefined condition %s", x.idName(w[1]))
				}
				if c.Bits != 0 {
					next = w[2]
				} else {
					next = w[3]
				}
				break body
			case opSwitch:
				sel := x.valueOf(w[1])
				st := x.typeOfID(w[1])
				if sel.K != kScalar || st.Kind != KindInt {
					x.skipf("switch selector %%%d is not an integer scalar", w[1])
				}
				if sel.Undef {
					x.trapf("switch on undefined selector %s", x.idName(w[1]))
				}
				next = w[2]
				lw := 1
				if st.Width > 32 {
					lw = 2
				}
				for k := 3; k+lw < len(w); k += lw + 1 {
					lit := uint64(w[k])
					if lw == 2 {
						lit |= uint64(w[k+1]) << 32
					}
					if lit&widthMask(st.Width) == sel.Bits {
						next = w[k+lw]
						break
					}
				}
				break body
			case opReturn, opKill, opTerminateInvocation:
				if in.Op != opReturn {
					panic(haltErr{})
				}
				return Value{}
			case opReturnValue:
				return x.valueOf(w[1])
			case opUnreachable:
				x.trapf("OpUnreachable reached in function %s", x.idName(fn.ID))
			default:
				x.execInst(in)
			}
		}
		if next == 0 {
			x.skipf("block %%%d has no terminator", blk.Label)
		}
		bi, ok := fn.blockIndex[next]
		if !ok {
			x.skipf("branch to %%%d which is not a block of function %s", next, x.idName(fn.ID))
		}
		prev = blk.Label
		blk = fn.Blocks[bi]
	}
}

// haltErr unwinds the whole invocation on OpKill / OpTerminateInvocation.
type haltErr struct{}

// execInst executes one non-terminator instruction inside a block.
func (x *exec) execInst(in *Inst) {
	w := in.Words
	switch in.Op {
	case opNop, opLine, opNoLine, opSelectionMerge, opLoopMerge, opControlBarrier, opMemoryBarrier,
		opLifetimeStart, opLifetimeStop:
		// No effect on a single invocation.
	case opVariable:
		pt := x.typ(w[1])
		if pt.Kind != KindPointer || w[3] != StorageFunction {
			x.skipf("function-scope OpVariable with storage class %s", storageClassName(w[3]))
		}
		v := &varInst{id: w[2], name: x.m.Names[w[2]], storage: StorageFunction, t: x.typ(pt.Elem)}
		init := uint32(0)
		if len(w) > 4 {
			init = w[4]
		}
		x.initValueVar(v, init)
		x.vals[w[2]] = Value{K: kPointer, Ptr: &Pointer{v: v, t: v.t}}
	case opLoad:
		x.vals[w[2]] = x.load(x.ptrOf(w[3]))
	case opStore:
		x.store(x.ptrOf(w[1]), x.valueOf(w[2]))
	case opCopyMemory:
		x.store(x.ptrOf(w[1]), x.load(x.ptrOf(w[2])))
	case opAccessChain, opInBoundsAccessChain:
		x.accessChain(in, in.Op == opInBoundsAccessChain)
	case opArrayLength:
		x.arrayLength(in)
	case opFunctionCall:
		fn := x.m.funcByID[w[3]]
		if fn == nil {
			x.skipf("call of %%%d which is not a function", w[3])
		}
		args := make([]Value, len(w)-4)
		for i := range args {
			args[i] = x.valueOf(w[4+i])
		}
		x.depth++
		if x.depth > 64 {
			x.skipf("call depth exceeds 64")
		}
		r := x.call(fn, args)
		x.depth--
		x.cur = in
		if rt := x.typ(w[1]); rt.Kind != KindVoid {
			if r.K == kNone {
				x.skipf("function %s returned no value", x.idName(fn.ID))
			}
			x.vals[w[2]] = r
		}
	case opAtomicLoad, opAtomicStore, opAtomicExchange, opAtomicCompareExchange, opAtomicCompareExchangeWeak,
		opAtomicIIncrement, opAtomicIDecrement, opAtomicIAdd, opAtomicISub, opAtomicSMin, opAtomicUMin,
		opAtomicSMax, opAtomicUMax, opAtomicAnd, opAtomicOr, opAtomicXor, opAtomicFAddEXT:
		x.atomic(in)
	case opExtInst:
		x.extInst(in)
	default:
		if !x.pure(in) {
			x.skipf("unsupported opcode %s", OpName(in.Op))
		}
	}
}

// ---------------------------------------------------------------------------
// Memory

func (x *exec) checkUsable(p *Pointer, what string) {
	if p.v == nil {
		x.skipf("%s through a pointer without a variable", what)
	}
	if p.v.unsupported != "" {
		x.skipf("%s", p.v.unsupported)
	}
	if p.v.buffer && !p.v.bound {
		x.skipf("no buffer bound to slot %q used by variable %s", p.v.slot, x.idName(p.v.id))
	}
}

func (x *exec) accessChain(in *Inst, inBounds bool) {
	w := in.Words
	base := x.ptrOf(w[3])
	x.checkUsable(base, "access chain")
	p := *base
	p.path = append([]int(nil), base.path...)
	for _, id := range w[4:] {
		iv := x.valueOf(id)
		it := x.typeOfID(id)
		if iv.K != kScalar || it.Kind != KindInt {
			x.skipf("access chain index %%%d is not an integer scalar", id)
		}
		if iv.Undef {
			x.trapf("undefined value %s used as access chain index", x.idName(id))
		}
		x.stepInto(&p, sext(iv.Bits, it.Width), inBounds)
	}
	if rt := x.typ(w[1]); rt.Kind != KindPointer {
		x.skipf("access chain result type %%%d is not a pointer", w[1])
	}
	x.vals[w[2]] = Value{K: kPointer, Ptr: &p}
}

// stepInto advances p by one index.  An out-of-range array / vector / matrix
// index of OpAccessChain poisons the pointer (dereferencing it traps); for
// OpInBoundsAccessChain, whose result is asserted to be in bounds, it traps
// at once.  A struct index out of range is malformed SPIR-V and traps at once.
func (x *exec) stepInto(p *Pointer, i int64, inBounds bool) {
	m := x.m
	t := p.t
	oob := func(n int64, what string) bool {
		if i >= 0 && i < n {
			return false
		}
		msg := fmt.Sprintf("out-of-bounds access chain index %d of %d into %s of %s", i, n, what, x.idName(p.v.id))
		if inBounds {
			x.trapf("%s", msg)
		}
		if p.bad == "" {
			p.bad = msg
		}
		return true
	}
	scalarSize := func(vt *Type) int {
		st := m.scalarOf(vt)
		if st == nil || st.Width%8 != 0 {
			x.skipf("vector/matrix type %%%d in a buffer has no byte-sized component", vt.ID)
		}
		return st.Width / 8
	}
	switch t.Kind {
	case KindStruct:
		if i < 0 || i >= int64(len(t.Members)) {
			x.trapf("struct member index %d out of range of %d members of type %%%d", i, len(t.Members), t.ID)
		}
		if p.v.buffer {
			off, ok := m.memberDecorationWord(t.ID, uint32(i), DecOffset)
			if !ok {
				x.skipf("member %d of struct %s in buffer variable %s has no Offset decoration", i, x.idName(t.ID), x.idName(p.v.id))
			}
			p.off += int(off)
			p.lay = x.memberLayout(t, uint32(i))
		} else {
			p.path = append(p.path, int(i))
		}
		p.t = x.typ(t.Members[i])
	case KindArray, KindRuntimeArray:
		et := x.typ(t.Elem)
		var n int64
		stride := 0
		if p.v.buffer {
			s, ok := m.decorationWord(t.ID, DecArrayStride)
			if !ok {
				x.skipf("array type %s in buffer variable %s has no ArrayStride decoration", x.idName(t.ID), x.idName(p.v.id))
			}
			stride = int(s)
		}
		if t.Kind == KindArray {
			if t.Count < 0 {
				x.skipf("array type %%%d has no usable length", t.ID)
			}
			n = int64(t.Count)
		} else {
			if !p.v.buffer {
				x.skipf("runtime array outside a buffer")
			}
			n = int64(runtimeLen(len(p.v.buf), p.off, stride))
		}
		what := "array"
		if t.Kind == KindRuntimeArray {
			what = fmt.Sprintf("runtime array (buffer %q of %d bytes, array at offset %d, stride %d)", p.v.slot, len(p.v.buf), p.off, stride)
		}
		if !oob(n, what) {
			if p.v.buffer {
				p.off += int(i) * stride
			} else {
				p.path = append(p.path, int(i))
			}
		}
		p.t = et
	case KindMatrix:
		ct := x.typ(t.Elem)
		if !oob(int64(t.Count), "matrix") {
			if p.v.buffer {
				if !p.lay.hasStride {
					x.skipf("matrix in buffer variable %s has no MatrixStride decoration", x.idName(p.v.id))
				}
				if p.lay.rowMajor == p.lay.colMajor {
					x.skipf("matrix in buffer variable %s must be decorated with exactly one of ColMajor / RowMajor", x.idName(p.v.id))
				}
				if p.lay.colMajor {
					p.off += int(i) * p.lay.matStride
					p.lay = layout{}
				} else {
					p.off += int(i) * scalarSize(t)
					p.lay = layout{compStride: p.lay.matStride}
				}
			} else {
				p.path = append(p.path, int(i))
			}
		} else if p.v.buffer {
			p.lay = layout{}
		}
		p.t = ct
	case KindVector:
		st := x.typ(t.Elem)
		if !oob(int64(t.Count), "vector") {
			if p.v.buffer {
				cs := p.lay.compStride
				if cs == 0 {
					cs = scalarSize(t)
				}
				p.off += int(i) * cs
			} else {
				p.path = append(p.path, int(i))
			}
		}
		p.lay = layout{}
		p.t = st
	default:
		x.skipf("access chain into non-composite type %%%d (%s)", t.ID, t.Kind)
	}
}

func runtimeLen(bufLen, off, stride int) int {
	if stride <= 0 || off < 0 || bufLen <= off {
		return 0
	}
	return (bufLen - off) / stride
}

// memberLayout reads the matrix layout decorations of a struct member.
func (x *exec) memberLayout(st *Type, member uint32) layout {
	var l layout
	if s, ok := x.m.memberDecorationWord(st.ID, member, DecMatrixStride); ok {
		l.matStride, l.hasStride = int(s), true
	}
	_, l.rowMajor = x.m.memberDecoration(st.ID, member, DecRowMajor)
	_, l.colMajor = x.m.memberDecoration(st.ID, member, DecColMajor)
	return l
}

func (x *exec) arrayLength(in *Inst) {
	w := in.Words
	p := x.ptrOf(w[3])
	x.checkUsable(p, "OpArrayLength")
	if p.bad != "" {
		x.trapf("%s", p.bad)
	}
	if !p.v.buffer || p.t.Kind != KindStruct {
		x.skipf("OpArrayLength on something that is not a struct in a buffer")
	}
	mi := w[4]
	if int(mi) >= len(p.t.Members) {
		x.skipf("OpArrayLength member %d out of range", mi)
	}
	at := x.typ(p.t.Members[mi])
	if at.Kind != KindRuntimeArray {
		x.skipf("OpArrayLength member %d is not a runtime array", mi)
	}
	off, ok := x.m.memberDecorationWord(p.t.ID, mi, DecOffset)
	if !ok {
		x.skipf("member %d of struct %s has no Offset decoration", mi, x.idName(p.t.ID))
	}
	stride, ok := x.m.decorationWord(at.ID, DecArrayStride)
	if !ok || stride == 0 {
		x.skipf("runtime array type %s has no ArrayStride decoration", x.idName(at.ID))
	}
	n := runtimeLen(len(p.v.buf), p.off+int(off), int(stride))
	x.vals[w[2]] = scalar(uint64(uint32(n)))
}

func (x *exec) access(v *varInst, off, size int, write bool) {
	if !x.in.TraceAccesses {
		return
	}
	if n := len(x.acc); n > x.accStart {
		l := &x.acc[n-1]
		if l.Slot == v.slot && l.Write == write && l.Offset+l.Size == off {
			l.Size += size
			return
		}
	}
	x.acc = append(x.acc, xrt.Access{Slot: v.slot, Offset: off, Size: size, Write: write})
}

// node returns the storage cell of a value-backed pointer.
func (x *exec) node(p *Pointer) *Value {
	n := &p.v.val
	for _, i := range p.path {
		if n.K != kComposite || i < 0 || i >= len(n.Elems) {
			x.skipf("malformed module: pointer path %v does not fit the value of variable %s", p.path, x.idName(p.v.id))
		}
		n = &n.Elems[i]
	}
	return n
}

func (x *exec) load(p *Pointer) Value {
	x.checkUsable(p, "load")
	if p.bad != "" {
		x.trapf("load through pointer from %s", p.bad)
	}
	if p.v.buffer {
		return x.loadBuf(p.v, p.t, p.off, p.lay)
	}
	n := x.node(p)
	if n.K == kNone {
		x.skipf("variable %s has no value", x.idName(p.v.id))
	}
	return deepCopy(*n)
}

func (x *exec) store(p *Pointer, v Value) {
	x.checkUsable(p, "store")
	if p.bad != "" {
		x.trapf("store through pointer from %s", p.bad)
	}
	if p.v.readOnly != "" {
		x.trapf("store to %s: %s", x.idName(p.v.id), p.v.readOnly)
	}
	if p.v.buffer {
		x.storeBuf(p.v, p.t, p.off, p.lay, v)
		return
	}
	*x.node(p) = deepCopy(v)
}

func (x *exec) bufScalarSize(v *varInst, t *Type) int {
	switch t.Kind {
	case KindInt, KindFloat:
		switch t.Width {
		case 8, 16, 32, 64:
			return t.Width / 8
		}
	case KindBool:
		x.skipf("OpTypeBool inside buffer variable %s has no defined representation", x.idName(v.id))
	}
	x.skipf("type %%%d (%s) inside buffer variable %s is not supported", t.ID, t.Kind, x.idName(v.id))
	return 0
}

func (x *exec) checkRange(v *varInst, off, size int, what string) {
	if off < 0 || off+size > len(v.buf) {
		x.trapf("%s of %d bytes at offset %d is beyond buffer %q of %d bytes (variable %s)", what, size, off, v.slot, len(v.buf), x.idName(v.id))
	}
}

func (x *exec) loadBuf(v *varInst, t *Type, off int, lay layout) Value {
	switch t.Kind {
	case KindInt, KindFloat, KindBool:
		size := x.bufScalarSize(v, t)
		x.checkRange(v, off, size, "load")
		x.access(v, off, size, false)
		var b uint64
		for k := size - 1; k >= 0; k-- {
			b = b<<8 | uint64(v.buf[off+k])
		}
		return scalar(b)
	case KindVector:
		st := x.typ(t.Elem)
		cs := lay.compStride
		if cs == 0 {
			cs = x.bufScalarSize(v, st)
		}
		e := make([]Value, t.Count)
		for i := range e {
			e[i] = x.loadBuf(v, st, off+i*cs, layout{})
		}
		return composite(e)
	case KindMatrix:
		ct := x.typ(t.Elem)
		e := make([]Value, t.Count)
		for i := range e {
			o, l := x.matrixColumn(v, t, off, lay, i)
			e[i] = x.loadBuf(v, ct, o, l)
		}
		return composite(e)
	case KindArray:
		if t.Count < 0 {
			x.skipf("array type %%%d has no usable length", t.ID)
		}
		stride, ok := x.m.decorationWord(t.ID, DecArrayStride)
		if !ok {
			x.skipf("array type %s in buffer variable %s has no ArrayStride decoration", x.idName(t.ID), x.idName(v.id))
		}
		et := x.typ(t.Elem)
		if t.Count > 0 {
			// Reject a load that cannot fit before allocating for it.
			if last := off + (t.Count-1)*int(stride); last < off || last >= len(v.buf) {
				x.checkRange(v, last, 1, "load")
			}
		}
		e := make([]Value, t.Count)
		for i := range e {
			e[i] = x.loadBuf(v, et, off+i*int(stride), lay)
		}
		return composite(e)
	case KindStruct:
		e := make([]Value, len(t.Members))
		for i, mt := range t.Members {
			mo, ok := x.m.memberDecorationWord(t.ID, uint32(i), DecOffset)
			if !ok {
				x.skipf("member %d of struct %s in buffer variable %s has no Offset decoration", i, x.idName(t.ID), x.idName(v.id))
			}
			e[i] = x.loadBuf(v, x.typ(mt), off+int(mo), x.memberLayout(t, uint32(i)))
		}
		return composite(e)
	case KindRuntimeArray:
		x.skipf("load of a whole runtime array")
	}
	x.skipf("load of type %%%d (%s) from a buffer", t.ID, t.Kind)
	return Value{}
}

// matrixColumn gives the byte offset and layout of column i of a matrix at off.
func (x *exec) matrixColumn(v *varInst, t *Type, off int, lay layout, i int) (int, layout) {
	if !lay.hasStride {
		x.skipf("matrix in buffer variable %s has no MatrixStride decoration", x.idName(v.id))
	}
	if lay.rowMajor == lay.colMajor {
		x.skipf("matrix in buffer variable %s must be decorated with exactly one of ColMajor / RowMajor", x.idName(v.id))
	}
	if lay.colMajor {
		return off + i*lay.matStride, layout{}
	}
	st := x.m.scalarOf(t)
	return off + i*x.bufScalarSize(v, st), layout{compStride: lay.matStride}
}

func (x *exec) storeBuf(v *varInst, t *Type, off int, lay layout, val Value) {
	switch t.Kind {
	case KindInt, KindFloat, KindBool:
		size := x.bufScalarSize(v, t)
		if val.K != kScalar {
			x.skipf("store of a non-scalar into a scalar")
		}
		if val.Undef {
			x.trapf("store of an undefined value to buffer %q at offset %d (variable %s)", v.slot, off, x.idName(v.id))
		}
		x.checkRange(v, off, size, "store")
		x.access(v, off, size, true)
		b := val.Bits
		for k := 0; k < size; k++ {
			v.buf[off+k] = byte(b)
			b >>= 8
		}
		return
	case KindVector, KindMatrix, KindArray, KindStruct:
		n := t.Count
		if t.Kind == KindStruct {
			n = len(t.Members)
		}
		if n < 0 {
			x.skipf("array type %%%d has no usable length", t.ID)
		}
		if val.K != kComposite || len(val.Elems) != n {
			x.skipf("store of a value that does not match type %%%d", t.ID)
		}
	}
	switch t.Kind {
	case KindVector:
		st := x.typ(t.Elem)
		cs := lay.compStride
		if cs == 0 {
			cs = x.bufScalarSize(v, st)
		}
		for i := range val.Elems {
			x.storeBuf(v, st, off+i*cs, layout{}, val.Elems[i])
		}
	case KindMatrix:
		ct := x.typ(t.Elem)
		for i := range val.Elems {
			o, l := x.matrixColumn(v, t, off, lay, i)
			x.storeBuf(v, ct, o, l, val.Elems[i])
		}
	case KindArray:
		stride, ok := x.m.decorationWord(t.ID, DecArrayStride)
		if !ok {
			x.skipf("array type %s in buffer variable %s has no ArrayStride decoration", x.idName(t.ID), x.idName(v.id))
		}
		et := x.typ(t.Elem)
		for i := range val.Elems {
			x.storeBuf(v, et, off+i*int(stride), lay, val.Elems[i])
		}
	case KindStruct:
		for i, mt := range t.Members {
			mo, ok := x.m.memberDecorationWord(t.ID, uint32(i), DecOffset)
			if !ok {
				x.skipf("member %d of struct %s in buffer variable %s has no Offset decoration", i, x.idName(t.ID), x.idName(v.id))
			}
			x.storeBuf(v, x.typ(mt), off+int(mo), x.memberLayout(t, uint32(i)), val.Elems[i])
		}
	default:
		x.skipf("store of type %%%d (%s) to a buffer", t.ID, t.Kind)
	}
}

// atomic executes the OpAtomic* family sequentially (one invocation).
func (x *exec) atomic(in *Inst) {
	w := in.Words
	var p *Pointer
	if in.Op == opAtomicStore {
		p = x.ptrOf(w[1])
	} else {
		p = x.ptrOf(w[3])
	}
	x.checkUsable(p, "atomic")
	if p.t == nil || (p.t.Kind != KindInt && !(p.t.Kind == KindFloat && (in.Op == opAtomicFAddEXT || in.Op == opAtomicLoad || in.Op == opAtomicStore || in.Op == opAtomicExchange))) {
		x.skipf("%s on a pointer to non-integer type", OpName(in.Op))
	}
	t := p.t
	// Scope and semantics operands must be defined integer constants; they do
	// not affect a single invocation.
	arg := func(id uint32) uint64 {
		v := x.valueOf(id)
		if v.K != kScalar {
			x.skipf("atomic operand %%%d is not a scalar", id)
		}
		if v.Undef {
			x.trapf("undefined value %s used as operand of %s", x.idName(id), OpName(in.Op))
		}
		return v.Bits
	}
	mask := widthMask(t.Width)
	readOld := func() uint64 {
		v := x.load(p)
		if v.Undef {
			x.trapf("%s reads uninitialised memory of %s", OpName(in.Op), x.idName(p.v.id))
		}
		return v.Bits
	}
	switch in.Op {
	case opAtomicLoad:
		arg(w[4])
		arg(w[5])
		x.vals[w[2]] = x.load(p)
		return
	case opAtomicStore:
		arg(w[2])
		arg(w[3])
		x.store(p, x.valueOf(w[4]))
		return
	case opAtomicExchange:
		arg(w[4])
		arg(w[5])
		old := x.load(p)
		x.store(p, x.valueOf(w[6]))
		x.vals[w[2]] = old
		return
	case opAtomicCompareExchange, opAtomicCompareExchangeWeak:
		arg(w[4])
		arg(w[5])
		arg(w[6])
		val := arg(w[7])
		cmp := arg(w[8])
		old := readOld()
		if old == cmp {
			x.store(p, scalar(val))
		}
		x.vals[w[2]] = scalar(old)
		return
	case opAtomicIIncrement, opAtomicIDecrement:
		arg(w[4])
		arg(w[5])
		old := readOld()
		nv := old + 1
		if in.Op == opAtomicIDecrement {
			nv = old - 1
		}
		x.store(p, scalar(nv&mask))
		x.vals[w[2]] = scalar(old)
		return
	}
	arg(w[4])
	arg(w[5])
	val := arg(w[6])
	old := readOld()
	var nv uint64
	so, sv := sext(old, t.Width), sext(val, t.Width)
	switch in.Op {
	case opAtomicIAdd:
		nv = old + val
	case opAtomicISub:
		nv = old - val
	case opAtomicSMin:
		nv = old
		if sv < so {
			nv = val
		}
	case opAtomicSMax:
		nv = old
		if sv > so {
			nv = val
		}
	case opAtomicUMin:
		nv = old
		if val < old {
			nv = val
		}
	case opAtomicUMax:
		nv = old
		if val > old {
			nv = val
		}
	case opAtomicAnd:
		nv = old & val
	case opAtomicOr:
		nv = old | val
	case opAtomicXor:
		nv = old ^ val
	case opAtomicFAddEXT:
		nv = fromF(toF(old, t.Width)+toF(val, t.Width), t.Width)
	}
	x.store(p, scalar(nv&mask))
	x.vals[w[2]] = scalar(old)
}
