package spv

import (
	"fmt"
	"math"
	"strings"
)

// Disasm renders the module one instruction per line in the style of
// spirv-dis: "%id = OpName operands" (result type first), ids as %N, enum
// operands by name, strings quoted.  Ids that have an OpName get a trailing
// "; name" comment.
func Disasm(m *Module) string {
	var sb strings.Builder
	fmt.Fprintf(&sb, "; SPIR-V\n; Version: %d.%d\n; Generator: %#x\n; Bound: %d\n; Schema: %d\n",
		m.Major(), m.Minor(), m.Generator, m.Bound, m.Schema)
	for i := range m.Insts {
		sb.WriteString(m.DisasmInst(&m.Insts[i]))
		sb.WriteByte('\n')
	}
	return sb.String()
}

// DisasmInst renders one instruction.
func (m *Module) DisasmInst(in *Inst) string {
	var sb strings.Builder
	info, known := opTable[in.Op]
	w := in.Words
	f := info.fmt
	pos := 1
	var resID uint32
	// Result id first.
	if known {
		for k := 0; k < len(f) && k < 2; k++ {
			if f[k] == 'r' && k+1 < len(w) {
				resID = w[k+1]
			}
		}
	}
	if resID != 0 {
		fmt.Fprintf(&sb, "%%%d = ", resID)
	}
	sb.WriteString(OpName(in.Op))
	if !known {
		for _, x := range w[1:] {
			fmt.Fprintf(&sb, " %d", x)
		}
		return sb.String()
	}
	lit := func(x uint32) { fmt.Fprintf(&sb, " %d", x) }
	id := func(x uint32) { fmt.Fprintf(&sb, " %%%d", x) }
	enum := func(tab map[uint32]string, x uint32) {
		if n, ok := tab[x]; ok {
			sb.WriteString(" " + n)
		} else {
			lit(x)
		}
	}
	var resType uint32
	for k := 0; k < len(f); k++ {
		c := f[k]
		if pos >= len(w) {
			break
		}
		switch c {
		case 't':
			resType = w[pos]
			id(w[pos])
			pos++
		case 'r':
			pos++
		case 'i':
			id(w[pos])
			pos++
		case 'o':
			id(w[pos])
			pos++
		case 'I':
			for ; pos < len(w); pos++ {
				id(w[pos])
			}
		case 'n':
			lit(w[pos])
			pos++
		case 'N':
			for ; pos < len(w); pos++ {
				lit(w[pos])
			}
		case 's', 'z':
			s, n := decodeString(w[pos:])
			fmt.Fprintf(&sb, " %q", s)
			pos += n
		case 'c':
			sb.WriteString(" " + m.literalString(resType, w[pos:]))
			pos = len(w)
		case 'S':
			enum(storageClassNames, w[pos])
			pos++
		case 'D', 'd':
			dec := w[pos]
			enum(decorationNames, dec)
			pos++
			if in.Op == opDecorateString || in.Op == opMemberDecorateString {
				s, n := decodeString(w[pos:])
				fmt.Fprintf(&sb, " %q", s)
				pos += n
				break
			}
			for ; pos < len(w); pos++ {
				switch {
				case c == 'd':
					id(w[pos])
				case dec == DecBuiltIn:
					enum(builtInNames, w[pos])
				default:
					lit(w[pos])
				}
			}
		case 'E':
			enum(executionModelNames, w[pos])
			pos++
		case 'X', 'x':
			enum(executionModeNames, w[pos])
			pos++
			for ; pos < len(w); pos++ {
				if c == 'x' {
					id(w[pos])
				} else {
					lit(w[pos])
				}
			}
		case 'C':
			fmt.Fprintf(&sb, " %s", capabilityName(w[pos]))
			pos++
		case 'A':
			enum(map[uint32]string{0: "Logical", 1: "Physical32", 2: "Physical64", 5348: "PhysicalStorageBuffer64"}, w[pos])
			pos++
		case 'Y':
			enum(map[uint32]string{0: "Simple", 1: "GLSL450", 2: "OpenCL", 3: "Vulkan"}, w[pos])
			pos++
		case 'L':
			sb.WriteString(" " + maskString(w[pos], []string{"Unroll", "DontUnroll", "DependencyInfinite", "DependencyLength", "MinIterations", "MaxIterations", "IterationMultiple", "PeelCount", "PartialCount"}))
			pos++
		case 'K':
			sb.WriteString(" " + maskString(w[pos], []string{"Flatten", "DontFlatten"}))
			pos++
		case 'F':
			sb.WriteString(" " + maskString(w[pos], []string{"Inline", "DontInline", "Pure", "Const"}))
			pos++
		case 'M':
			if pos < len(w) {
				sb.WriteString(" " + maskString(w[pos], []string{"Volatile", "Aligned", "Nontemporal", "MakePointerAvailable", "MakePointerVisible", "NonPrivatePointer"}))
				mask := w[pos]
				pos++
				if mask&2 != 0 && pos < len(w) {
					lit(w[pos])
					pos++
				}
				for ; pos < len(w); pos++ {
					id(w[pos])
				}
			}
		case 'm':
			if pos < len(w) {
				sb.WriteString(" " + maskString(w[pos], []string{"Bias", "Lod", "Grad", "ConstOffset", "Offset", "ConstOffsets", "Sample", "MinLod"}))
				pos++
				for ; pos < len(w); pos++ {
					id(w[pos])
				}
			}
		case 'p':
			lw := 1
			if st := m.Types[m.typeOfSafe(w[1])]; st != nil && st.Width > 32 {
				lw = 2
			}
			for pos+lw < len(w) {
				v := uint64(w[pos])
				if lw == 2 {
					v |= uint64(w[pos+1]) << 32
				}
				fmt.Fprintf(&sb, " %d %%%d", v, w[pos+lw])
				pos += lw + 1
			}
		case 'k':
			sb.WriteString(" " + strings.TrimPrefix(OpName(uint16(w[pos])), "Op"))
			inner := uint16(w[pos])
			pos++
			nIDs := len(w) - pos
			switch inner {
			case opCompositeExtract:
				nIDs = 1
			case opCompositeInsert, opVectorShuffle:
				nIDs = 2
			}
			for k := 0; pos < len(w); pos, k = pos+1, k+1 {
				if k < nIDs {
					id(w[pos])
				} else {
					lit(w[pos])
				}
			}
		case 'e':
			if set := m.ExtImports[w[pos-1]]; set == "GLSL.std.450" {
				enum(glslNames, w[pos])
			} else {
				lit(w[pos])
			}
			pos++
		}
	}
	for ; pos < len(w); pos++ {
		lit(w[pos])
	}
	if resID != 0 {
		if n := m.Names[resID]; n != "" {
			fmt.Fprintf(&sb, " ; %s", n)
		}
	} else if in.Op == opDecorate || in.Op == opMemberDecorate || in.Op == opStore {
		if len(w) > 1 {
			if n := m.Names[w[1]]; n != "" {
				fmt.Fprintf(&sb, " ; %s", n)
			}
		}
	}
	return sb.String()
}

func (m *Module) typeOfSafe(id uint32) uint32 {
	if int(id) < len(m.TypeOf) {
		return m.TypeOf[id]
	}
	return 0
}

// literalString renders the literal of an OpConstant according to its type.
func (m *Module) literalString(typeID uint32, w []uint32) string {
	t := m.Types[typeID]
	if t == nil || len(w) == 0 {
		return fmt.Sprint(w)
	}
	b := uint64(w[0])
	if len(w) > 1 {
		b |= uint64(w[1]) << 32
	}
	switch t.Kind {
	case KindInt:
		b &= widthMask(t.Width)
		if t.Signed {
			return fmt.Sprint(sext(b, t.Width))
		}
		return fmt.Sprint(b)
	case KindFloat:
		switch t.Width {
		case 32:
			return fmt.Sprintf("%v(%#08x)", math.Float32frombits(uint32(b)), uint32(b))
		case 64:
			return fmt.Sprintf("%v(%#016x)", math.Float64frombits(b), b)
		case 16:
			return fmt.Sprintf("%v(%#04x)", f16ToF64(uint16(b)), uint16(b))
		}
	}
	return fmt.Sprintf("%#x", b)
}

func maskString(v uint32, names []string) string {
	if v == 0 {
		return "None"
	}
	var parts []string
	for i, n := range names {
		if v&(1<<uint(i)) != 0 {
			parts = append(parts, n)
			v &^= 1 << uint(i)
		}
	}
	if v != 0 {
		parts = append(parts, fmt.Sprintf("%#x", v))
	}
	return strings.Join(parts, "|")
}

var capabilityNames = map[uint32]string{
	0: "Matrix", 1: "Shader", 2: "Geometry", 3: "Tessellation", 4: "Addresses", 5: "Linkage", 6: "Kernel",
	9: "Float16", 10: "Float64", 11: "Int64", 12: "Int64Atomics", 22: "Int16", 25: "ImageGatherExtended",
	32: "ClipDistance", 33: "CullDistance", 34: "ImageCubeArray", 35: "SampleRateShading", 39: "Int8",
	43: "Sampled1D", 44: "Image1D", 45: "SampledCubeArray", 49: "StorageImageExtendedFormats",
	50: "ImageQuery", 51: "DerivativeControl", 61: "GroupNonUniform", 62: "GroupNonUniformVote",
	63: "GroupNonUniformArithmetic", 64: "GroupNonUniformBallot", 65: "GroupNonUniformShuffle",
	66: "GroupNonUniformShuffleRelative", 67: "GroupNonUniformClustered", 68: "GroupNonUniformQuad",
	4423: "SubgroupBallotKHR", 4433: "StorageBuffer16BitAccess", 4434: "UniformAndStorageBuffer16BitAccess",
	4435: "StoragePushConstant16", 4436: "StorageInputOutput16", 4439: "MultiView",
	4441: "VariablePointersStorageBuffer", 4442: "VariablePointers", 4472: "RayQueryKHR",
	5016: "Int64ImageEXT", 5283: "MeshShadingEXT", 5284: "FragmentBarycentricKHR", 5301: "ShaderNonUniform",
	5345: "VulkanMemoryModel", 6018: "DotProductInput4x8BitPacked", 6019: "DotProduct",
	6033: "AtomicFloat32AddEXT", 6017: "DotProductInput4x8Bit", 6016: "DotProductInputAll",
}

func capabilityName(c uint32) string {
	if n, ok := capabilityNames[c]; ok {
		return n
	}
	return fmt.Sprint(c)
}
