package spv

import (
	"math"
	"math/bits"
)

// opnd is an instruction operand prepared for component-wise evaluation.
type opnd struct {
	id uint32
	v  Value
	t  *Type
	st *Type // scalar type of a scalar or vector operand, nil otherwise
	n  int   // 0 scalar, >0 vector component count, -1 anything else
}

func (x *exec) operand(id uint32) opnd {
	o := opnd{id: id, v: x.valueOf(id), t: x.typeOfID(id), n: -1}
	switch o.t.Kind {
	case KindBool, KindInt, KindFloat:
		o.st, o.n = o.t, 0
		if o.v.K != kScalar {
			x.skipf("%%%d: value does not match its scalar type", id)
		}
	case KindVector:
		o.st, o.n = x.typ(o.t.Elem), o.t.Count
		if o.v.K != kComposite || len(o.v.Elems) != o.n {
			x.skipf("%%%d: value does not match its vector type", id)
		}
		for i := range o.v.Elems {
			if o.v.Elems[i].K != kScalar {
				x.skipf("%%%d: vector component is not a scalar", id)
			}
		}
	}
	return o
}

// bitsOf returns component i of an operand, trapping when it is undefined.
func (x *exec) bitsOf(o opnd, i int) uint64 {
	c := o.v
	if o.n > 0 {
		c = o.v.Elems[i]
	}
	if c.Undef {
		x.trapf("undefined value %s used as operand of %s", x.idName(o.id), OpName(x.cur.Op))
	}
	return c.Bits
}

// resultShape returns the scalar type and component count (0 = scalar) of a
// scalar-or-vector result type.
func (x *exec) resultShape(id uint32) (*Type, int) {
	rt := x.typ(id)
	switch rt.Kind {
	case KindBool, KindInt, KindFloat:
		return rt, 0
	case KindVector:
		return x.typ(rt.Elem), rt.Count
	}
	x.skipf("result type %%%d of %s is neither scalar nor vector", id, OpName(x.cur.Op))
	return nil, 0
}

// cw evaluates a component-wise operation.  f receives the operand bits and
// operand descriptors and the scalar result type.
func (x *exec) cw(in *Inst, ids []uint32, f func(a []uint64, o []opnd, rt *Type) uint64) {
	rst, n := x.resultShape(in.Words[1])
	ops := make([]opnd, len(ids))
	for i, id := range ids {
		ops[i] = x.operand(id)
		if ops[i].n != n {
			x.skipf("operand %%%d of %s does not have the shape of the result", id, OpName(in.Op))
		}
	}
	a := make([]uint64, len(ids))
	if n == 0 {
		for k := range ops {
			a[k] = x.bitsOf(ops[k], 0)
		}
		x.vals[in.Words[2]] = scalar(f(a, ops, rst))
		return
	}
	e := make([]Value, n)
	for i := 0; i < n; i++ {
		for k := range ops {
			a[k] = x.bitsOf(ops[k], i)
		}
		e[i] = scalar(f(a, ops, rst))
	}
	x.vals[in.Words[2]] = composite(e)
}

func b2u(b bool) uint64 {
	if b {
		return 1
	}
	return 0
}

func (x *exec) needInt(o opnd) {
	if o.st == nil || o.st.Kind != KindInt {
		x.skipf("operand %%%d of %s is not an integer", o.id, OpName(x.cur.Op))
	}
}

func (x *exec) needFloat(o opnd) {
	if o.st == nil || o.st.Kind != KindFloat {
		x.skipf("operand %%%d of %s is not a float", o.id, OpName(x.cur.Op))
	}
}

func (x *exec) needBool(o opnd) {
	if o.st == nil || o.st.Kind != KindBool {
		x.skipf("operand %%%d of %s is not a bool", o.id, OpName(x.cur.Op))
	}
}

// pure executes side-effect-free value operations.  It reports false for an
// opcode it does not know.
func (x *exec) pure(in *Inst) bool {
	w := in.Words
	x.cur = in
	intBin := func(f func(a, b uint64, wd int) uint64) {
		x.cw(in, w[3:5], func(a []uint64, o []opnd, rt *Type) uint64 {
			x.needInt(o[0])
			x.needInt(o[1])
			return f(a[0], a[1], rt.Width) & widthMask(rt.Width)
		})
	}
	intCmp := func(f func(a, b uint64, sa, sb int64) bool) {
		x.cw(in, w[3:5], func(a []uint64, o []opnd, rt *Type) uint64 {
			x.needInt(o[0])
			x.needInt(o[1])
			return b2u(f(a[0], a[1], sext(a[0], o[0].st.Width), sext(a[1], o[1].st.Width)))
		})
	}
	fltBin := func(f func(a, b float64) float64) {
		x.cw(in, w[3:5], func(a []uint64, o []opnd, rt *Type) uint64 {
			x.needFloat(o[0])
			x.needFloat(o[1])
			return fromF(f(toF(a[0], o[0].st.Width), toF(a[1], o[1].st.Width)), rt.Width)
		})
	}
	fltCmp := func(unord bool, f func(a, b float64) bool) {
		x.cw(in, w[3:5], func(a []uint64, o []opnd, rt *Type) uint64 {
			x.needFloat(o[0])
			x.needFloat(o[1])
			fa, fb := toF(a[0], o[0].st.Width), toF(a[1], o[1].st.Width)
			if fa != fa || fb != fb {
				return b2u(unord)
			}
			return b2u(f(fa, fb))
		})
	}
	boolBin := func(f func(a, b bool) bool) {
		x.cw(in, w[3:5], func(a []uint64, o []opnd, rt *Type) uint64 {
			x.needBool(o[0])
			x.needBool(o[1])
			return b2u(f(a[0] != 0, a[1] != 0))
		})
	}
	fltClass := func(f func(v float64, b uint64, wd int) bool) {
		x.cw(in, w[3:4], func(a []uint64, o []opnd, rt *Type) uint64 {
			x.needFloat(o[0])
			return b2u(f(toF(a[0], o[0].st.Width), a[0], o[0].st.Width))
		})
	}
	divCheck := func(name string, a, b uint64, o []opnd, signed bool) (int64, int64) {
		wd := o[0].st.Width
		if b == 0 {
			x.trapf("%s by zero (%d / 0)", name, sext(a, wd))
		}
		if !signed {
			return 0, 0
		}
		sa, sb := sext(a, wd), sext(b, o[1].st.Width)
		if sb == -1 && sa == -(int64(1)<<uint(wd-1)) {
			x.trapf("%s overflow: %d by -1", name, sa)
		}
		return sa, sb
	}
	switch in.Op {
	case opUndef:
		v, err := x.m.undefValue(x.typ(w[1]))
		if err != "" {
			x.skipf("OpUndef: %s", err)
		}
		x.vals[w[2]] = v
	case opCopyObject, opCopyLogical:
		x.vals[w[2]] = x.valueOf(w[3])

	// ---- integer arithmetic
	case opSNegate:
		x.cw(in, w[3:4], func(a []uint64, o []opnd, rt *Type) uint64 {
			x.needInt(o[0])
			return (-a[0]) & widthMask(rt.Width)
		})
	case opIAdd:
		intBin(func(a, b uint64, _ int) uint64 { return a + b })
	case opISub:
		intBin(func(a, b uint64, _ int) uint64 { return a - b })
	case opIMul:
		intBin(func(a, b uint64, _ int) uint64 { return a * b })
	case opUDiv:
		x.cw(in, w[3:5], func(a []uint64, o []opnd, rt *Type) uint64 {
			x.needInt(o[0])
			x.needInt(o[1])
			if a[1] == 0 {
				x.trapf("OpUDiv by zero (%d / 0)", a[0])
			}
			return (a[0] / a[1]) & widthMask(rt.Width)
		})
	case opUMod:
		x.cw(in, w[3:5], func(a []uint64, o []opnd, rt *Type) uint64 {
			x.needInt(o[0])
			x.needInt(o[1])
			if a[1] == 0 {
				x.trapf("OpUMod by zero (%d %% 0)", a[0])
			}
			return (a[0] % a[1]) & widthMask(rt.Width)
		})
	case opSDiv:
		x.cw(in, w[3:5], func(a []uint64, o []opnd, rt *Type) uint64 {
			x.needInt(o[0])
			x.needInt(o[1])
			sa, sb := divCheck("OpSDiv", a[0], a[1], o, true)
			return uint64(sa/sb) & widthMask(rt.Width)
		})
	case opSRem:
		x.cw(in, w[3:5], func(a []uint64, o []opnd, rt *Type) uint64 {
			x.needInt(o[0])
			x.needInt(o[1])
			sa, sb := divCheck("OpSRem", a[0], a[1], o, true)
			return uint64(sa%sb) & widthMask(rt.Width)
		})
	case opSMod:
		x.cw(in, w[3:5], func(a []uint64, o []opnd, rt *Type) uint64 {
			x.needInt(o[0])
			x.needInt(o[1])
			sa, sb := divCheck("OpSMod", a[0], a[1], o, true)
			r := sa % sb
			if r != 0 && (r < 0) != (sb < 0) {
				r += sb
			}
			return uint64(r) & widthMask(rt.Width)
		})
	case opIAddCarry, opISubBorrow, opUMulExtended, opSMulExtended:
		x.extendedArith(in)

	// ---- float arithmetic
	case opFNegate:
		x.cw(in, w[3:4], func(a []uint64, o []opnd, rt *Type) uint64 {
			x.needFloat(o[0])
			return a[0] ^ (1 << uint(rt.Width-1))
		})
	case opFAdd:
		fltBin(func(a, b float64) float64 { return a + b })
	case opFSub:
		fltBin(func(a, b float64) float64 { return a - b })
	case opFMul:
		fltBin(func(a, b float64) float64 { return a * b })
	case opFDiv:
		fltBin(func(a, b float64) float64 { return a / b })
	case opFRem:
		fltBin(func(a, b float64) float64 { return math.Mod(a, b) })
	case opFMod:
		fltBin(func(a, b float64) float64 {
			r := math.Mod(a, b)
			if r != 0 && (r < 0) != (b < 0) {
				r += b
			}
			return r
		})

	// ---- bit operations
	case opShiftLeftLogical, opShiftRightLogical, opShiftRightArithmetic:
		x.cw(in, w[3:5], func(a []uint64, o []opnd, rt *Type) uint64 {
			x.needInt(o[0])
			x.needInt(o[1])
			wd := o[0].st.Width
			if a[1] >= uint64(wd) {
				x.trapf("%s: shift count %d >= bit width %d", OpName(in.Op), a[1], wd)
			}
			switch in.Op {
			case opShiftLeftLogical:
				return (a[0] << a[1]) & widthMask(rt.Width)
			case opShiftRightLogical:
				return (a[0] >> a[1]) & widthMask(rt.Width)
			}
			return uint64(sext(a[0], wd)>>a[1]) & widthMask(rt.Width)
		})
	case opBitwiseOr:
		intBin(func(a, b uint64, _ int) uint64 { return a | b })
	case opBitwiseXor:
		intBin(func(a, b uint64, _ int) uint64 { return a ^ b })
	case opBitwiseAnd:
		intBin(func(a, b uint64, _ int) uint64 { return a & b })
	case opNot:
		x.cw(in, w[3:4], func(a []uint64, o []opnd, rt *Type) uint64 {
			x.needInt(o[0])
			return ^a[0] & widthMask(rt.Width)
		})
	case opBitReverse:
		x.cw(in, w[3:4], func(a []uint64, o []opnd, rt *Type) uint64 {
			x.needInt(o[0])
			return reverseBits(a[0], o[0].st.Width) & widthMask(rt.Width)
		})
	case opBitCount:
		x.cw(in, w[3:4], func(a []uint64, o []opnd, rt *Type) uint64 {
			x.needInt(o[0])
			return uint64(bits.OnesCount64(a[0]))
		})
	case opBitFieldInsert, opBitFieldSExtract, opBitFieldUExtract:
		x.bitField(in)

	// ---- comparisons and logic
	case opIEqual:
		intCmp(func(a, b uint64, _, _ int64) bool { return a == b })
	case opINotEqual:
		intCmp(func(a, b uint64, _, _ int64) bool { return a != b })
	case opUGreaterThan:
		intCmp(func(a, b uint64, _, _ int64) bool { return a > b })
	case opUGreaterThanEqual:
		intCmp(func(a, b uint64, _, _ int64) bool { return a >= b })
	case opULessThan:
		intCmp(func(a, b uint64, _, _ int64) bool { return a < b })
	case opULessThanEqual:
		intCmp(func(a, b uint64, _, _ int64) bool { return a <= b })
	case opSGreaterThan:
		intCmp(func(_, _ uint64, a, b int64) bool { return a > b })
	case opSGreaterThanEqual:
		intCmp(func(_, _ uint64, a, b int64) bool { return a >= b })
	case opSLessThan:
		intCmp(func(_, _ uint64, a, b int64) bool { return a < b })
	case opSLessThanEqual:
		intCmp(func(_, _ uint64, a, b int64) bool { return a <= b })
	case opFOrdEqual, opFUnordEqual:
		fltCmp(in.Op == opFUnordEqual, func(a, b float64) bool { return a == b })
	case opFOrdNotEqual, opFUnordNotEqual:
		fltCmp(in.Op == opFUnordNotEqual, func(a, b float64) bool { return a != b })
	case opFOrdLessThan, opFUnordLessThan:
		fltCmp(in.Op == opFUnordLessThan, func(a, b float64) bool { return a < b })
	case opFOrdGreaterThan, opFUnordGreaterThan:
		fltCmp(in.Op == opFUnordGreaterThan, func(a, b float64) bool { return a > b })
	case opFOrdLessThanEqual, opFUnordLessThanEqual:
		fltCmp(in.Op == opFUnordLessThanEqual, func(a, b float64) bool { return a <= b })
	case opFOrdGreaterThanEqual, opFUnordGreaterThanEqual:
		fltCmp(in.Op == opFUnordGreaterThanEqual, func(a, b float64) bool { return a >= b })
	case opLessOrGreater:
		fltCmp(false, func(a, b float64) bool { return a != b })
	case opOrdered:
		fltCmp(false, func(a, b float64) bool { return true })
	case opUnordered:
		fltCmp(true, func(a, b float64) bool { return false })
	case opLogicalEqual:
		boolBin(func(a, b bool) bool { return a == b })
	case opLogicalNotEqual:
		boolBin(func(a, b bool) bool { return a != b })
	case opLogicalOr:
		boolBin(func(a, b bool) bool { return a || b })
	case opLogicalAnd:
		boolBin(func(a, b bool) bool { return a && b })
	case opLogicalNot:
		x.cw(in, w[3:4], func(a []uint64, o []opnd, rt *Type) uint64 {
			x.needBool(o[0])
			return b2u(a[0] == 0)
		})
	case opAny, opAll:
		o := x.operand(w[3])
		if o.n <= 0 || o.st.Kind != KindBool {
			x.skipf("%s operand is not a bool vector", OpName(in.Op))
		}
		r := in.Op == opAll
		for i := 0; i < o.n; i++ {
			c := x.bitsOf(o, i) != 0
			if in.Op == opAll {
				r = r && c
			} else {
				r = r || c
			}
		}
		x.vals[w[2]] = boolVal(r)
	case opIsNan:
		fltClass(func(v float64, _ uint64, _ int) bool { return v != v })
	case opIsInf:
		fltClass(func(v float64, _ uint64, _ int) bool { return math.IsInf(v, 0) })
	case opIsFinite:
		fltClass(func(v float64, _ uint64, _ int) bool { return v == v && !math.IsInf(v, 0) })
	case opIsNormal:
		fltClass(func(v float64, b uint64, wd int) bool {
			eb := map[int]uint{16: 5, 32: 8, 64: 11}[wd]
			e := (b >> (uint(wd) - 1 - eb)) & (1<<eb - 1)
			return e != 0 && e != 1<<eb-1
		})
	case opSignBitSet:
		fltClass(func(_ float64, b uint64, wd int) bool { return b>>uint(wd-1)&1 != 0 })
	case opSelect:
		x.selectOp(in)

	// ---- conversions
	case opConvertFToU, opConvertFToS:
		x.cw(in, w[3:4], func(a []uint64, o []opnd, rt *Type) uint64 {
			x.needFloat(o[0])
			if rt.Kind != KindInt {
				x.skipf("%s result is not an integer", OpName(in.Op))
			}
			f := toF(a[0], o[0].st.Width)
			if f != f || math.IsInf(f, 0) {
				x.trapf("%s: float-to-int conversion of %v", OpName(in.Op), f)
			}
			t := math.Trunc(f)
			if in.Op == opConvertFToU {
				if t < 0 || t >= math.Ldexp(1, rt.Width) {
					x.trapf("OpConvertFToU: %v is not representable in a %d-bit unsigned integer", f, rt.Width)
				}
				if t >= math.Ldexp(1, 63) {
					return uint64(t-math.Ldexp(1, 63)) | 1<<63
				}
				return uint64(t)
			}
			if t < -math.Ldexp(1, rt.Width-1) || t >= math.Ldexp(1, rt.Width-1) {
				x.trapf("OpConvertFToS: %v is not representable in a %d-bit signed integer", f, rt.Width)
			}
			return uint64(int64(t)) & widthMask(rt.Width)
		})
	case opConvertSToF, opConvertUToF:
		x.cw(in, w[3:4], func(a []uint64, o []opnd, rt *Type) uint64 {
			x.needInt(o[0])
			if rt.Kind != KindFloat {
				x.skipf("%s result is not a float", OpName(in.Op))
			}
			if in.Op == opConvertSToF {
				s := sext(a[0], o[0].st.Width)
				if rt.Width == 32 {
					return uint64(math.Float32bits(float32(s)))
				}
				return fromF(float64(s), rt.Width)
			}
			if rt.Width == 32 {
				return uint64(math.Float32bits(float32(a[0])))
			}
			return fromF(float64(a[0]), rt.Width)
		})
	case opUConvert:
		x.cw(in, w[3:4], func(a []uint64, o []opnd, rt *Type) uint64 {
			x.needInt(o[0])
			return a[0] & widthMask(rt.Width)
		})
	case opSConvert:
		x.cw(in, w[3:4], func(a []uint64, o []opnd, rt *Type) uint64 {
			x.needInt(o[0])
			return uint64(sext(a[0], o[0].st.Width)) & widthMask(rt.Width)
		})
	case opFConvert:
		x.cw(in, w[3:4], func(a []uint64, o []opnd, rt *Type) uint64 {
			x.needFloat(o[0])
			return fromF(toF(a[0], o[0].st.Width), rt.Width)
		})
	case opQuantizeToF16:
		x.cw(in, w[3:4], func(a []uint64, o []opnd, rt *Type) uint64 {
			x.needFloat(o[0])
			f := toF(a[0], o[0].st.Width)
			h := f64ToF16(f)
			if h&0x7c00 == 0 {
				h &= 0x8000 // too small for a normalised binary16: signed zero
			}
			return fromF(f16ToF64(h), rt.Width)
		})
	case opBitcast:
		x.bitcast(in)

	// ---- composites
	case opCompositeConstruct:
		rt := x.typ(w[1])
		var e []Value
		for _, id := range w[3:] {
			v := x.valueOf(id)
			if rt.Kind == KindVector && v.K == kComposite {
				e = append(e, v.Elems...)
			} else {
				e = append(e, v)
			}
		}
		want := rt.Count
		if rt.Kind == KindStruct {
			want = len(rt.Members)
		}
		if want != len(e) {
			x.skipf("OpCompositeConstruct of %%%d with %d constituents, type needs %d", w[1], len(e), want)
		}
		x.vals[w[2]] = composite(e)
	case opCompositeExtract:
		v := x.valueOf(w[3])
		for _, i := range w[4:] {
			if v.K != kComposite || int(i) >= len(v.Elems) {
				x.trapf("OpCompositeExtract index %d out of range of %d", i, len(v.Elems))
			}
			v = v.Elems[i]
		}
		x.vals[w[2]] = v
	case opCompositeInsert:
		obj := x.valueOf(w[3])
		x.vals[w[2]] = x.insertAt(x.valueOf(w[4]), w[5:], obj)
	case opVectorShuffle:
		a, b := x.operand(w[3]), x.operand(w[4])
		if a.n <= 0 || b.n <= 0 {
			x.skipf("OpVectorShuffle operands are not vectors")
		}
		all := append(append([]Value(nil), a.v.Elems...), b.v.Elems...)
		e := make([]Value, 0, len(w)-5)
		for _, c := range w[5:] {
			switch {
			case c == 0xFFFFFFFF:
				e = append(e, Value{K: kScalar, Undef: true})
			case int(c) < len(all):
				e = append(e, all[c])
			default:
				x.trapf("OpVectorShuffle component %d out of range of %d", c, len(all))
			}
		}
		x.vals[w[2]] = composite(e)
	case opVectorExtractDynamic:
		v, i := x.operand(w[3]), x.operand(w[4])
		if v.n <= 0 || i.n != 0 || i.st.Kind != KindInt {
			x.skipf("OpVectorExtractDynamic operands malformed")
		}
		idx := x.dynIndex(i, v.n, "OpVectorExtractDynamic")
		x.vals[w[2]] = v.v.Elems[idx]
	case opVectorInsertDynamic:
		v, i := x.operand(w[3]), x.operand(w[5])
		if v.n <= 0 || i.n != 0 || i.st.Kind != KindInt {
			x.skipf("OpVectorInsertDynamic operands malformed")
		}
		idx := x.dynIndex(i, v.n, "OpVectorInsertDynamic")
		e := append([]Value(nil), v.v.Elems...)
		e[idx] = x.valueOf(w[4])
		x.vals[w[2]] = composite(e)
	case opTranspose:
		mv := x.valueOf(w[3])
		mt := x.typeOfID(w[3])
		if mt.Kind != KindMatrix || mv.K != kComposite {
			x.skipf("OpTranspose operand is not a matrix")
		}
		rows := x.typ(mt.Elem).Count
		e := make([]Value, rows)
		for r := 0; r < rows; r++ {
			col := make([]Value, mt.Count)
			for c := 0; c < mt.Count; c++ {
				col[c] = mv.Elems[c].Elems[r]
			}
			e[r] = composite(col)
		}
		x.vals[w[2]] = composite(e)

	// ---- linear algebra
	case opDot:
		a, wd := x.vecF(w[3])
		b, _ := x.vecF(w[4])
		if len(a) != len(b) {
			x.skipf("OpDot operands differ in size")
		}
		x.vals[w[2]] = scalar(fromF(dotF(a, b, wd), wd))
	case opVectorTimesScalar:
		a, wd := x.vecF(w[3])
		s := x.scalarF(w[4])
		r := make([]float64, len(a))
		for i := range a {
			r[i] = rnd(a[i]*s, wd)
		}
		x.vals[w[2]] = mkVecF(r, wd)
	case opMatrixTimesScalar:
		a, wd := x.matF(w[3])
		s := x.scalarF(w[4])
		r := make([][]float64, len(a))
		for c := range a {
			r[c] = make([]float64, len(a[c]))
			for i := range a[c] {
				r[c][i] = rnd(a[c][i]*s, wd)
			}
		}
		x.vals[w[2]] = mkMatF(r, wd)
	case opVectorTimesMatrix:
		v, wd := x.vecF(w[3])
		mt, _ := x.matF(w[4])
		r := make([]float64, len(mt))
		for c := range mt {
			if len(mt[c]) != len(v) {
				x.skipf("OpVectorTimesMatrix shape mismatch")
			}
			r[c] = dotF(v, mt[c], wd)
		}
		x.vals[w[2]] = mkVecF(r, wd)
	case opMatrixTimesVector:
		mt, wd := x.matF(w[3])
		v, _ := x.vecF(w[4])
		x.vals[w[2]] = mkVecF(x.matVec(mt, v, wd), wd)
	case opMatrixTimesMatrix:
		l, wd := x.matF(w[3])
		r, _ := x.matF(w[4])
		out := make([][]float64, len(r))
		for j := range r {
			out[j] = x.matVec(l, r[j], wd)
		}
		x.vals[w[2]] = mkMatF(out, wd)
	case opOuterProduct:
		a, wd := x.vecF(w[3])
		b, _ := x.vecF(w[4])
		out := make([][]float64, len(b))
		for j := range b {
			out[j] = make([]float64, len(a))
			for i := range a {
				out[j][i] = rnd(a[i]*b[j], wd)
			}
		}
		x.vals[w[2]] = mkMatF(out, wd)
	case opSDot, opUDot, opSUDot:
		x.intDot(in)
	default:
		return false
	}
	return true
}

func (x *exec) dynIndex(i opnd, n int, what string) int {
	b := x.bitsOf(i, 0)
	idx := int64(b)
	if i.st.Signed {
		idx = sext(b, i.st.Width)
	}
	if idx < 0 || idx >= int64(n) {
		x.trapf("%s: index %d out of range of %d components", what, idx, n)
	}
	return int(idx)
}

func (x *exec) insertAt(c Value, path []uint32, obj Value) Value {
	if len(path) == 0 {
		return obj
	}
	if c.K != kComposite || int(path[0]) >= len(c.Elems) {
		x.trapf("OpCompositeInsert index %d out of range of %d", path[0], len(c.Elems))
	}
	e := append([]Value(nil), c.Elems...)
	e[path[0]] = x.insertAt(c.Elems[path[0]], path[1:], obj)
	return composite(e)
}

func (x *exec) selectOp(in *Inst) {
	w := in.Words
	c := x.operand(w[3])
	if c.st == nil || c.st.Kind != KindBool {
		x.skipf("OpSelect condition is not bool")
	}
	a, b := x.valueOf(w[4]), x.valueOf(w[5])
	if c.n == 0 {
		if x.bitsOf(c, 0) != 0 {
			x.vals[w[2]] = a
		} else {
			x.vals[w[2]] = b
		}
		return
	}
	if a.K != kComposite || b.K != kComposite || len(a.Elems) != c.n || len(b.Elems) != c.n {
		x.skipf("OpSelect with vector condition needs vector objects of the same size")
	}
	e := make([]Value, c.n)
	for i := range e {
		if x.bitsOf(c, i) != 0 {
			e[i] = a.Elems[i]
		} else {
			e[i] = b.Elems[i]
		}
	}
	x.vals[w[2]] = composite(e)
}

func (x *exec) bitField(in *Inst) {
	w := in.Words
	rst, n := x.resultShape(w[1])
	if rst.Kind != KindInt {
		x.skipf("%s result is not an integer", OpName(in.Op))
	}
	base := x.operand(w[3])
	x.needInt(base)
	var ins opnd
	k := 4
	if in.Op == opBitFieldInsert {
		ins = x.operand(w[4])
		x.needInt(ins)
		k = 5
	}
	offO, cntO := x.operand(w[k]), x.operand(w[k+1])
	if offO.n != 0 || cntO.n != 0 || base.n != n || (in.Op == opBitFieldInsert && ins.n != n) {
		x.skipf("%s operand shapes malformed", OpName(in.Op))
	}
	x.needInt(offO)
	x.needInt(cntO)
	off, cnt := x.bitsOf(offO, 0), x.bitsOf(cntO, 0)
	wd := uint64(rst.Width)
	if off > wd || cnt > wd || off+cnt > wd {
		x.trapf("%s: offset %d + count %d > bit width %d", OpName(in.Op), off, cnt, wd)
	}
	one := func(i int) uint64 {
		b := x.bitsOf(base, i)
		fm := widthMask(int(cnt)) // cnt == 0 -> 0
		if cnt == 0 {
			fm = 0
		}
		switch in.Op {
		case opBitFieldInsert:
			v := x.bitsOf(ins, i)
			return (b&^(fm<<off) | (v&fm)<<off) & widthMask(rst.Width)
		case opBitFieldUExtract:
			return (b >> off) & fm
		}
		if cnt == 0 {
			return 0
		}
		return uint64(sext((b>>off)&fm, int(cnt))) & widthMask(rst.Width)
	}
	if n == 0 {
		x.vals[w[2]] = scalar(one(0))
		return
	}
	e := make([]Value, n)
	for i := range e {
		e[i] = scalar(one(i))
	}
	x.vals[w[2]] = composite(e)
}

// bitcast reinterprets the bits of a scalar or vector; component 0 supplies
// the lowest-order bits when component counts differ.
func (x *exec) bitcast(in *Inst) {
	w := in.Words
	o := x.operand(w[3])
	rt := x.typ(w[1])
	if o.n < 0 || o.st.Kind == KindBool {
		x.skipf("OpBitcast of type %%%d (%s) not supported", o.t.ID, o.t.Kind)
	}
	rst, rn := x.resultShape(w[1])
	if rst.Kind == KindBool {
		x.skipf("OpBitcast to bool")
	}
	_ = rt
	var bytes []byte
	cnt := o.n
	if cnt == 0 {
		cnt = 1
	}
	for i := 0; i < cnt; i++ {
		b := x.bitsOf(o, i)
		for k := 0; k < o.st.Width/8; k++ {
			bytes = append(bytes, byte(b>>(8*uint(k))))
		}
	}
	rcnt := rn
	if rcnt == 0 {
		rcnt = 1
	}
	rb := rst.Width / 8
	if rb == 0 || rcnt*rb != len(bytes) {
		x.skipf("OpBitcast between %d and %d bits", len(bytes)*8, rcnt*rst.Width)
	}
	e := make([]Value, rcnt)
	for i := range e {
		var b uint64
		for k := rb - 1; k >= 0; k-- {
			b = b<<8 | uint64(bytes[i*rb+k])
		}
		e[i] = scalar(b)
	}
	if rn == 0 {
		x.vals[w[2]] = e[0]
	} else {
		x.vals[w[2]] = composite(e)
	}
}

// extendedArith: OpIAddCarry, OpISubBorrow, OpUMulExtended, OpSMulExtended.
func (x *exec) extendedArith(in *Inst) {
	w := in.Words
	rt := x.typ(w[1])
	if rt.Kind != KindStruct || len(rt.Members) != 2 {
		x.skipf("%s result type is not a two-member struct", OpName(in.Op))
	}
	a, b := x.operand(w[3]), x.operand(w[4])
	x.needInt(a)
	x.needInt(b)
	if a.n != b.n || a.n < 0 {
		x.skipf("%s operand shapes differ", OpName(in.Op))
	}
	wd := a.st.Width
	if wd > 32 {
		x.skipf("%s on %d-bit integers not supported", OpName(in.Op), wd)
	}
	one := func(i int) (uint64, uint64) {
		p, q := x.bitsOf(a, i), x.bitsOf(b, i)
		var full uint64
		switch in.Op {
		case opIAddCarry:
			full = p + q
			return full & widthMask(wd), (full >> uint(wd)) & 1
		case opISubBorrow:
			return (p - q) & widthMask(wd), b2u(p < q)
		case opUMulExtended:
			full = p * q
		default:
			full = uint64(sext(p, wd) * sext(q, wd))
		}
		return full & widthMask(wd), (full >> uint(wd)) & widthMask(wd)
	}
	if a.n == 0 {
		lo, hi := one(0)
		x.vals[w[2]] = composite([]Value{scalar(lo), scalar(hi)})
		return
	}
	los, his := make([]Value, a.n), make([]Value, a.n)
	for i := 0; i < a.n; i++ {
		lo, hi := one(i)
		los[i], his[i] = scalar(lo), scalar(hi)
	}
	x.vals[w[2]] = composite([]Value{composite(los), composite(his)})
}

// intDot: OpSDot / OpUDot / OpSUDot (SPV_KHR_integer_dot_product, core in 1.6).
func (x *exec) intDot(in *Inst) {
	w := in.Words
	rst, rn := x.resultShape(w[1])
	if rn != 0 || rst.Kind != KindInt {
		x.skipf("%s result is not an integer scalar", OpName(in.Op))
	}
	a, b := x.operand(w[3]), x.operand(w[4])
	x.needInt(a)
	x.needInt(b)
	s1 := in.Op == opSDot || in.Op == opSUDot
	s2 := in.Op == opSDot
	ext := func(v uint64, wd int, signed bool) int64 {
		if signed {
			return sext(v, wd)
		}
		return int64(v)
	}
	var sum int64
	if a.n == 0 && b.n == 0 {
		if len(w) < 6 || w[5] != 0 || a.st.Width != 32 {
			x.skipf("%s on scalars needs PackedVectorFormat4x8Bit", OpName(in.Op))
		}
		p, q := x.bitsOf(a, 0), x.bitsOf(b, 0)
		for k := 0; k < 4; k++ {
			sum += ext(p>>(8*uint(k))&0xff, 8, s1) * ext(q>>(8*uint(k))&0xff, 8, s2)
		}
	} else {
		if a.n != b.n || a.n <= 0 {
			x.skipf("%s operand shapes differ", OpName(in.Op))
		}
		if a.st.Width > 32 {
			x.skipf("%s on %d-bit components not supported", OpName(in.Op), a.st.Width)
		}
		for i := 0; i < a.n; i++ {
			sum += ext(x.bitsOf(a, i), a.st.Width, s1) * ext(x.bitsOf(b, i), b.st.Width, s2)
		}
	}
	x.vals[w[2]] = scalar(uint64(sum) & widthMask(rst.Width))
}

// ---------------------------------------------------------------------------
// Float vector / matrix helpers (values widened to float64, width returned).

func (x *exec) scalarF(id uint32) float64 {
	o := x.operand(id)
	if o.n != 0 || o.st.Kind != KindFloat {
		x.skipf("operand %%%d of %s is not a float scalar", id, OpName(x.cur.Op))
	}
	return toF(x.bitsOf(o, 0), o.st.Width)
}

func (x *exec) vecF(id uint32) ([]float64, int) {
	o := x.operand(id)
	if o.n <= 0 || o.st.Kind != KindFloat {
		x.skipf("operand %%%d of %s is not a float vector", id, OpName(x.cur.Op))
	}
	r := make([]float64, o.n)
	for i := range r {
		r[i] = toF(x.bitsOf(o, i), o.st.Width)
	}
	return r, o.st.Width
}

// matF returns the columns of a float matrix.
func (x *exec) matF(id uint32) ([][]float64, int) {
	v := x.valueOf(id)
	t := x.typeOfID(id)
	if t.Kind != KindMatrix || v.K != kComposite || len(v.Elems) != t.Count {
		x.skipf("operand %%%d of %s is not a matrix", id, OpName(x.cur.Op))
	}
	ct := x.typ(t.Elem)
	st := x.typ(ct.Elem)
	if st.Kind != KindFloat {
		x.skipf("matrix %%%d is not made of floats", id)
	}
	cols := make([][]float64, t.Count)
	for c := range cols {
		cv := v.Elems[c]
		if cv.K != kComposite || len(cv.Elems) != ct.Count {
			x.skipf("matrix %%%d column value malformed", id)
		}
		cols[c] = make([]float64, ct.Count)
		for r := range cols[c] {
			if cv.Elems[r].Undef {
				x.trapf("undefined value %s used as operand of %s", x.idName(id), OpName(x.cur.Op))
			}
			cols[c][r] = toF(cv.Elems[r].Bits, st.Width)
		}
	}
	return cols, st.Width
}

func mkVecF(f []float64, w int) Value {
	e := make([]Value, len(f))
	for i := range f {
		e[i] = scalar(fromF(f[i], w))
	}
	return composite(e)
}

func mkMatF(cols [][]float64, w int) Value {
	e := make([]Value, len(cols))
	for i := range cols {
		e[i] = mkVecF(cols[i], w)
	}
	return composite(e)
}

// dotF is the sum of products evaluated left to right, every product and
// every partial sum rounded to width w.
func dotF(a, b []float64, w int) float64 {
	s := rnd(a[0]*b[0], w)
	for i := 1; i < len(a); i++ {
		s = rnd(s+rnd(a[i]*b[i], w), w)
	}
	return s
}

// matVec computes M * v: result[r] = sum over columns c of M[c][r] * v[c].
func (x *exec) matVec(mt [][]float64, v []float64, w int) []float64 {
	if len(mt) != len(v) || len(mt) == 0 {
		x.skipf("%s shape mismatch", OpName(x.cur.Op))
	}
	r := make([]float64, len(mt[0]))
	for i := range r {
		s := rnd(mt[0][i]*v[0], w)
		for c := 1; c < len(mt); c++ {
			s = rnd(s+rnd(mt[c][i]*v[c], w), w)
		}
		r[i] = s
	}
	return r
}
