package spv

import (
	"math"
	"math/bits"
)

// extInst executes OpExtInst of the GLSL.std.450 set.
func (x *exec) extInst(in *Inst) {
	w := in.Words
	if len(w) < 5 {
		x.skipf("short OpExtInst")
	}
	set := x.m.ExtImports[w[3]]
	if set != "GLSL.std.450" {
		x.skipf("OpExtInst of set %q not supported", set)
	}
	num := w[4]
	args := w[5:]
	name := glslNames[num]
	need := func(n int) {
		if len(args) != n {
			x.skipf("GLSL.std.450 %s with %d operands, expects %d", name, len(args), n)
		}
	}
	// f1/f2/f3: component-wise float functions computed in float64 and rounded once.
	f1 := func(f func(a float64, wd int) float64) {
		need(1)
		x.cw(in, args, func(a []uint64, o []opnd, rt *Type) uint64 {
			x.needFloat(o[0])
			return fromF(f(toF(a[0], o[0].st.Width), rt.Width), rt.Width)
		})
	}
	f2 := func(f func(a, b float64, wd int) float64) {
		need(2)
		x.cw(in, args, func(a []uint64, o []opnd, rt *Type) uint64 {
			x.needFloat(o[0])
			x.needFloat(o[1])
			return fromF(f(toF(a[0], o[0].st.Width), toF(a[1], o[1].st.Width), rt.Width), rt.Width)
		})
	}
	f3 := func(f func(a, b, c float64, wd int) float64) {
		need(3)
		x.cw(in, args, func(a []uint64, o []opnd, rt *Type) uint64 {
			x.needFloat(o[0])
			x.needFloat(o[1])
			x.needFloat(o[2])
			return fromF(f(toF(a[0], o[0].st.Width), toF(a[1], o[1].st.Width), toF(a[2], o[2].st.Width), rt.Width), rt.Width)
		})
	}
	i1 := func(f func(a uint64, s int64, wd int) uint64) {
		need(1)
		x.cw(in, args, func(a []uint64, o []opnd, rt *Type) uint64 {
			x.needInt(o[0])
			return f(a[0], sext(a[0], o[0].st.Width), o[0].st.Width) & widthMask(rt.Width)
		})
	}
	i2 := func(signed bool, f func(a, b int64) int64, g func(a, b uint64) uint64) {
		need(2)
		x.cw(in, args, func(a []uint64, o []opnd, rt *Type) uint64 {
			x.needInt(o[0])
			x.needInt(o[1])
			if signed {
				return uint64(f(sext(a[0], o[0].st.Width), sext(a[1], o[1].st.Width))) & widthMask(rt.Width)
			}
			return g(a[0], a[1]) & widthMask(rt.Width)
		})
	}
	fmin := func(a, b float64) float64 { // GLSL: y < x ? y : x
		if b < a {
			return b
		}
		return a
	}
	fmax := func(a, b float64) float64 { // GLSL: x < y ? y : x
		if a < b {
			return b
		}
		return a
	}
	switch num {
	case glRound, glRoundEven:
		// Round leaves the direction of halfway cases to the implementation;
		// round-half-to-even is what hardware does.
		f1(func(a float64, _ int) float64 { return math.RoundToEven(a) })
	case glTrunc:
		f1(func(a float64, _ int) float64 { return math.Trunc(a) })
	case glFAbs:
		f1(func(a float64, _ int) float64 { return math.Abs(a) })
	case glSAbs:
		i1(func(a uint64, s int64, _ int) uint64 {
			if s < 0 {
				return -a
			}
			return a
		})
	case glFSign:
		f1(func(a float64, _ int) float64 {
			switch {
			case a > 0:
				return 1
			case a < 0:
				return -1
			}
			return 0
		})
	case glSSign:
		i1(func(_ uint64, s int64, _ int) uint64 {
			switch {
			case s > 0:
				return 1
			case s < 0:
				return ^uint64(0)
			}
			return 0
		})
	case glFloor:
		f1(func(a float64, _ int) float64 { return math.Floor(a) })
	case glCeil:
		f1(func(a float64, _ int) float64 { return math.Ceil(a) })
	case glFract:
		f1(func(a float64, _ int) float64 { return a - math.Floor(a) })
	case glRadians:
		f1(func(a float64, wd int) float64 { return a * rnd(math.Pi/180, wd) })
	case glDegrees:
		f1(func(a float64, wd int) float64 { return a * rnd(180/math.Pi, wd) })
	case glSin:
		f1(func(a float64, _ int) float64 { return math.Sin(a) })
	case glCos:
		f1(func(a float64, _ int) float64 { return math.Cos(a) })
	case glTan:
		f1(func(a float64, _ int) float64 { return math.Tan(a) })
	case glAsin:
		f1(func(a float64, _ int) float64 { return math.Asin(a) })
	case glAcos:
		f1(func(a float64, _ int) float64 { return math.Acos(a) })
	case glAtan:
		f1(func(a float64, _ int) float64 { return math.Atan(a) })
	case glSinh:
		f1(func(a float64, _ int) float64 { return math.Sinh(a) })
	case glCosh:
		f1(func(a float64, _ int) float64 { return math.Cosh(a) })
	case glTanh:
		f1(func(a float64, _ int) float64 { return math.Tanh(a) })
	case glAsinh:
		f1(func(a float64, _ int) float64 { return math.Asinh(a) })
	case glAcosh:
		f1(func(a float64, _ int) float64 { return math.Acosh(a) })
	case glAtanh:
		f1(func(a float64, _ int) float64 { return math.Atanh(a) })
	case glAtan2:
		f2(func(a, b float64, _ int) float64 { return math.Atan2(a, b) })
	case glPow:
		f2(func(a, b float64, _ int) float64 {
			if a < 0 {
				x.trapf("GLSL.std.450 Pow: x = %v < 0 (result undefined)", a)
			}
			if a == 0 && b <= 0 {
				x.trapf("GLSL.std.450 Pow: x = 0 and y = %v <= 0 (result undefined)", b)
			}
			return math.Pow(a, b)
		})
	case glExp:
		f1(func(a float64, _ int) float64 { return math.Exp(a) })
	case glLog:
		f1(func(a float64, _ int) float64 { return math.Log(a) })
	case glExp2:
		f1(func(a float64, _ int) float64 { return math.Exp2(a) })
	case glLog2:
		f1(func(a float64, _ int) float64 { return math.Log2(a) })
	case glSqrt:
		f1(func(a float64, _ int) float64 { return math.Sqrt(a) })
	case glInverseSqrt:
		f1(func(a float64, _ int) float64 { return 1 / math.Sqrt(a) })
	case glFMin, glNMin:
		f2(func(a, b float64, _ int) float64 {
			if num == glNMin {
				if a != a {
					return b
				}
				if b != b {
					return a
				}
			}
			return fmin(a, b)
		})
	case glFMax, glNMax:
		f2(func(a, b float64, _ int) float64 {
			if num == glNMax {
				if a != a {
					return b
				}
				if b != b {
					return a
				}
			}
			return fmax(a, b)
		})
	case glUMin:
		i2(false, nil, func(a, b uint64) uint64 { return min(a, b) })
	case glUMax:
		i2(false, nil, func(a, b uint64) uint64 { return max(a, b) })
	case glSMin:
		i2(true, func(a, b int64) int64 { return min(a, b) }, nil)
	case glSMax:
		i2(true, func(a, b int64) int64 { return max(a, b) }, nil)
	case glFClamp, glNClamp:
		f3(func(v, lo, hi float64, _ int) float64 {
			if lo > hi {
				x.trapf("GLSL.std.450 %s: minVal %v > maxVal %v (result undefined)", name, lo, hi)
			}
			if num == glNClamp && v != v {
				return lo
			}
			return fmin(fmax(v, lo), hi)
		})
	case glUClamp, glSClamp:
		need(3)
		x.cw(in, args, func(a []uint64, o []opnd, rt *Type) uint64 {
			for k := 0; k < 3; k++ {
				x.needInt(o[k])
			}
			if num == glUClamp {
				if a[1] > a[2] {
					x.trapf("GLSL.std.450 UClamp: minVal %d > maxVal %d (result undefined)", a[1], a[2])
				}
				return min(max(a[0], a[1]), a[2]) & widthMask(rt.Width)
			}
			v, lo, hi := sext(a[0], o[0].st.Width), sext(a[1], o[1].st.Width), sext(a[2], o[2].st.Width)
			if lo > hi {
				x.trapf("GLSL.std.450 SClamp: minVal %d > maxVal %d (result undefined)", lo, hi)
			}
			return uint64(min(max(v, lo), hi)) & widthMask(rt.Width)
		})
	case glFMix:
		// x * (1 - a) + y * a, every operation rounded.
		f3(func(p, q, a float64, wd int) float64 {
			return rnd(p*rnd(1-a, wd), wd) + rnd(q*a, wd)
		})
	case glStep:
		f2(func(edge, v float64, _ int) float64 {
			if v < edge {
				return 0
			}
			return 1
		})
	case glSmoothStep:
		f3(func(e0, e1, v float64, wd int) float64 {
			if e0 >= e1 {
				x.trapf("GLSL.std.450 SmoothStep: edge0 %v >= edge1 %v (result undefined)", e0, e1)
			}
			t := rnd(rnd(v-e0, wd)/rnd(e1-e0, wd), wd)
			t = fmin(fmax(t, 0), 1)
			return rnd(t*t, wd) * rnd(3-rnd(2*t, wd), wd)
		})
	case glFma:
		f3(func(a, b, c float64, wd int) float64 { return fmaRound(a, b, c, wd) })
	case glLdexp:
		need(2)
		x.cw(in, args, func(a []uint64, o []opnd, rt *Type) uint64 {
			x.needFloat(o[0])
			x.needInt(o[1])
			e := sext(a[1], o[1].st.Width)
			e = max(min(e, 4096), -4096)
			return fromF(math.Ldexp(toF(a[0], o[0].st.Width), int(e)), rt.Width)
		})
	case glFrexp, glModf:
		need(2)
		o := x.operand(args[0])
		x.needFloat(o)
		p := x.ptrOf(args[1])
		n := max(o.n, 1)
		first, second := make([]Value, n), make([]Value, n)
		ot := p.t
		ost := x.m.scalarOf(ot)
		for i := 0; i < n; i++ {
			f := toF(x.bitsOf(o, i), o.st.Width)
			if num == glFrexp {
				fr, e := frexp(f)
				first[i] = scalar(fromF(fr, o.st.Width))
				second[i] = scalar(uint64(int64(e)) & widthMask(ost.Width))
			} else {
				whole := math.Trunc(f)
				first[i] = scalar(fromF(modfFract(f, whole), o.st.Width))
				second[i] = scalar(fromF(whole, ost.Width))
			}
		}
		if o.n == 0 {
			x.store(p, second[0])
			x.vals[w[2]] = first[0]
		} else {
			x.store(p, composite(second))
			x.vals[w[2]] = composite(first)
		}
	case glFrexpStruct, glModfStruct:
		need(1)
		o := x.operand(args[0])
		x.needFloat(o)
		rt := x.typ(w[1])
		if rt.Kind != KindStruct || len(rt.Members) != 2 {
			x.skipf("%s result type is not a two-member struct", name)
		}
		sst := x.m.scalarOf(x.typ(rt.Members[1]))
		n := max(o.n, 1)
		first, second := make([]Value, n), make([]Value, n)
		for i := 0; i < n; i++ {
			f := toF(x.bitsOf(o, i), o.st.Width)
			if num == glFrexpStruct {
				fr, e := frexp(f)
				first[i] = scalar(fromF(fr, o.st.Width))
				second[i] = scalar(uint64(int64(e)) & widthMask(sst.Width))
			} else {
				whole := math.Trunc(f)
				first[i] = scalar(fromF(modfFract(f, whole), o.st.Width))
				second[i] = scalar(fromF(whole, sst.Width))
			}
		}
		if o.n == 0 {
			x.vals[w[2]] = composite([]Value{first[0], second[0]})
		} else {
			x.vals[w[2]] = composite([]Value{composite(first), composite(second)})
		}

	// ---- geometric
	case glLength:
		need(1)
		v, wd := x.floats(args[0])
		x.vals[w[2]] = scalar(fromF(lengthF(v, wd), wd))
	case glDistance:
		need(2)
		a, wd := x.floats(args[0])
		b, _ := x.floats(args[1])
		d := make([]float64, len(a))
		for i := range a {
			d[i] = rnd(a[i]-b[i], wd)
		}
		x.vals[w[2]] = scalar(fromF(lengthF(d, wd), wd))
	case glCross:
		need(2)
		a, wd := x.vecF(args[0])
		b, _ := x.vecF(args[1])
		if len(a) != 3 || len(b) != 3 {
			x.skipf("Cross of non-3-component vectors")
		}
		c := func(i, j int) float64 { return rnd(rnd(a[i]*b[j], wd)-rnd(a[j]*b[i], wd), wd) }
		x.vals[w[2]] = mkVecF([]float64{c(1, 2), c(2, 0), c(0, 1)}, wd)
	case glNormalize:
		need(1)
		v, wd := x.floats(args[0])
		l := lengthF(v, wd)
		r := make([]float64, len(v))
		for i := range v {
			r[i] = rnd(v[i]/l, wd)
		}
		x.setFloats(in, r, wd)
	case glFaceForward:
		need(3)
		n, wd := x.floats(args[0])
		i, _ := x.floats(args[1])
		nref, _ := x.floats(args[2])
		r := append([]float64(nil), n...)
		if !(dotF(nref, i, wd) < 0) {
			for k := range r {
				r[k] = -r[k]
			}
		}
		x.setFloats(in, r, wd)
	case glReflect:
		need(2)
		i, wd := x.floats(args[0])
		n, _ := x.floats(args[1])
		d := rnd(2*dotF(n, i, wd), wd)
		r := make([]float64, len(i))
		for k := range r {
			r[k] = rnd(i[k]-rnd(d*n[k], wd), wd)
		}
		x.setFloats(in, r, wd)
	case glRefract:
		need(3)
		i, wd := x.floats(args[0])
		n, _ := x.floats(args[1])
		eta := x.scalarF(args[2])
		d := dotF(n, i, wd)
		k := rnd(1-rnd(rnd(eta*eta, wd)*rnd(1-rnd(d*d, wd), wd), wd), wd)
		r := make([]float64, len(i))
		if !(k < 0) {
			s := rnd(rnd(eta*d, wd)+rnd(math.Sqrt(k), wd), wd)
			for j := range r {
				r[j] = rnd(rnd(eta*i[j], wd)-rnd(s*n[j], wd), wd)
			}
		}
		x.setFloats(in, r, wd)
	case glDeterminant:
		need(1)
		mt, wd := x.matF(args[0])
		x.vals[w[2]] = scalar(fromF(x.det(mt, wd), wd))
	case glMatrixInverse:
		need(1)
		mt, wd := x.matF(args[0])
		x.vals[w[2]] = mkMatF(x.inverse(mt, wd), wd)

	// ---- integer bit queries
	case glFindILsb:
		i1(func(a uint64, _ int64, _ int) uint64 {
			if a == 0 {
				return ^uint64(0)
			}
			return uint64(bits.TrailingZeros64(a))
		})
	case glFindUMsb:
		i1(func(a uint64, _ int64, _ int) uint64 {
			if a == 0 {
				return ^uint64(0)
			}
			return uint64(63 - bits.LeadingZeros64(a))
		})
	case glFindSMsb:
		i1(func(a uint64, s int64, wd int) uint64 {
			if s < 0 {
				a = ^a & widthMask(wd)
			}
			if a == 0 {
				return ^uint64(0)
			}
			return uint64(63 - bits.LeadingZeros64(a))
		})

	// ---- packing
	case glPackSnorm4x8, glPackUnorm4x8, glPackSnorm2x16, glPackUnorm2x16, glPackHalf2x16:
		need(1)
		v, _ := x.vecF(args[0])
		n, bitsPer := 4, uint(8)
		if num == glPackSnorm2x16 || num == glPackUnorm2x16 || num == glPackHalf2x16 {
			n, bitsPer = 2, 16
		}
		if len(v) != n {
			x.skipf("%s of a %d-component vector", name, len(v))
		}
		var r uint64
		for i := 0; i < n; i++ {
			var c uint64
			switch num {
			case glPackSnorm4x8:
				c = packRound(fmin(fmax(v[i], -1), 1) * 127)
			case glPackUnorm4x8:
				c = packRound(fmin(fmax(v[i], 0), 1) * 255)
			case glPackSnorm2x16:
				c = packRound(fmin(fmax(v[i], -1), 1) * 32767)
			case glPackUnorm2x16:
				c = packRound(fmin(fmax(v[i], 0), 1) * 65535)
			case glPackHalf2x16:
				c = uint64(f64ToF16(v[i]))
			}
			r |= (c & (1<<bitsPer - 1)) << (uint(i) * bitsPer)
		}
		x.vals[w[2]] = scalar(r)
	case glUnpackSnorm4x8, glUnpackUnorm4x8, glUnpackSnorm2x16, glUnpackUnorm2x16, glUnpackHalf2x16:
		need(1)
		o := x.operand(args[0])
		if o.n != 0 || o.st.Kind != KindInt || o.st.Width != 32 {
			x.skipf("%s operand is not a 32-bit integer scalar", name)
		}
		p := x.bitsOf(o, 0)
		n, bitsPer := 4, uint(8)
		if num == glUnpackSnorm2x16 || num == glUnpackUnorm2x16 || num == glUnpackHalf2x16 {
			n, bitsPer = 2, 16
		}
		rst, rn := x.resultShape(w[1])
		if rn != n || rst.Kind != KindFloat {
			x.skipf("%s result is not a %d-component float vector", name, n)
		}
		r := make([]float64, n)
		for i := range r {
			c := p >> (uint(i) * bitsPer) & (1<<bitsPer - 1)
			switch num {
			case glUnpackSnorm4x8:
				r[i] = fmin(fmax(float64(float32(float64(sext(c, 8))/127)), -1), 1)
			case glUnpackUnorm4x8:
				r[i] = float64(c) / 255
			case glUnpackSnorm2x16:
				r[i] = fmin(fmax(float64(float32(float64(sext(c, 16))/32767)), -1), 1)
			case glUnpackUnorm2x16:
				r[i] = float64(c) / 65535
			case glUnpackHalf2x16:
				r[i] = f16ToF64(uint16(c))
			}
		}
		x.vals[w[2]] = mkVecF(r, rst.Width)
	case glPackDouble2x32:
		need(1)
		o := x.operand(args[0])
		if o.n != 2 || o.st.Kind != KindInt || o.st.Width != 32 {
			x.skipf("PackDouble2x32 operand malformed")
		}
		x.vals[w[2]] = scalar(x.bitsOf(o, 0) | x.bitsOf(o, 1)<<32)
	case glUnpackDouble2x32:
		need(1)
		o := x.operand(args[0])
		if o.n != 0 || o.st.Kind != KindFloat || o.st.Width != 64 {
			x.skipf("UnpackDouble2x32 operand malformed")
		}
		b := x.bitsOf(o, 0)
		x.vals[w[2]] = composite([]Value{scalar(b & 0xffffffff), scalar(b >> 32)})
	default:
		if name == "" {
			x.skipf("GLSL.std.450 instruction %d not supported", num)
		}
		x.skipf("GLSL.std.450 %s not supported", name)
	}
}

// packRound rounds the scaled component (computed as binary32) to the
// nearest integer, ties to even; NaN packs as 0.
func packRound(f float64) uint64 {
	if f != f {
		return 0
	}
	return uint64(int64(math.RoundToEven(float64(float32(f)))))
}

// frexp returns significand in [0.5,1) and exponent with f = s * 2^e; 0 -> (0,0).
func frexp(f float64) (float64, int) {
	if f == 0 || f != f || math.IsInf(f, 0) {
		return f, 0
	}
	return math.Frexp(f)
}

func modfFract(f, whole float64) float64 {
	if math.IsInf(f, 0) {
		return math.Copysign(0, f)
	}
	return math.Copysign(f-whole, f)
}

// floats reads a float scalar or vector as a slice.
func (x *exec) floats(id uint32) ([]float64, int) {
	o := x.operand(id)
	if o.n < 0 || o.st.Kind != KindFloat {
		x.skipf("operand %%%d of %s is not a float scalar or vector", id, OpName(x.cur.Op))
	}
	n := max(o.n, 1)
	r := make([]float64, n)
	for i := range r {
		r[i] = toF(x.bitsOf(o, i), o.st.Width)
	}
	return r, o.st.Width
}

// setFloats stores a float scalar or vector result according to the result type.
func (x *exec) setFloats(in *Inst, r []float64, wd int) {
	_, n := x.resultShape(in.Words[1])
	if n == 0 {
		if len(r) != 1 {
			x.skipf("%s result shape mismatch", OpName(in.Op))
		}
		x.vals[in.Words[2]] = scalar(fromF(r[0], wd))
		return
	}
	if len(r) != n {
		x.skipf("%s result shape mismatch", OpName(in.Op))
	}
	x.vals[in.Words[2]] = mkVecF(r, wd)
}

// lengthF is sqrt(sum of squares), partial results rounded; |x| for a scalar.
func lengthF(v []float64, wd int) float64 {
	if len(v) == 1 {
		return math.Abs(v[0])
	}
	return math.Sqrt(dotF(v, v, wd))
}

// det computes the determinant by cofactor expansion along the first column,
// every product and sum rounded to the component width.
func (x *exec) det(m [][]float64, wd int) float64 {
	n := len(m)
	for _, c := range m {
		if len(c) != n {
			x.skipf("Determinant of a non-square matrix")
		}
	}
	return detRec(m, wd)
}

func detRec(m [][]float64, wd int) float64 {
	n := len(m)
	switch n {
	case 1:
		return m[0][0]
	case 2:
		return rnd(rnd(m[0][0]*m[1][1], wd)-rnd(m[1][0]*m[0][1], wd), wd)
	}
	// Expand along row 0 (m is column-major: m[c][r]).
	var s float64
	for c := 0; c < n; c++ {
		t := rnd(m[c][0]*detRec(minor(m, c, 0), wd), wd)
		if c%2 == 1 {
			t = -t
		}
		if c == 0 {
			s = t
		} else {
			s = rnd(s+t, wd)
		}
	}
	return s
}

// minor removes column c and row r.
func minor(m [][]float64, c, r int) [][]float64 {
	out := make([][]float64, 0, len(m)-1)
	for ci := range m {
		if ci == c {
			continue
		}
		col := make([]float64, 0, len(m)-1)
		for ri := range m[ci] {
			if ri != r {
				col = append(col, m[ci][ri])
			}
		}
		out = append(out, col)
	}
	return out
}

// inverse computes adjugate / determinant in float64 and rounds once per element.
func (x *exec) inverse(m [][]float64, wd int) [][]float64 {
	n := len(m)
	for _, c := range m {
		if len(c) != n {
			x.skipf("MatrixInverse of a non-square matrix")
		}
	}
	d := detRec(m, 64)
	out := make([][]float64, n)
	for c := 0; c < n; c++ {
		out[c] = make([]float64, n)
		for r := 0; r < n; r++ {
			// inverse[c][r] (column c, row r) = cofactor of element (row c, column r) / det
			var cof float64
			if n == 1 {
				cof = 1
			} else {
				cof = detRec(minor(m, r, c), 64)
			}
			if (r+c)%2 == 1 {
				cof = -cof
			}
			out[c][r] = rnd(cof/d, wd)
		}
	}
	return out
}
