package spv

// Exported view of the decoder's opcode table for event extractors that live
// outside this package (harness/spvev).  Nothing here interprets a module.

// OpFormat returns the specification name ("OpIAdd") and the operand grammar
// of an opcode (letters documented at opInfo); known is false for opcodes the
// table does not contain.
func OpFormat(op uint16) (name, format string, known bool) {
	i, ok := opTable[op]
	if !ok {
		return OpName(op), "", false
	}
	return "Op" + i.name, i.fmt, true
}

// DecodeString decodes a nul-terminated literal string packed into words and
// returns it with the number of words it occupies.
func DecodeString(w []uint32) (string, int) { return decodeString(w) }

// EnumName names an enumerant of one of the operand kinds the table knows
// ("storage", "decoration", "builtin", "model", "mode", "capability", "glsl");
// unknown values are rendered as decimal numbers.
func EnumName(kind string, v uint32) string {
	var tab map[uint32]string
	switch kind {
	case "storage":
		tab = storageClassNames
	case "decoration":
		tab = decorationNames
	case "builtin":
		tab = builtInNames
	case "model":
		tab = executionModelNames
	case "mode":
		tab = executionModeNames
	case "capability":
		return capabilityName(v)
	case "glsl":
		tab = glslNames
	}
	if n, ok := tab[v]; ok {
		return n
	}
	return itoa(v)
}

func itoa(v uint32) string {
	if v == 0 {
		return "0"
	}
	var b [10]byte
	i := len(b)
	for v > 0 {
		i--
		b[i] = byte('0' + v%10)
		v /= 10
	}
	return string(b[i:])
}
