// Package spv is an independent SPIR-V binary decoder, disassembler and
// single-invocation executor.  It is the "hardware" of the verification
// harness for naga's SPIR-V backend and the reference the text-language
// executors (HLSL, MSL, GLSL) are compared with.  It reads the binary
// strictly according to the SPIR-V specification (1.0 - 1.6, Vulkan
// environment, Logical addressing, GLSL.std.450) and never calls into naga.
//
// # API
//
//	Decode(bin)            parse + index (types, constants, decorations, functions, entry points)
//	Disasm(m)              one instruction per line, "%id = OpName operands"
//	OpName(op)             specification name of an opcode
//	Run(bin, xrt.Input)    execute one invocation of a GLCompute entry point
//	(*Module).Run(in)      same on a decoded module
//	(*Module).Resources()  set/binding and the decorated layout tree of every buffer variable
//
// Buffer slot keys are "<DescriptorSet>.<Binding>"; a PushConstant block uses
// "push_constant".
//
// # Supported subset
//
// Types: bool, int and float scalars of width 8/16/32/64 (ints) and 16/32/64
// (IEEE floats), vectors, matrices, arrays, runtime arrays, structs, logical
// pointers.  Images, samplers, acceleration structures and ray queries are
// decoded but any use is a Skip.
//
// Instructions: OpNop OpUndef OpLine OpNoLine; all OpConstant* and
// OpSpecConstant* (defaults; OpSpecConstantOp is evaluated with the ordinary
// evaluator); OpVariable OpLoad OpStore OpCopyMemory OpAccessChain
// OpInBoundsAccessChain OpArrayLength; OpFunctionCall (pointer arguments,
// no recursion); OpPhi OpBranch OpBranchConditional OpSwitch (32/64-bit
// literals) OpReturn OpReturnValue OpKill OpTerminateInvocation OpUnreachable
// OpSelectionMerge OpLoopMerge OpLifetimeStart/Stop OpControlBarrier
// OpMemoryBarrier (no-ops); OpSNegate OpFNegate OpIAdd OpFAdd OpISub OpFSub
// OpIMul OpFMul OpUDiv OpSDiv OpFDiv OpUMod OpSRem OpSMod OpFRem OpFMod
// OpIAddCarry OpISubBorrow OpUMulExtended OpSMulExtended; OpVectorTimesScalar
// OpMatrixTimesScalar OpVectorTimesMatrix OpMatrixTimesVector
// OpMatrixTimesMatrix OpOuterProduct OpDot OpTranspose OpSDot OpUDot OpSUDot;
// OpShiftLeftLogical OpShiftRightLogical OpShiftRightArithmetic OpBitwiseOr
// OpBitwiseXor OpBitwiseAnd OpNot OpBitFieldInsert OpBitFieldSExtract
// OpBitFieldUExtract OpBitReverse OpBitCount; all integer, ordered and
// unordered float comparisons, OpLogical*, OpAny OpAll OpIsNan OpIsInf
// OpIsFinite OpIsNormal OpSignBitSet OpLessOrGreater OpOrdered OpUnordered,
// OpSelect (scalar, vector and whole-object); OpConvertFToU OpConvertFToS
// OpConvertSToF OpConvertUToF OpUConvert OpSConvert OpFConvert
// OpQuantizeToF16 OpBitcast (including between different component counts);
// OpCompositeConstruct OpCompositeExtract OpCompositeInsert OpCopyObject
// OpCopyLogical OpVectorShuffle OpVectorExtractDynamic
// OpVectorInsertDynamic; OpAtomicLoad/Store/Exchange/CompareExchange(Weak)/
// IIncrement/IDecrement/IAdd/ISub/SMin/UMin/SMax/UMax/And/Or/Xor/FAddEXT
// (sequential, one invocation); OpExtInst GLSL.std.450: every instruction
// except IMix and the InterpolateAt* family.
//
// Anything else (image, derivative, subgroup, ray-query opcodes, other
// extended instruction sets, other storage classes, unknown built-ins) is a
// Skip naming the construct.
//
// # Memory model
//
// A pointer is (variable, index path).  Variables in the StorageBuffer,
// Uniform (Block or BufferBlock) and PushConstant storage classes are windows
// onto xrt.Input.Buffers; every scalar is located with exactly the decorated
// Offset / ArrayStride / MatrixStride / ColMajor / RowMajor - no layout is
// ever assumed, so wrong decorations show up as wrong bytes.  A missing
// decoration that is needed to locate data is a Skip with the precise
// reason.  OpArrayLength is max(0, (byteLength - offsetOfLastMember) /
// ArrayStride).  Private, Workgroup, Function and Output variables are value
// trees with one "defined" bit per scalar; an initializer operand defines
// them (OpConstantNull -> zeros), no initializer leaves them undefined.
// Input variables decorated BuiltIn LocalInvocationId, LocalInvocationIndex,
// GlobalInvocationId, WorkgroupId, NumWorkgroups (and WorkgroupSize) take
// their values from xrt.Input and OpExecutionMode LocalSize / LocalSizeId.
// Input.LocalID outside the LocalSize is a Skip.
//
// Float arithmetic widens to float64, performs one IEEE operation and rounds
// to the result width (exactly the correctly rounded binary32/16 result for
// + - * / sqrt); dot products, matrix products, length etc. are evaluated left
// to right with every intermediate rounded; Fma rounds once; transcendental
// functions are computed in float64 and rounded.  Denormals are preserved.
//
// # Trap rules (Outcome.Trap)
//
//   - OpUDiv OpUMod OpSDiv OpSRem OpSMod with a zero divisor; OpSDiv OpSRem
//     OpSMod of the minimum value by -1.
//   - OpShiftLeftLogical / OpShiftRightLogical / OpShiftRightArithmetic with
//     a count >= the bit width of the base (count treated as unsigned).
//   - OpConvertFToS / OpConvertFToU of NaN, infinities, or a value whose
//     truncation toward zero is not representable in the result type.
//   - An OpAccessChain index outside the array / vector / matrix it indexes
//     (signed interpretation; for a runtime array: >= the OpArrayLength
//     value) poisons the resulting pointer; loading, storing, atomics or
//     OpArrayLength through a poisoned pointer trap.  The same with
//     OpInBoundsAccessChain traps immediately.  A struct member index out of
//     range traps immediately.
//   - OpVectorExtractDynamic / OpVectorInsertDynamic / OpCompositeExtract /
//     OpCompositeInsert / OpVectorShuffle with an index out of range.
//   - Any buffer access that is not entirely inside the bound buffer's bytes.
//   - Use of an undefined scalar (OpUndef, uninitialised Function / Private /
//     Workgroup memory, OpVectorShuffle component 0xFFFFFFFF) as an operand
//     of any arithmetic, logic, comparison, conversion, bitcast or extended
//     instruction, as a branch condition, switch selector, OpSelect
//     condition, index, atomic operand, or as a value stored to a buffer.
//     Copying undefined data (load, store to non-buffer memory, composite
//     construction / extraction, phi, call arguments, OpSelect objects) does
//     not trap.
//   - Reaching OpUnreachable.
//   - OpBitFieldInsert / OpBitFieldSExtract / OpBitFieldUExtract with
//     offset + count > the bit width.
//   - GLSL.std.450 FClamp / UClamp / SClamp / NClamp with minVal > maxVal;
//     Pow with x < 0, or x == 0 and y <= 0; SmoothStep with edge0 >= edge1.
//   - A store to a variable decorated NonWritable, to a Uniform Block, to a
//     PushConstant block or to an Input variable.
//
// Defined and therefore computed, not trapped: wrap-around of OpIAdd OpISub
// OpIMul OpSNegate SAbs; float division by zero, OpFRem / OpFMod by zero
// (NaN), Sqrt / InverseSqrt / Log / Log2 / Asin / Acos / Acosh / Atanh outside
// their domain (NaN), Atan2(0,0) (0), Normalize of a zero vector (NaN).
//
// # Skip (Outcome.Skip)
//
// "decode: ..." for a damaged binary, "fuel" when MaxSteps instructions were
// executed, a missing buffer for a resource that is used, recursion, an
// unsupported construct (named), a malformed module, or "internal: ..." if
// the executor itself panicked.
package spv
