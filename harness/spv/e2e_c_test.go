package spv

import (
	"bytes"
	"reflect"
	"strings"
	"testing"

	"github.com/gogpu/naga/spirv"

	"verif/harness/xrt"
)

func TestE2E30ZeroValuesAndConsts(t *testing.T) {
	src := hdrOA + `
struct S { x: u32, v: vec2<f32>, arr: array<i32, 2> }
const K: u32 = 6u;
const KV = vec2<u32>(K, K * 2u);
@compute @workgroup_size(1) fn main() {
  var z = vec3<f32>();
  var arr = array<u32, 3>();
  var st = S();
  var m = mat2x2<f32>();
  var flag = bool();
  z.y = f[0];
  arr[1] = b[0];
  st.arr[1] = a[0];
  o[0] = bitcast<u32>(z.x + z.y + z.z);
  o[1] = arr[0] + arr[1] + arr[2];
  o[2] = st.x + bitcast<u32>(st.arr[0] + st.arr[1]) + u32(st.v.x);
  o[3] = bitcast<u32>(m[1][1]);
  o[4] = u32(flag) + K + KV.y;
  let l = K * b[0];
  var c = l;
  c += 3u; c -= 1u; c *= 2u; c /= 4u; c %= 7u; c <<= 2u; c >>= 1u; c |= 1u; c &= 0xdu; c ^= 2u;
  c++; c++; c--;
  o[5] = c;
  var fv = f[0];
  fv *= 2.0; fv -= 0.5; fv /= 2.0; fv += 1.0;
  o[6] = bitcast<u32>(fv);
}`
	// f0=1.5 b0=5 a0=-4: z sum 1.5 ; 5 ; 0 + (-4 as u32) + 0 ; 0 ; 0+6+12=18
	// c = 30 ->33 ->32 ->64 ->16 ->2 ->8 ->4 ->5 ->5&13=5 ->5^2=7 -> 8,9,8
	// fv = 1.5 -> 3 -> 2.5 -> 1.25 -> 2.25
	e2e(t, src, "main",
		map[string][]byte{"0.0": zeros(28), "0.1": i32s(-4), "0.2": u32s(5), "0.3": f32s(1.5)},
		map[string][]byte{"0.0": cat(f32s(1.5), u32s(5, 0xfffffffc, 0, 18, 8), f32s(2.25))})
}

func TestE2E31VectorIntegerOps(t *testing.T) {
	src := hdrOA + `
@compute @workgroup_size(1) fn main() {
  let x = vec3<i32>(a[0], a[1], a[2]);
  let y = vec3<i32>(a[3], a[4], a[5]);
  let s = x + y; let d = x - y; let p = x * y; let q = x / y; let r = x % y;
  o[0] = bitcast<u32>(s.x); o[1] = bitcast<u32>(d.y); o[2] = bitcast<u32>(p.z);
  o[3] = bitcast<u32>(q.x); o[4] = bitcast<u32>(q.y); o[5] = bitcast<u32>(q.z);
  o[6] = bitcast<u32>(r.x); o[7] = bitcast<u32>(r.y); o[8] = bitcast<u32>(r.z);
  let n = -x;
  o[9] = bitcast<u32>(n.x);
  let sc = x * 3 + 1;
  o[10] = bitcast<u32>(sc.y);
  let u = vec2<u32>(b[0], b[1]) * vec2<u32>(b[1], b[1]) - vec2<u32>(1u);
  o[11] = u.x; o[12] = u.y;
  let bv = (x < y) | (x == vec3<i32>(a[0]));
  o[13] = u32(bv.x) + 2u * u32(bv.y) + 4u * u32(bv.z);
  let nb = !bv;
  o[14] = u32(nb.x) + 2u * u32(nb.y) + 4u * u32(nb.z);
}`
	// x=(7,-7,MIN) y=(2,0,-1): s.x=9 d.y=-7 p.z=MIN*-1=MIN ; q=(3,-7,MIN) r=(1,0,0) ; n.x=-7 ; sc.y=-20
	// u=(3*0x80000000... ) choose b=(3,5): (15-1, 25-1) ; bv: x<y = (f,t,t); x==7 = (t,f,f) -> (t,t,t)=7 ; nb=0
	e2e(t, src, "main",
		map[string][]byte{"0.0": zeros(60), "0.1": i32s(7, -7, iMin, 2, 0, -1), "0.2": u32s(3, 5)},
		map[string][]byte{"0.0": u32s(9, 0xfffffff9, 0x80000000, 3, 0xfffffff9, 0x80000000, 1, 0, 0, 0xfffffff9, 0xffffffec, 14, 24, 7, 0)})
}

func TestE2E32LoopLocalVariables(t *testing.T) {
	src := hdrOA + `
@compute @workgroup_size(1) fn main() {
  var total = 0u;
  for (var i = 0u; i < 3u; i++) {
    var x = b[0];
    x += i + 1u;
    total += x;
  }
  o[0] = total;
  var t2 = 0u;
  var j = 0u;
  loop {
    if j >= 3u { break; }
    let k = j * 2u;
    var y = k;
    y += 1u;
    t2 += y;
    continuing { j++; }
  }
  o[1] = t2;
}`
	// x restarts from b[0]=10 each iteration: 11+12+13 = 36 ; y = 1,3,5 -> 9
	e2e(t, src, "main",
		map[string][]byte{"0.0": zeros(8), "0.2": u32s(10)},
		map[string][]byte{"0.0": u32s(36, 9)})
}

func TestE2E33PrivateAndHelpers(t *testing.T) {
	src := hdrOA + `
var<private> acc: array<u32, 3>;
var<private> pv: vec2<f32>;
fn push(i: u32, v: u32) { acc[i] = acc[i] + v; }
fn total() -> u32 { return acc[0] + acc[1] + acc[2]; }
@compute @workgroup_size(1) fn main() {
  acc = array<u32, 3>(1u, 2u, 3u);
  pv = vec2<f32>(f[0], 1.0);
  push(b[0], 10u);
  push(2u, 20u);
  pv.y = pv.x * 2.0;
  o[0] = total();
  o[1] = acc[1];
  o[2] = bitcast<u32>(pv.y);
}`
	e2e(t, src, "main",
		map[string][]byte{"0.0": zeros(12), "0.2": u32s(1), "0.3": f32s(1.5)},
		map[string][]byte{"0.0": cat(u32s(36, 12), f32s(3))})
}

func TestE2E34ArraysOfVectorsAndMatrices(t *testing.T) {
	src := `
struct T { ms: array<mat2x2<f32>, 2>, vs: array<vec4<f32>, 2>, fs: array<f32, 3> }
@group(0) @binding(0) var<storage, read_write> s: T;
@group(0) @binding(1) var<storage, read_write> o: array<f32>;
@compute @workgroup_size(1) fn main() {
  o[0] = s.ms[1][0].y;
  let m = s.ms[1];
  let v = m * s.vs[0].xy;
  o[1] = v.x; o[2] = v.y;
  s.ms[0] = m;
  s.vs[1] = s.vs[0].wzyx;
  s.fs[2] = s.fs[0] + s.fs[1];
  s.vs[0].z = 99.0;
}`
	// ms@0 stride 16 (matrix stride 8) ; vs@32 stride 16 ; fs@64 stride 4 ; size 80 (align 16)
	init := cat(f32s(0, 0, 0, 0), f32s(1, 2, 3, 4), f32s(10, 20, 30, 40), f32s(0, 0, 0, 0), f32s(5, 6, 0), zeros(4))
	// m cols (1,2),(3,4) ; v = m*(10,20) = (10+60, 20+80) = (70,100)
	want := cat(f32s(1, 2, 3, 4), f32s(1, 2, 3, 4), f32s(10, 20, 99, 40), f32s(40, 30, 20, 10), f32s(5, 6, 11), zeros(4))
	e2e(t, src, "main", map[string][]byte{"0.0": init, "0.1": zeros(12)},
		map[string][]byte{"0.0": want, "0.1": f32s(2, 70, 100)})
}

func TestE2E35TraceAccesses(t *testing.T) {
	src := `
struct S { a: vec3<f32>, b: f32, v: vec4<u32> }
@group(0) @binding(0) var<storage, read_write> s: S;
@group(0) @binding(1) var<uniform> u: vec4<u32>;
@compute @workgroup_size(1) fn main() {
  let x = s.a;
  s.v = u;
  s.b = x.y;
}`
	o := spirv.DefaultOptions()
	o.Version = spirv.Version1_3
	bin, err := compileWGSL(src, o)
	if err != nil {
		t.Fatal(err)
	}
	bufs := map[string][]byte{"0.0": cat(f32s(1, 2, 3, 0), zeros(16)), "0.1": u32s(5, 6, 7, 8)}
	out := Run(bin, xrt.Input{Entry: "main", Buffers: bufs, TraceAccesses: true})
	if !out.OK() {
		t.Fatalf("%+v", out)
	}
	// naga also emits dead loads (it re-loads the destination before a store),
	// so the trace is a super-sequence of the accesses WGSL needs.  What is
	// checked: the needed accesses appear in order, vec3 / vec4 accesses are
	// coalesced into one 12 / 16 byte record, and nothing else is touched.
	want := []xrt.Access{
		{Slot: "0.0", Offset: 0, Size: 12, Write: false},
		{Slot: "0.1", Offset: 0, Size: 16, Write: false},
		{Slot: "0.0", Offset: 16, Size: 16, Write: true},
		{Slot: "0.0", Offset: 12, Size: 4, Write: true},
	}
	k := 0
	writes := 0
	for _, a := range out.Accesses {
		if k < len(want) && reflect.DeepEqual(a, want[k]) {
			k++
		}
		if a.Write {
			writes++
		}
		if a.Offset < 0 || a.Offset+a.Size > 32 || (a.Size != 4 && a.Size != 12 && a.Size != 16) {
			t.Errorf("unexpected access %+v", a)
		}
	}
	if k != len(want) || writes != 2 {
		t.Errorf("accesses %+v do not contain %+v in order (writes=%d)", out.Accesses, want, writes)
	}
	if !bytes.Equal(bufs["0.0"], cat(f32s(1, 2, 3, 2), u32s(5, 6, 7, 8))) {
		t.Errorf("buffer %s", words(bufs["0.0"]))
	}
	if out.Steps == 0 {
		t.Errorf("no steps counted")
	}
	// Without the flag no trace is produced.
	out = Run(bin, xrt.Input{Entry: "main", Buffers: bufs})
	if out.Accesses != nil {
		t.Errorf("trace without TraceAccesses")
	}
}

// TestE2E36IndexBoundsPolicies: an out-of-range dynamic index is undefined
// behaviour in unchecked SPIR-V (Trap).
func TestE2E36IndexBoundsPolicies(t *testing.T) {
	src := `
struct S { arr: array<u32, 4>, tail: u32 }
@group(0) @binding(0) var<storage, read_write> s: S;
@group(0) @binding(1) var<storage, read_write> r: array<u32>;
@group(0) @binding(2) var<storage, read> b: array<u32>;
@compute @workgroup_size(1) fn main() {
  let i = b[0];
  s.arr[i] = 5u;
  r[i] = 6u;
  s.tail = s.arr[i] + r[i] + 1u;
}`
	run := func(policy spirv.BoundsCheckPolicy) (xrt.Outcome, map[string][]byte) {
		o := spirv.DefaultOptions()
		o.Version = spirv.Version1_3
		o.BoundsCheckPolicies.Index = policy
		bin, err := compileWGSL(src, o)
		if err != nil {
			t.Fatal(err)
		}
		bufs := map[string][]byte{"0.0": zeros(20), "0.1": zeros(12), "0.2": u32s(9)}
		return Run(bin, xrt.Input{Entry: "main", Buffers: bufs}), bufs
	}
	out, _ := run(spirv.BoundsCheckUnchecked)
	if !strings.Contains(out.Trap, "out-of-bounds access chain index 9 of 4") {
		t.Errorf("unchecked: %+v", out)
	}
	// naga's Index policies are exercised in findings_test.go (the pinned tree
	// ignores them for buffer arrays).
	_ = bytes.Equal
}

func TestE2E37MultipleEntryPoints(t *testing.T) {
	src := `
@group(0) @binding(0) var<storage, read_write> o: array<u32>;
@compute @workgroup_size(1) fn first() { o[0] = 1u; }
@compute @workgroup_size(4) fn second(@builtin(local_invocation_id) l: vec3<u32>) { o[1] = 2u + l.x; }
@vertex fn vs() -> @builtin(position) vec4<f32> { return vec4<f32>(0.0); }
`
	o := spirv.DefaultOptions()
	o.Version = spirv.Version1_3
	bin, err := compileWGSL(src, o)
	if err != nil {
		t.Fatal(err)
	}
	buf := zeros(8)
	if out := Run(bin, xrt.Input{Entry: "second", Buffers: map[string][]byte{"0.0": buf}, LocalID: [3]uint32{3, 0, 0}}); !out.OK() {
		t.Fatalf("%+v", out)
	}
	if out := Run(bin, xrt.Input{Entry: "first", Buffers: map[string][]byte{"0.0": buf}}); !out.OK() {
		t.Fatalf("%+v", out)
	}
	if !bytes.Equal(buf, u32s(1, 5)) {
		t.Errorf("got %s", words(buf))
	}
	if out := Run(bin, xrt.Input{Entry: "vs"}); !strings.Contains(out.Skip, "not GLCompute") {
		t.Errorf("vertex entry: %+v", out)
	}
	if out := Run(bin, xrt.Input{Entry: "second", LocalID: [3]uint32{4, 0, 0}}); !strings.Contains(out.Skip, "outside LocalSize") {
		t.Errorf("local id out of range: %+v", out)
	}
	if out := Run(bin, xrt.Input{Entry: "first"}); !strings.Contains(out.Skip, "no buffer bound") {
		t.Errorf("missing buffer: %+v", out)
	}
	if out := Run(bin, xrt.Input{Entry: "first", Buffers: map[string][]byte{"0.0": zeros(0)}}); !strings.Contains(out.Trap, "runtime array") {
		t.Errorf("empty buffer: %+v", out)
	}
}

func TestE2E38MathFamilies(t *testing.T) {
	src := hdrOA + `
@compute @workgroup_size(1) fn main() {
  let fr = frexp(f[0]);
  o[0] = bitcast<u32>(fr.fract); o[1] = bitcast<u32>(fr.exp);
  let mf = modf(f[1]);
  o[2] = bitcast<u32>(mf.fract); o[3] = bitcast<u32>(mf.whole);
  o[4] = bitcast<u32>(ldexp(f[2], a[0]));
  o[5] = bitcast<u32>(exp(f[3]));
  o[6] = bitcast<u32>(log(f[4]));
  o[7] = bitcast<u32>(sin(f[3]));
  o[8] = bitcast<u32>(cos(f[3]));
  o[9] = bitcast<u32>(tan(f[3]));
  o[10] = bitcast<u32>(atan2(f[3], f[4]));
  o[11] = bitcast<u32>(sinh(f[3]) + cosh(f[3]) + tanh(f[3]));
  o[12] = bitcast<u32>(asin(f[3]) + acos(f[4]) + atan(f[3]));
  o[13] = bitcast<u32>(quantizeToF16(f[5]));
  o[14] = bitcast<u32>(degrees(f[3]) + radians(f[3]));
  let nv = modf(vec2<f32>(f[1], -f[1]));
  o[15] = bitcast<u32>(nv.whole.y); o[16] = bitcast<u32>(nv.fract.y);
}`
	// frexp(24) = 0.75 * 2^5 ; modf(2.75) = .75 + 2 ; ldexp(1.5, 4) = 24 ; exp(0)=1 ; log(1)=0 ; sin 0 ; cos 1 ; tan 0 ; atan2(0,1)=0
	// 0+1+0 ; 0+0+0 ; quantize(0.1) = 0x3dccc000 ; 0 ; modf(-2.75) = -2, -0.75
	e2e(t, src, "main",
		map[string][]byte{"0.0": zeros(68), "0.1": i32s(4), "0.3": f32s(24, 2.75, 1.5, 0, 1, 0.1)},
		map[string][]byte{"0.0": cat(f32s(0.75), u32s(5), f32s(0.75, 2, 24, 1, 0, 0, 1, 0, 0, 1, 0), u32s(0x3dccc000), f32s(0, -2, -0.75))})
}
