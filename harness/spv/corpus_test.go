package spv

import (
	"fmt"
	"os"
	"path/filepath"
	"regexp"
	"sort"
	"strings"
	"testing"

	"github.com/gogpu/naga/spirv"

	"verif/harness/xrt"
)

// TestCorpusSmoke runs every GLCompute entry point of every corpus shader
// naga can compile, with zero-filled buffers of generous size, and reports
// how many executed / trapped / skipped.  It must never panic; skips must
// carry a precise reason ("internal:" skips are failures).
func TestCorpusSmoke(t *testing.T) {
	files := corpusFiles(t)
	type key struct{ kind, reason string }
	tally := map[key][]string{}
	ran, okN, trapN, skipN, compileFail := 0, 0, 0, 0, 0
	norm := regexp.MustCompile(`%\d+(\([^)]*\))?|word \d+|"[^"]*"|-?\d+(\.\d+)?(e[+-]?\d+)?`)
	for _, f := range files {
		src, _ := os.ReadFile(f)
		for vi, v := range []spirv.Version{spirv.Version1_1, spirv.Version1_4} {
			o := spirv.DefaultOptions()
			o.Version = v
			o.Debug = vi == 1
			bin, err := compileWGSL(string(src), o)
			if err != nil {
				if vi == 0 {
					compileFail++
				}
				continue
			}
			m, err := Decode(bin)
			if err != nil {
				t.Errorf("%s: Decode: %v", filepath.Base(f), err)
				continue
			}
			for _, ep := range m.EntryPoints {
				if ep.Model != 5 {
					continue
				}
				bufs := map[string][]byte{}
				for _, r := range m.Resources() {
					if r.Slot != "" {
						bufs[r.Slot] = make([]byte, 4096)
					}
				}
				out := m.Run(xrt.Input{Entry: ep.Name, Buffers: bufs, MaxSteps: 200000, TraceAccesses: true})
				ran++
				name := fmt.Sprintf("%s:%s", strings.TrimSuffix(filepath.Base(f), ".wgsl"), ep.Name)
				switch {
				case out.Trap != "":
					trapN++
					k := key{"trap", norm.ReplaceAllString(strings.SplitN(out.Trap, " [", 2)[0], "#")}
					tally[k] = append(tally[k], name)
				case out.Skip != "":
					skipN++
					if strings.HasPrefix(out.Skip, "internal:") {
						t.Errorf("%s: %s", name, out.Skip)
					}
					k := key{"skip", norm.ReplaceAllString(strings.SplitN(out.Skip, " [", 2)[0], "#")}
					tally[k] = append(tally[k], name)
				default:
					okN++
				}
			}
		}
	}
	t.Logf("corpus: %d files (%d not compilable by naga), %d compute entry-point runs: %d executed, %d trapped, %d skipped",
		len(files), compileFail, ran, okN, trapN, skipN)
	var keys []key
	for k := range tally {
		keys = append(keys, k)
	}
	sort.Slice(keys, func(i, j int) bool {
		if len(tally[keys[i]]) != len(tally[keys[j]]) {
			return len(tally[keys[i]]) > len(tally[keys[j]])
		}
		return keys[i].reason < keys[j].reason
	})
	for _, k := range keys {
		names := tally[k]
		ex := names
		if len(ex) > 4 {
			ex = ex[:4]
		}
		t.Logf("  %s x%d: %s   e.g. %s", k.kind, len(names), k.reason, strings.Join(ex, ", "))
	}
	if ran == 0 {
		t.Errorf("no compute entry point ran")
	}
}
