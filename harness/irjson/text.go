package irjson

import (
	"encoding/json"
	"fmt"
	"sort"
	"strings"

	"github.com/gogpu/naga/ir"
)

// Text renders the exported module in a compact readable form (for replay files and triage).
func Text(m *ir.Module) string {
	x := Export(m)
	var sb strings.Builder
	line := func(n N) string {
		keys := make([]string, 0, len(n))
		for k := range n {
			if k != "k" {
				keys = append(keys, k)
			}
		}
		sort.Strings(keys)
		s := ""
		if k, ok := n["k"]; ok {
			s = fmt.Sprint(k)
		}
		for _, k := range keys {
			b, _ := json.Marshal(n[k])
			s += " " + k + "=" + string(b)
		}
		return s
	}
	for i, t := range x["types"].([]N) {
		fmt.Fprintf(&sb, "type %d: %s\n", i, line(t))
	}
	for i, c := range x["consts"].([]N) {
		fmt.Fprintf(&sb, "const %d: %s\n", i, line(c))
	}
	for i, g := range x["globals"].([]N) {
		fmt.Fprintf(&sb, "global %d: %s\n", i, line(g))
	}
	for i, e := range x["gexprs"].([]N) {
		fmt.Fprintf(&sb, "gexpr %d: %s\n", i, line(e))
	}
	var blk func(b []N, d int)
	blk = func(b []N, d int) {
		ind := strings.Repeat("  ", d)
		for _, s := range b {
			switch s["k"] {
			case "If":
				fmt.Fprintf(&sb, "%sIf c=%v\n", ind, s["c"])
				blk(s["a"].([]N), d+1)
				fmt.Fprintf(&sb, "%sElse\n", ind)
				blk(s["r"].([]N), d+1)
			case "Block":
				fmt.Fprintf(&sb, "%sBlock\n", ind)
				blk(s["b"].([]N), d+1)
			case "Loop":
				fmt.Fprintf(&sb, "%sLoop bi=%v\n", ind, s["bi"])
				blk(s["b"].([]N), d+1)
				fmt.Fprintf(&sb, "%sContinuing\n", ind)
				blk(s["c"].([]N), d+1)
			case "Switch":
				fmt.Fprintf(&sb, "%sSwitch sel=%v\n", ind, s["sel"])
				for _, c := range s["cases"].([]N) {
					fmt.Fprintf(&sb, "%s case def=%v v=%v ft=%v\n", ind, c["def"], c["v"], c["ft"])
					blk(c["b"].([]N), d+2)
				}
			default:
				fmt.Fprintf(&sb, "%s%s\n", ind, line(s))
			}
		}
	}
	fn := func(title string, f N) {
		fmt.Fprintf(&sb, "%s %q result=%v\n", title, f["name"], f["result"])
		for i, a := range f["args"].([]N) {
			fmt.Fprintf(&sb, "  arg %d: %s\n", i, line(a))
		}
		for i, l := range f["locals"].([]N) {
			fmt.Fprintf(&sb, "  local %d: %s\n", i, line(l))
		}
		for i, e := range f["exprs"].([]N) {
			fmt.Fprintf(&sb, "  e%d: %s\n", i, line(e))
		}
		blk(f["body"].([]N), 1)
	}
	for i, f := range x["fns"].([]N) {
		fn(fmt.Sprintf("fn %d", i), f)
	}
	for i, e := range x["eps"].([]N) {
		fn(fmt.Sprintf("entry %d (%v %v)", i, e["stage"], e["wg"]), e["fn"].(N))
	}
	return sb.String()
}
