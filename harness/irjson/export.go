// Package irjson exports a real *ir.Module as the JSON value that spec/IrSem.tla
// consumes.  The exporter only transcribes: every arena, every expression and
// statement with its operand handles exactly as they are in memory (also when a
// pass left them dangling or out of range - judging that is the specification's
// job), no typing, no evaluation.
//
// JSON restrictions of TLC's reader: no null (absent handles are -1, absent
// lists are []), no floats (f32 literals travel as bit patterns), integers
// below 2^31 (32-bit words travel as signed ints; handles above 2^30 are
// clamped to 2^30, which is out of range for every arena).
//
// Handles are 0-based as in naga; the specification adds 1 where it indexes a
// TLA+ sequence.
package irjson

import (
	"fmt"
	"math"
	"reflect"

	"github.com/gogpu/naga/ir"
)

// N is a JSON object.
type N = map[string]any

func h32(v uint32) int {
	if v > 1<<30 {
		return 1 << 30
	}
	return int(v)
}

func opt(p *ir.ExpressionHandle) int {
	if p == nil {
		return -1
	}
	return h32(uint32(*p))
}

func scalarKind(s ir.ScalarType) string {
	switch {
	case s.Kind == ir.ScalarSint && s.Width == 4:
		return "i32"
	case s.Kind == ir.ScalarUint && s.Width == 4:
		return "u32"
	case s.Kind == ir.ScalarFloat && s.Width == 4:
		return "f32"
	case s.Kind == ir.ScalarBool:
		return "bool"
	}
	return fmt.Sprintf("other:%d/%d", s.Kind, s.Width)
}

func asKind(k ir.ScalarKind) string {
	switch k {
	case ir.ScalarSint:
		return "i32"
	case ir.ScalarUint:
		return "u32"
	case ir.ScalarFloat:
		return "f32"
	case ir.ScalarBool:
		return "bool"
	}
	return "other"
}

var spaceNames = map[ir.AddressSpace]string{
	ir.SpaceFunction: "function", ir.SpacePrivate: "private", ir.SpaceWorkGroup: "workgroup", ir.SpaceUniform: "uniform",
	ir.SpaceStorage: "storage", ir.SpacePushConstant: "push_constant", ir.SpaceHandle: "handle", ir.SpaceImmediate: "immediate",
	ir.SpaceTaskPayload: "task_payload",
}

func typeInner(t ir.TypeInner) N {
	switch v := t.(type) {
	case ir.ScalarType:
		return N{"k": "scalar", "sk": scalarKind(v)}
	case ir.VectorType:
		return N{"k": "vec", "n": int(v.Size), "sk": scalarKind(v.Scalar)}
	case ir.MatrixType:
		return N{"k": "mat", "c": int(v.Columns), "r": int(v.Rows), "sk": scalarKind(v.Scalar)}
	case ir.ArrayType:
		n := 0
		if v.Size.Constant != nil {
			n = h32(*v.Size.Constant)
		}
		return N{"k": "arr", "base": h32(uint32(v.Base)), "n": n, "stride": h32(v.Stride)}
	case ir.StructType:
		ms := make([]N, len(v.Members))
		for i, m := range v.Members {
			ms[i] = N{"name": m.Name, "ty": h32(uint32(m.Type)), "off": h32(m.Offset)}
		}
		return N{"k": "struct", "ms": ms, "span": h32(v.Span)}
	case ir.PointerType:
		return N{"k": "ptr", "base": h32(uint32(v.Base)), "space": spaceNames[v.Space]}
	case ir.AtomicType:
		return N{"k": "atomic", "sk": scalarKind(v.Scalar)}
	case nil:
		return N{"k": "other", "what": "nil"}
	}
	return N{"k": "other", "what": reflect.TypeOf(t).Name()}
}

func literal(l ir.LiteralValue) N {
	switch v := l.(type) {
	case ir.LiteralI32:
		return N{"k": "Literal", "sk": "i32", "v": int(int32(v))}
	case ir.LiteralU32:
		return N{"k": "Literal", "sk": "u32", "v": int(int32(uint32(v)))}
	case ir.LiteralF32:
		return N{"k": "Literal", "sk": "f32", "v": int(int32(math.Float32bits(float32(v))))}
	case ir.LiteralBool:
		b := 0
		if bool(v) {
			b = 1
		}
		return N{"k": "Literal", "sk": "bool", "v": b}
	case nil:
		return N{"k": "Literal", "sk": "other", "v": 0}
	}
	return N{"k": "Literal", "sk": "other:" + reflect.TypeOf(l).Name(), "v": 0}
}

var unaryNames = map[ir.UnaryOperator]string{ir.UnaryNegate: "Negate", ir.UnaryLogicalNot: "LogicalNot", ir.UnaryBitwiseNot: "BitwiseNot"}

var binaryNames = map[ir.BinaryOperator]string{
	ir.BinaryAdd: "Add", ir.BinarySubtract: "Subtract", ir.BinaryMultiply: "Multiply", ir.BinaryDivide: "Divide", ir.BinaryModulo: "Modulo",
	ir.BinaryEqual: "Equal", ir.BinaryNotEqual: "NotEqual", ir.BinaryLess: "Less", ir.BinaryLessEqual: "LessEqual",
	ir.BinaryGreater: "Greater", ir.BinaryGreaterEqual: "GreaterEqual", ir.BinaryAnd: "And", ir.BinaryExclusiveOr: "ExclusiveOr",
	ir.BinaryInclusiveOr: "InclusiveOr", ir.BinaryLogicalAnd: "LogicalAnd", ir.BinaryLogicalOr: "LogicalOr",
	ir.BinaryShiftLeft: "ShiftLeft", ir.BinaryShiftRight: "ShiftRight",
}

var relNames = map[ir.RelationalFunction]string{ir.RelationalAll: "All", ir.RelationalAny: "Any", ir.RelationalIsNan: "IsNan", ir.RelationalIsInf: "IsInf"}

// mathNames names the math functions the specification knows; every other one is exported as "other:<n>" and taints the row.
var mathNames = map[ir.MathFunction]string{
	ir.MathAbs: "Abs", ir.MathMin: "Min", ir.MathMax: "Max", ir.MathClamp: "Clamp", ir.MathSaturate: "Saturate",
	ir.MathCeil: "Ceil", ir.MathFloor: "Floor", ir.MathRound: "Round", ir.MathFract: "Fract", ir.MathTrunc: "Trunc",
	ir.MathDot: "Dot", ir.MathCross: "Cross", ir.MathSign: "Sign", ir.MathFma: "Fma", ir.MathStep: "Step", ir.MathSqrt: "Sqrt",
	ir.MathTranspose: "Transpose", ir.MathCountTrailingZeros: "CountTrailingZeros", ir.MathCountLeadingZeros: "CountLeadingZeros",
	ir.MathCountOneBits: "CountOneBits", ir.MathReverseBits: "ReverseBits", ir.MathExtractBits: "ExtractBits",
	ir.MathInsertBits: "InsertBits", ir.MathFirstTrailingBit: "FirstTrailingBit", ir.MathFirstLeadingBit: "FirstLeadingBit",
}

var phiKeys = map[ir.PhiPredKey]string{
	ir.PhiPredIfAccept: "IfAccept", ir.PhiPredIfReject: "IfReject", ir.PhiPredLoopInit: "LoopInit", ir.PhiPredLoopBackEdge: "LoopBackEdge",
	ir.PhiPredSwitchCase: "SwitchCase", ir.PhiPredFallThrough: "FallThrough",
}

func eh(h ir.ExpressionHandle) int { return h32(uint32(h)) }

func expression(e ir.Expression) N {
	switch k := e.Kind.(type) {
	case ir.Literal:
		return literal(k.Value)
	case ir.ExprConstant:
		return N{"k": "Constant", "c": h32(uint32(k.Constant))}
	case ir.ExprOverride:
		return N{"k": "Override", "o": h32(uint32(k.Override))}
	case ir.ExprZeroValue:
		return N{"k": "ZeroValue", "ty": h32(uint32(k.Type))}
	case ir.ExprCompose:
		cs := make([]int, len(k.Components))
		for i, c := range k.Components {
			cs[i] = eh(c)
		}
		return N{"k": "Compose", "ty": h32(uint32(k.Type)), "cs": cs}
	case ir.ExprAccess:
		return N{"k": "Access", "base": eh(k.Base), "index": eh(k.Index)}
	case ir.ExprAccessIndex:
		return N{"k": "AccessIndex", "base": eh(k.Base), "index": h32(k.Index)}
	case ir.ExprSplat:
		return N{"k": "Splat", "n": int(k.Size), "v": eh(k.Value)}
	case ir.ExprSwizzle:
		n := int(k.Size)
		if n < 0 || n > 4 {
			n = 4
		}
		pat := make([]int, n)
		for i := 0; i < n; i++ {
			pat[i] = int(k.Pattern[i])
		}
		return N{"k": "Swizzle", "n": int(k.Size), "v": eh(k.Vector), "pat": pat}
	case ir.ExprFunctionArgument:
		return N{"k": "FunctionArgument", "i": h32(k.Index)}
	case ir.ExprGlobalVariable:
		return N{"k": "GlobalVariable", "g": h32(uint32(k.Variable))}
	case ir.ExprLocalVariable:
		return N{"k": "LocalVariable", "l": h32(k.Variable)}
	case ir.ExprLoad:
		return N{"k": "Load", "p": eh(k.Pointer)}
	case ir.ExprAlias:
		return N{"k": "Alias", "src": eh(k.Source)}
	case ir.ExprPhi:
		inc := make([]N, len(k.Incoming))
		for i, p := range k.Incoming {
			inc[i] = N{"pk": phiKeys[p.PredKey], "ci": h32(p.CaseIdx), "v": eh(p.Value)}
		}
		return N{"k": "Phi", "inc": inc}
	case ir.ExprUnary:
		return N{"k": "Unary", "op": unaryNames[k.Op], "e": eh(k.Expr)}
	case ir.ExprBinary:
		return N{"k": "Binary", "op": binaryNames[k.Op], "l": eh(k.Left), "r": eh(k.Right)}
	case ir.ExprSelect:
		return N{"k": "Select", "c": eh(k.Condition), "a": eh(k.Accept), "r": eh(k.Reject)}
	case ir.ExprRelational:
		return N{"k": "Relational", "f": relNames[k.Fun], "a": eh(k.Argument)}
	case ir.ExprMath:
		args := []int{eh(k.Arg)}
		for _, p := range []*ir.ExpressionHandle{k.Arg1, k.Arg2, k.Arg3} {
			if p != nil {
				args = append(args, eh(*p))
			}
		}
		f, ok := mathNames[k.Fun]
		if !ok {
			f = fmt.Sprintf("other:%d", k.Fun)
		}
		return N{"k": "Math", "f": f, "args": args}
	case ir.ExprAs:
		conv := 0
		if k.Convert != nil {
			conv = int(*k.Convert)
		}
		return N{"k": "As", "e": eh(k.Expr), "sk": asKind(k.Kind), "conv": conv}
	case ir.ExprCallResult:
		return N{"k": "CallResult", "f": h32(uint32(k.Function))}
	case ir.ExprArrayLength:
		return N{"k": "ArrayLength", "a": eh(k.Array)}
	case ir.ExprAtomicResult:
		c := 0
		if k.Comparison {
			c = 1
		}
		return N{"k": "AtomicResult", "ty": h32(uint32(k.Ty)), "cmp": c}
	case nil:
		return N{"k": "Other", "what": "nil"}
	}
	return N{"k": "Other", "what": reflect.TypeOf(e.Kind).Name()}
}

func atomicFun(f ir.AtomicFunction) (string, int) {
	switch v := f.(type) {
	case ir.AtomicAdd:
		return "Add", -1
	case ir.AtomicSubtract:
		return "Subtract", -1
	case ir.AtomicAnd:
		return "And", -1
	case ir.AtomicExclusiveOr:
		return "ExclusiveOr", -1
	case ir.AtomicInclusiveOr:
		return "InclusiveOr", -1
	case ir.AtomicMin:
		return "Min", -1
	case ir.AtomicMax:
		return "Max", -1
	case ir.AtomicExchange:
		return "Exchange", opt(v.Compare)
	case ir.AtomicStore:
		return "Store", -1
	case ir.AtomicLoad:
		return "Load", -1
	}
	return "Other", -1
}

func block(b []ir.Statement) []N {
	out := make([]N, len(b))
	for i, s := range b {
		out[i] = statement(s)
	}
	return out
}

func statement(s ir.Statement) N {
	switch k := s.Kind.(type) {
	case ir.StmtEmit:
		return N{"k": "Emit", "s": eh(k.Range.Start), "e": eh(k.Range.End)}
	case ir.StmtBlock:
		return N{"k": "Block", "b": block(k.Block)}
	case ir.StmtIf:
		return N{"k": "If", "c": eh(k.Condition), "a": block(k.Accept), "r": block(k.Reject)}
	case ir.StmtSwitch:
		cs := make([]N, len(k.Cases))
		for i, c := range k.Cases {
			def, v := 0, 0
			switch sv := c.Value.(type) {
			case ir.SwitchValueI32:
				v = int(int32(sv))
			case ir.SwitchValueU32:
				v = int(int32(uint32(sv)))
			default:
				def = 1
			}
			ft := 0
			if c.FallThrough {
				ft = 1
			}
			cs[i] = N{"def": def, "v": v, "ft": ft, "b": block(c.Body)}
		}
		return N{"k": "Switch", "sel": eh(k.Selector), "cases": cs}
	case ir.StmtLoop:
		return N{"k": "Loop", "b": block(k.Body), "c": block(k.Continuing), "bi": opt(k.BreakIf)}
	case ir.StmtBreak:
		return N{"k": "Break"}
	case ir.StmtContinue:
		return N{"k": "Continue"}
	case ir.StmtReturn:
		return N{"k": "Return", "v": opt(k.Value)}
	case ir.StmtKill:
		return N{"k": "Kill"}
	case ir.StmtBarrier:
		return N{"k": "Barrier"}
	case ir.StmtStore:
		return N{"k": "Store", "p": eh(k.Pointer), "v": eh(k.Value)}
	case ir.StmtAtomic:
		f, cmp := atomicFun(k.Fun)
		return N{"k": "Atomic", "p": eh(k.Pointer), "f": f, "cmp": cmp, "v": eh(k.Value), "res": opt(k.Result)}
	case ir.StmtCall:
		args := make([]int, len(k.Arguments))
		for i, a := range k.Arguments {
			args[i] = eh(a)
		}
		return N{"k": "Call", "f": h32(uint32(k.Function)), "args": args, "res": opt(k.Result)}
	case nil:
		return N{"k": "Other", "what": "nil"}
	}
	return N{"k": "Other", "what": reflect.TypeOf(s.Kind).Name()}
}

var builtinNames = map[ir.BuiltinValue]string{
	ir.BuiltinLocalInvocationID: "local_invocation_id", ir.BuiltinLocalInvocationIndex: "local_invocation_index",
	ir.BuiltinGlobalInvocationID: "global_invocation_id", ir.BuiltinWorkGroupID: "workgroup_id", ir.BuiltinNumWorkGroups: "num_workgroups",
}

func bindingName(p *ir.Binding) string {
	if p == nil {
		return ""
	}
	switch v := (*p).(type) {
	case ir.BuiltinBinding:
		if n, ok := builtinNames[v.Builtin]; ok {
			return n
		}
		return fmt.Sprintf("builtin:%d", v.Builtin)
	case ir.LocationBinding:
		return fmt.Sprintf("location:%d", v.Location)
	}
	return ""
}

func function(f *ir.Function) N {
	args := make([]N, len(f.Arguments))
	for i, a := range f.Arguments {
		args[i] = N{"name": a.Name, "ty": h32(uint32(a.Type)), "builtin": bindingName(a.Binding)}
	}
	res := -1
	if f.Result != nil {
		res = h32(uint32(f.Result.Type))
	}
	locals := make([]N, len(f.LocalVars))
	for i, l := range f.LocalVars {
		locals[i] = N{"name": l.Name, "ty": h32(uint32(l.Type)), "init": opt(l.Init)}
	}
	exprs := make([]N, len(f.Expressions))
	for i, e := range f.Expressions {
		exprs[i] = expression(e)
	}
	return N{"name": f.Name, "args": args, "result": res, "locals": locals, "exprs": exprs, "body": block(f.Body)}
}

// Export transcribes the module.
func Export(m *ir.Module) N {
	types := make([]N, len(m.Types))
	for i, t := range m.Types {
		types[i] = typeInner(t.Inner)
		types[i]["name"] = t.Name
	}
	consts := make([]N, len(m.Constants))
	for i, c := range m.Constants {
		consts[i] = N{"name": c.Name, "ty": h32(uint32(c.Type)), "init": eh(c.Init)}
	}
	globals := make([]N, len(m.GlobalVariables))
	for i, g := range m.GlobalVariables {
		grp, bnd := -1, -1
		if g.Binding != nil {
			grp, bnd = h32(g.Binding.Group), h32(g.Binding.Binding)
		}
		acc := "rw"
		if g.Access == ir.StorageRead {
			acc = "r"
		}
		globals[i] = N{"name": g.Name, "space": spaceNames[g.Space], "access": acc, "ty": h32(uint32(g.Type)), "group": grp, "binding": bnd, "init": opt(g.InitExpr)}
	}
	gexprs := make([]N, len(m.GlobalExpressions))
	for i, e := range m.GlobalExpressions {
		gexprs[i] = expression(e)
	}
	fns := make([]N, len(m.Functions))
	for i := range m.Functions {
		fns[i] = function(&m.Functions[i])
	}
	eps := make([]N, len(m.EntryPoints))
	for i := range m.EntryPoints {
		ep := &m.EntryPoints[i]
		stage := "other"
		if ep.Stage == ir.StageCompute {
			stage = "compute"
		}
		eps[i] = N{"name": ep.Name, "stage": stage, "wg": []int{h32(ep.Workgroup[0]), h32(ep.Workgroup[1]), h32(ep.Workgroup[2])}, "fn": function(&ep.Function)}
	}
	return N{"types": types, "consts": consts, "globals": globals, "gexprs": gexprs, "fns": fns, "eps": eps, "noverrides": len(m.Overrides)}
}
