// Package xrt holds the types shared by the executors for emitted code
// (SPIR-V binary, HLSL, MSL and GLSL text).  An executor is the "hardware" of
// the verification harness: it reads naga's output according to the *target*
// language's own semantics, independently of naga's code, runs one invocation
// of one entry point over byte buffers and reports the final buffer contents.
package xrt

// Input describes one invocation of one entry point.
type Input struct {
	// Entry is the entry point name as it appears in the emitted code.
	Entry string
	// Buffers maps a target-specific slot key to the buffer contents.  Stores
	// performed by the shader mutate the slices in place.  Slot keys:
	//   SPIR-V: "<DescriptorSet>.<Binding>"          e.g. "0.1"
	//   GLSL:   "<G>.<B>" taken from the identifier `_group_<G>_binding_<B>_..`
	//           that naga gives the block member, else "binding=<N>" from a
	//           layout(binding=N) qualifier
	//   HLSL:   "<reg><N>.<space>"                   e.g. "u0.0", "t3.1", "b1.0"
	//   MSL:    "buffer(<N>)"
	Buffers map[string][]byte
	// Built-in inputs of the invocation (all default to zero / {1,1,1}).
	LocalID       [3]uint32
	WorkgroupID   [3]uint32
	NumWorkgroups [3]uint32
	// MaxSteps bounds the number of executed statements/instructions (fuel);
	// 0 means 1_000_000.  Exhausting it is reported as Skip "fuel".
	MaxSteps int
	// TraceAccesses asks for a record of every buffer access.
	TraceAccesses bool
}

// Access is one access to a bound buffer.
type Access struct {
	Slot   string
	Offset int
	Size   int
	Write  bool
}

// Outcome is what happened.  At most one of Trap and Skip is set.
type Outcome struct {
	// Trap is non-empty when execution reached an operation whose behaviour the
	// target language leaves undefined (or a value it leaves undefined was
	// used): the text says which ("sdiv by zero", "shift count 33 >= 32",
	// "out-of-bounds access chain index 9 of 8", "read of uninitialised
	// variable x", "float-to-int conversion of NaN", ...).
	Trap string
	// Skip is non-empty when the executor cannot judge the program: a construct
	// outside its subset, a parse failure, fuel exhausted.
	Skip string
	// Steps is the number of executed statements/instructions.
	Steps int
	// Accesses is filled when Input.TraceAccesses is set.
	Accesses []Access
}

// OK reports whether execution completed without trap or skip.
func (o Outcome) OK() bool { return o.Trap == "" && o.Skip == "" }
