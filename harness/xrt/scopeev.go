package xrt

// ScopeEv is one event of the declaration / reference stream that the
// independent readers of emitted text (glslx, hlslx, mslx) record while they
// resolve names.  The stream is what spec/Scopes.tla consumes (property C16):
// the readers only say WHERE scopes open and close, WHICH token declares a name
// and WHICH token uses one; the resolution itself is redone by the
// specification.
//
//	Op "open"   a scope opens; Kind = "unit" | "struct" | "block" | "function" | "body"
//	Op "close"  the innermost scope closes
//	Op "decl"   Name is declared in the innermost scope; Kind is the reader's
//	            declaration kind; Decl the index into Decls(); Sig the parameter
//	            type list of a function (overloads differ in it)
//	Op "ref"    Name is used; Kind = "var" | "call" | "type" | "member";
//	            Decl = index of the declaration the READER resolved it to (-1 none);
//	            Builtin: a name the language or its library supplies;
//	            Member: a field designator resolved through the object's type
//	Op "field"  a field designator the reader does not resolve (swizzle or member)
type ScopeEv struct {
	Op      string
	Kind    string
	Name    string
	Sig     string
	Line    int
	Col     int
	Decl    int
	Builtin bool
	Member  bool
}
