// Package wg is the WGSL side of the harness: type trees and programs in the
// JSON form shared with the TLA+ specifications, and their printing as WGSL.
package wg

import (
	"fmt"
	"strings"
)

// AType is a host-shareable type, annotated by Layout.tla with the sizes,
// alignments, strides and offsets WGSL prescribes (fields Sz/Al/Stride/MStride/Off).
type AType struct {
	K       string    `json:"k"` // i32 u32 f32 f16 bool atomic vec mat arr struct
	N       int       `json:"n,omitempty"`
	C       int       `json:"c,omitempty"`
	R       int       `json:"r,omitempty"`
	E       *AType    `json:"e,omitempty"`
	Name    string    `json:"name,omitempty"`
	Ms      []AMember `json:"ms,omitempty"`
	Sz      int       `json:"sz,omitempty"`
	Al      int       `json:"al,omitempty"`
	Stride  int       `json:"stride,omitempty"`
	MStride int       `json:"mstride,omitempty"`
}

// AMember is a struct member with its attributes (0 = absent) and prescribed placement.
type AMember struct {
	Name   string `json:"name"`
	Ty     *AType `json:"ty"`
	Align  int    `json:"align"`
	Size   int    `json:"size"`
	Off    int    `json:"off"`
	ESize  int    `json:"esize"`
	EAlign int    `json:"ealign"`
}

// IsScalar reports whether t is a scalar type.
func (t *AType) IsScalar() bool {
	switch t.K {
	case "i32", "u32", "f32", "f16", "bool":
		return true
	}
	return false
}

// WGSL prints the type; struct names are prefixed with pfx.
func (t *AType) WGSL(pfx string) string {
	switch t.K {
	case "atomic":
		return "atomic<" + t.E.WGSL(pfx) + ">"
	case "vec":
		return fmt.Sprintf("vec%d<%s>", t.N, t.E.WGSL(pfx))
	case "mat":
		return fmt.Sprintf("mat%dx%d<%s>", t.C, t.R, t.E.WGSL(pfx))
	case "arr":
		if t.N == 0 {
			return "array<" + t.E.WGSL(pfx) + ">"
		}
		return fmt.Sprintf("array<%s, %d>", t.E.WGSL(pfx), t.N)
	case "struct":
		return pfx + t.Name
	}
	return t.K
}

// UsesF16 reports whether the tree mentions f16.
func (t *AType) UsesF16() bool {
	if t == nil {
		return false
	}
	if t.K == "f16" {
		return true
	}
	if t.E.UsesF16() {
		return true
	}
	for _, m := range t.Ms {
		if m.Ty.UsesF16() {
			return true
		}
	}
	return false
}

// StructDecls appends the declarations of every struct in the tree (innermost
// first, each name once) to sb.
func (t *AType) StructDecls(pfx string, seen map[string]bool, sb *strings.Builder) {
	if t == nil {
		return
	}
	t.E.StructDecls(pfx, seen, sb)
	if t.K != "struct" {
		return
	}
	for _, m := range t.Ms {
		m.Ty.StructDecls(pfx, seen, sb)
	}
	if seen[pfx+t.Name] {
		return
	}
	seen[pfx+t.Name] = true
	fmt.Fprintf(sb, "struct %s%s {\n", pfx, t.Name)
	for _, m := range t.Ms {
		sb.WriteString("  ")
		if m.Align != 0 {
			fmt.Fprintf(sb, "@align(%d) ", m.Align)
		}
		if m.Size != 0 {
			fmt.Fprintf(sb, "@size(%d) ", m.Size)
		}
		fmt.Fprintf(sb, "%s: %s,\n", m.Name, m.Ty.WGSL(pfx))
	}
	sb.WriteString("}\n")
}

// Leaf is one scalar leaf of a type tree: the WGSL access path from a variable
// of that type and the byte offset WGSL prescribes.
type Leaf struct {
	Path   string // e.g. ".m1[2][0].x"  (matrix: [col][row])
	Off    int
	Scalar string
	Atomic bool
}

// Leaves enumerates the scalar leaves; runtime arrays contribute `rt` elements.
func (t *AType) Leaves(rt int) []Leaf {
	var out []Leaf
	var walk func(t *AType, path string, off int, atomic bool)
	walk = func(t *AType, path string, off int, atomic bool) {
		switch t.K {
		case "atomic":
			walk(t.E, path, off, true)
		case "vec":
			for i := 0; i < t.N; i++ {
				out = append(out, Leaf{Path: fmt.Sprintf("%s[%d]", path, i), Off: off + i*scalarSize(t.E.K), Scalar: t.E.K})
			}
		case "mat":
			for c := 0; c < t.C; c++ {
				for r := 0; r < t.R; r++ {
					out = append(out, Leaf{Path: fmt.Sprintf("%s[%d][%d]", path, c, r), Off: off + c*t.MStride + r*scalarSize(t.E.K), Scalar: t.E.K})
				}
			}
		case "arr":
			n := t.N
			if n == 0 {
				n = rt
			}
			for i := 0; i < n; i++ {
				walk(t.E, fmt.Sprintf("%s[%d]", path, i), off+i*t.Stride, false)
			}
		case "struct":
			for _, m := range t.Ms {
				walk(m.Ty, path+"."+m.Name, off+m.Off, false)
			}
		default:
			out = append(out, Leaf{Path: path, Off: off, Scalar: t.K, Atomic: atomic})
		}
	}
	walk(t, "", 0, false)
	return out
}

func scalarSize(k string) int {
	if k == "f16" {
		return 2
	}
	return 4
}
