package wg

import (
	"fmt"
	"math"
	"strconv"
	"strings"
)

// PrintOv renders a probe program of the override family (spec/OverridesGen.tla): the program JSON has, besides the
// fields Print knows, "overrides": [{name, ty, id (-1 = no @id), init (expression or {k:"none"})}] in declaration
// order, and the entry point may carry "wgx": an override-expression for the x workgroup size.
//
// Differences from Print: f32 literals are printed without suffix (1.5) unless the literal node has "sfx":1 (1.5f);
// only the expression and statement forms the family uses are handled.
func PrintOv(p N) string {
	var sb strings.Builder
	for _, c := range L(p, "consts") {
		fmt.Fprintf(&sb, "const %s: %s = %s;\n", S(c, "name"), TypeStr(Sub(c, "ty")), ovExpr(Sub(c, "e")))
	}
	for _, o := range L(p, "overrides") {
		if id := I(o, "id"); id >= 0 {
			fmt.Fprintf(&sb, "@id(%d) ", id)
		}
		fmt.Fprintf(&sb, "override %s: %s", S(o, "name"), TypeStr(Sub(o, "ty")))
		if init := Sub(o, "init"); init != nil && K(init) != "none" {
			fmt.Fprintf(&sb, " = %s", ovExpr(init))
		}
		sb.WriteString(";\n")
	}
	for _, g := range L(p, "globals") {
		switch S(g, "space") {
		case "storage":
			fmt.Fprintf(&sb, "@group(%d) @binding(%d) var<storage, read_write> %s: %s;\n", I(g, "group"), I(g, "binding"), S(g, "name"), TypeStr(Sub(g, "ty")))
		default:
			fmt.Fprintf(&sb, "var<%s> %s: %s", S(g, "space"), S(g, "name"), TypeStr(Sub(g, "ty")))
			if init := Sub(g, "init"); init != nil && K(init) != "none" {
				fmt.Fprintf(&sb, " = %s", ovExpr(init))
			}
			sb.WriteString(";\n")
		}
	}
	for _, f := range L(p, "fns") {
		if I(f, "entry") == 1 {
			x := "1"
			if w := Sub(f, "wgx"); w != nil && K(w) != "none" {
				x = ovExpr(w)
			}
			fmt.Fprintf(&sb, "@compute @workgroup_size(%s, 1, 1)\n", x)
		}
		fmt.Fprintf(&sb, "fn %s() {\n", S(f, "name"))
		for _, s := range L(f, "body") {
			if K(s) == "asg" {
				fmt.Fprintf(&sb, "  %s = %s;\n", ovRef(Sub(s, "r")), ovExpr(Sub(s, "e")))
			} else {
				fmt.Fprintf(&sb, "  /*?%s*/;\n", K(s))
			}
		}
		sb.WriteString("}\n")
	}
	return sb.String()
}

func ovLit(e N) string {
	t := Sub(e, "t")
	v := int32(I(e, "v"))
	if K(t) != "f32" {
		return litStr(t, v)
	}
	f := math.Float32frombits(uint32(v))
	s := strconv.FormatFloat(float64(f), 'g', -1, 32)
	if !strings.ContainsAny(s, ".e") {
		s += ".0"
	}
	if I(e, "sfx") == 1 {
		s += "f"
	}
	if f < 0 || (f == 0 && math.Signbit(float64(f))) {
		return "(" + s + ")"
	}
	return s
}

func ovRef(r N) string {
	switch K(r) {
	case "rvar":
		return S(r, "n")
	case "ridx":
		return fmt.Sprintf("%s[%s]", ovRef(Sub(r, "b")), ovExpr(Sub(r, "i")))
	}
	return "/*?ref*/"
}

func ovExpr(e N) string {
	switch K(e) {
	case "lit":
		return ovLit(e)
	case "id":
		return S(e, "n")
	case "load":
		return ovRef(Sub(e, "r"))
	case "bin":
		return fmt.Sprintf("(%s %s %s)", ovExpr(Sub(e, "a")), S(e, "op"), ovExpr(Sub(e, "b")))
	case "un":
		return fmt.Sprintf("(%s%s)", S(e, "op"), ovExpr(Sub(e, "a")))
	case "bi":
		var as []string
		for _, a := range L(e, "args") {
			as = append(as, ovExpr(a))
		}
		return fmt.Sprintf("%s(%s)", S(e, "f"), strings.Join(as, ", "))
	case "cast":
		return fmt.Sprintf("%s(%s)", TypeStr(Sub(e, "t")), ovExpr(Sub(e, "a")))
	case "bitcast":
		return fmt.Sprintf("bitcast<%s>(%s)", TypeStr(Sub(e, "t")), ovExpr(Sub(e, "a")))
	}
	return "/*?" + K(e) + "*/"
}
