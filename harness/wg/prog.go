package wg

import (
	"fmt"
	"math"
	"strconv"
	"strings"
)

// N is a node of the program JSON shared with WgslSem.tla (types, expressions,
// statements, declarations).  Field names are those the specification reads.
type N = map[string]any

// ---- types ----------------------------------------------------------------

var (
	I32  = N{"k": "i32"}
	U32  = N{"k": "u32"}
	F32  = N{"k": "f32"}
	Bool = N{"k": "bool"}
	Void = N{"k": "void"}
	None = N{"k": "none"}
)

func Vec(n int, e N) N       { return N{"k": "vec", "n": n, "e": e} }
func Mat(c, r int, e N) N    { return N{"k": "mat", "c": c, "r": r, "e": e} }
func Arr(e N, n int) N       { return N{"k": "arr", "e": e, "n": n} }
func StructT(name string) N  { return N{"k": "struct", "name": name} }
func Atomic(e N) N           { return N{"k": "atomic", "e": e} }
func Ptr(space string, e N) N { return N{"k": "ptr", "space": space, "e": e} }

func K(n N) string { s, _ := n["k"].(string); return s }
func I(n N, f string) int {
	switch v := n[f].(type) {
	case int:
		return v
	case int32:
		return int(v)
	case int64:
		return int(v)
	case float64:
		return int(v)
	}
	return 0
}
func S(n N, f string) string { s, _ := n[f].(string); return s }
func Sub(n N, f string) N {
	if m, ok := n[f].(N); ok {
		return m
	}
	if m, ok := n[f].(map[string]any); ok {
		return m
	}
	return nil
}
func L(n N, f string) []N {
	switch v := n[f].(type) {
	case []N:
		return v
	case []any:
		out := make([]N, len(v))
		for i, x := range v {
			out[i], _ = x.(map[string]any)
		}
		return out
	}
	return nil
}

// IsScalar reports whether t is a scalar type.
func IsScalar(t N) bool {
	switch K(t) {
	case "i32", "u32", "f32", "bool":
		return true
	}
	return false
}

// ScalarOf returns the scalar kind of a scalar/vector/matrix/atomic type.
func ScalarOf(t N) N {
	switch K(t) {
	case "vec", "mat", "atomic":
		return Sub(t, "e")
	}
	return t
}

// TypeStr prints a type.
func TypeStr(t N) string {
	switch K(t) {
	case "vec":
		return fmt.Sprintf("vec%d<%s>", I(t, "n"), TypeStr(Sub(t, "e")))
	case "mat":
		return fmt.Sprintf("mat%dx%d<%s>", I(t, "c"), I(t, "r"), TypeStr(Sub(t, "e")))
	case "arr":
		if I(t, "n") == 0 {
			return "array<" + TypeStr(Sub(t, "e")) + ">"
		}
		return fmt.Sprintf("array<%s, %d>", TypeStr(Sub(t, "e")), I(t, "n"))
	case "struct":
		return S(t, "name")
	case "atomic":
		return "atomic<" + TypeStr(Sub(t, "e")) + ">"
	case "ptr":
		if S(t, "access") == "rw" {
			return fmt.Sprintf("ptr<%s, %s, read_write>", S(t, "space"), TypeStr(Sub(t, "e")))
		}
		return fmt.Sprintf("ptr<%s, %s>", S(t, "space"), TypeStr(Sub(t, "e")))
	}
	return K(t)
}

// ---- expressions ------------------------------------------------------------

func Lit(t N, v int32) N     { return N{"k": "lit", "t": t, "v": int(v)} }
func LitI(v int32) N         { return Lit(I32, v) }
func LitU(v uint32) N        { return Lit(U32, int32(v)) }
func LitF(f float32) N       { return Lit(F32, int32(math.Float32bits(f))) }
func LitB(b bool) N          { v := int32(0); if b { v = 1 }; return Lit(Bool, v) }
func Id(n string, t N) N     { return N{"k": "id", "n": n, "t": t} }
func Load(r N) N             { return N{"k": "load", "r": r, "t": r["t"]} }
func Addr(r N, space string) N { return N{"k": "addr", "r": r, "t": Ptr(space, r["t"].(N))} }
func RVar(n string, t N) N   { return N{"k": "rvar", "n": n, "t": t} }
func RMem(b N, m int, name string, t N) N {
	return N{"k": "rmem", "b": b, "m": m, "name": name, "t": t}
}
func RIdx(b, i, t N) N      { return N{"k": "ridx", "b": b, "i": i, "t": t} }
func RDeref(p N) N          { return N{"k": "rderef", "p": p, "t": Sub(p["t"].(N), "e")} }
func Bin(op string, t, a, b N) N { return N{"k": "bin", "op": op, "t": t, "a": a, "b": b} }
func Un(op string, t, a N) N { return N{"k": "un", "op": op, "t": t, "a": a} }
func Call(f string, t N, args ...N) N { return N{"k": "call", "f": f, "t": t, "args": nn(args)} }
func Bi(f string, t N, args ...N) N   { return N{"k": "bi", "f": f, "t": t, "args": nn(args)} }
func Ctor(t N, args ...N) N  {
	if args == nil {
		args = []N{}
	}
	return N{"k": "ctor", "t": t, "args": args}
}
func Cast(t, a N) N          { return N{"k": "cast", "t": t, "a": a} }
func Bitcast(t, a N) N       { return N{"k": "bitcast", "t": t, "a": a} }
func Swz(t, a N, s ...int) N { return N{"k": "swz", "t": t, "a": a, "s": s} }
func Idx(t, a, i N) N        { return N{"k": "idx", "t": t, "a": a, "i": i} }
func Mem(t, a N, m int, name string) N {
	return N{"k": "mem", "t": t, "a": a, "m": m, "name": name}
}

// ---- statements -------------------------------------------------------------

func Let(n string, e N) N          { return N{"k": "let", "n": n, "e": e} }
func Var(n string, t, init N) N    { return N{"k": "var", "n": n, "t": t, "init": init} }
func Asg(r, e N) N                 { return N{"k": "asg", "r": r, "e": e} }
func CAsg(op string, r, e N) N     { return N{"k": "casg", "op": op, "r": r, "e": e} }
func Inc(r N) N                    { return N{"k": "inc", "r": r} }
func Dec(r N) N                    { return N{"k": "dec", "r": r} }
func Phony(e N) N                  { return N{"k": "phony", "e": e} }
func If(c N, a, b []N) N           { return N{"k": "if", "c": c, "a": nn(a), "b": nn(b)} }
func Block(body []N) N             { return N{"k": "block", "body": nn(body)} }
func Loop(body, cont []N, brkif N) N {
	return N{"k": "loop", "body": nn(body), "cont": nn(cont), "brkif": brkif}
}
func While(c N, body []N) N        { return N{"k": "while", "c": c, "body": nn(body)} }
func For(init, c, upd N, body []N) N {
	return N{"k": "for", "init": init, "c": c, "upd": upd, "body": nn(body)}
}
func Case(sel []int, def bool, body []N) N {
	d := 0
	if def {
		d = 1
	}
	if sel == nil {
		sel = []int{}
	}
	return N{"sel": sel, "def": d, "body": nn(body)}
}
func Switch(e N, cases ...N) N { return N{"k": "switch", "e": e, "cases": cases} }
func Break() N                 { return N{"k": "break"} }
func Continue() N              { return N{"k": "continue"} }
func Ret(e N) N                { return N{"k": "ret", "e": e} }
func CallS(f string, args ...N) N {
	if args == nil {
		args = []N{}
	}
	return N{"k": "call", "f": f, "args": args}
}
func BiStmt(e N) N { return N{"k": "bistmt", "e": e} }

func nn(a []N) []N {
	if a == nil {
		return []N{}
	}
	return a
}

// ---- declarations -----------------------------------------------------------

func Member(name string, ty N) N { return N{"name": name, "ty": ty, "align": 0, "size": 0} }
func StructDecl(name string, ms ...N) N {
	return N{"name": name, "ms": ms}
}
func Global(name, space, access string, ty N, group, binding int, init N) N {
	return N{"name": name, "space": space, "access": access, "ty": ty, "group": group, "binding": binding, "init": init}
}
func Const(name string, ty, e N) N { return N{"name": name, "ty": ty, "e": e} }
func Param(name string, ty N) N    { return N{"name": name, "ty": ty, "builtin": ""} }
func BuiltinParam(name string, ty N, b string) N {
	return N{"name": name, "ty": ty, "builtin": b}
}
func Fn(name string, params []N, ret N, body []N) N {
	return N{"name": name, "params": nn(params), "ret": ret, "body": nn(body), "entry": 0, "wg": []int{1, 1, 1}}
}
func Entry(name string, params []N, body []N) N {
	return N{"name": name, "params": nn(params), "ret": Void, "body": nn(body), "entry": 1, "wg": []int{1, 1, 1}}
}
func Program(structs, consts, globals, fns []N) N {
	return N{"structs": nn(structs), "consts": nn(consts), "globals": nn(globals), "fns": nn(fns)}
}

// ---- printing -----------------------------------------------------------------

// PrintOpts varies the concrete syntax without changing the meaning.
type PrintOpts struct {
	// LitStyle: "" = suffixed literals (1i, 2u, 3.0f); "abstract" = unsuffixed where the type is implied by a wrapping constructor
	LitStyle string
}

// Print renders the program as WGSL.
func Print(p N) string { return PrintWith(p, PrintOpts{}) }

// PrintWith renders the program as WGSL with the given options.
func PrintWith(p N, o PrintOpts) string {
	var sb strings.Builder
	pr := &printer{sb: &sb, o: o}
	for _, s := range L(p, "structs") {
		fmt.Fprintf(&sb, "struct %s {\n", S(s, "name"))
		for _, m := range L(s, "ms") {
			sb.WriteString("  ")
			if a := I(m, "align"); a != 0 {
				fmt.Fprintf(&sb, "@align(%d) ", a)
			}
			if a := I(m, "size"); a != 0 {
				fmt.Fprintf(&sb, "@size(%d) ", a)
			}
			fmt.Fprintf(&sb, "%s: %s,\n", S(m, "name"), TypeStr(Sub(m, "ty")))
		}
		sb.WriteString("}\n")
	}
	for _, c := range L(p, "consts") {
		fmt.Fprintf(&sb, "const %s: %s = %s;\n", S(c, "name"), TypeStr(Sub(c, "ty")), pr.expr(Sub(c, "e")))
	}
	for _, g := range L(p, "globals") {
		switch S(g, "space") {
		case "storage":
			acc := "read_write"
			if S(g, "access") == "r" {
				acc = "read"
			}
			fmt.Fprintf(&sb, "@group(%d) @binding(%d) var<storage, %s> %s: %s;\n", I(g, "group"), I(g, "binding"), acc, S(g, "name"), TypeStr(Sub(g, "ty")))
		case "uniform":
			fmt.Fprintf(&sb, "@group(%d) @binding(%d) var<uniform> %s: %s;\n", I(g, "group"), I(g, "binding"), S(g, "name"), TypeStr(Sub(g, "ty")))
		default:
			fmt.Fprintf(&sb, "var<%s> %s: %s", S(g, "space"), S(g, "name"), TypeStr(Sub(g, "ty")))
			if init := Sub(g, "init"); K(init) != "none" {
				fmt.Fprintf(&sb, " = %s", pr.expr(init))
			}
			sb.WriteString(";\n")
		}
	}
	for _, f := range L(p, "fns") {
		if I(f, "entry") == 1 {
			wg := f["wg"]
			x, y, z := 1, 1, 1
			switch w := wg.(type) {
			case []int:
				x, y, z = w[0], w[1], w[2]
			case []any:
				x, y, z = int(w[0].(float64)), int(w[1].(float64)), int(w[2].(float64))
			}
			fmt.Fprintf(&sb, "@compute @workgroup_size(%d, %d, %d)\n", x, y, z)
		}
		fmt.Fprintf(&sb, "fn %s(", S(f, "name"))
		for i, a := range L(f, "params") {
			if i > 0 {
				sb.WriteString(", ")
			}
			if b := S(a, "builtin"); b != "" {
				fmt.Fprintf(&sb, "@builtin(%s) ", b)
			}
			fmt.Fprintf(&sb, "%s: %s", S(a, "name"), TypeStr(Sub(a, "ty")))
		}
		sb.WriteString(")")
		if r := Sub(f, "ret"); K(r) != "void" {
			fmt.Fprintf(&sb, " -> %s", TypeStr(r))
		}
		sb.WriteString(" {\n")
		pr.block(L(f, "body"), 1)
		sb.WriteString("}\n")
	}
	return sb.String()
}

type printer struct {
	sb *strings.Builder
	o  PrintOpts
}

func ind(n int) string { return strings.Repeat("  ", n) }

func (p *printer) block(b []N, d int) {
	for _, s := range b {
		p.stmt(s, d)
	}
}

func (p *printer) simple(s N) string {
	switch K(s) {
	case "let":
		return fmt.Sprintf("let %s = %s", S(s, "n"), p.expr(Sub(s, "e")))
	case "var":
		if init := Sub(s, "init"); K(init) != "none" {
			return fmt.Sprintf("var %s: %s = %s", S(s, "n"), TypeStr(Sub(s, "t")), p.expr(init))
		}
		return fmt.Sprintf("var %s: %s", S(s, "n"), TypeStr(Sub(s, "t")))
	case "asg":
		return fmt.Sprintf("%s = %s", p.ref(Sub(s, "r")), p.expr(Sub(s, "e")))
	case "casg":
		return fmt.Sprintf("%s %s= %s", p.ref(Sub(s, "r")), S(s, "op"), p.expr(Sub(s, "e")))
	case "inc":
		return p.ref(Sub(s, "r")) + "++"
	case "dec":
		return p.ref(Sub(s, "r")) + "--"
	case "phony":
		return "_ = " + p.expr(Sub(s, "e"))
	case "call":
		return fmt.Sprintf("%s(%s)", S(s, "f"), p.args(L(s, "args")))
	case "bistmt":
		return p.expr(Sub(s, "e"))
	case "none":
		return ""
	}
	return "/*?" + K(s) + "*/"
}

func (p *printer) stmt(s N, d int) {
	sb := p.sb
	switch K(s) {
	case "if":
		fmt.Fprintf(sb, "%sif %s {\n", ind(d), p.expr(Sub(s, "c")))
		p.block(L(s, "a"), d+1)
		if b := L(s, "b"); len(b) > 0 {
			fmt.Fprintf(sb, "%s} else {\n", ind(d))
			p.block(b, d+1)
		}
		fmt.Fprintf(sb, "%s}\n", ind(d))
	case "block":
		fmt.Fprintf(sb, "%s{\n", ind(d))
		p.block(L(s, "body"), d+1)
		fmt.Fprintf(sb, "%s}\n", ind(d))
	case "loop":
		fmt.Fprintf(sb, "%sloop {\n", ind(d))
		p.block(L(s, "body"), d+1)
		cont, bi := L(s, "cont"), Sub(s, "brkif")
		if len(cont) > 0 || K(bi) != "none" {
			fmt.Fprintf(sb, "%scontinuing {\n", ind(d+1))
			p.block(cont, d+2)
			if K(bi) != "none" {
				fmt.Fprintf(sb, "%sbreak if %s;\n", ind(d+2), p.expr(bi))
			}
			fmt.Fprintf(sb, "%s}\n", ind(d+1))
		}
		fmt.Fprintf(sb, "%s}\n", ind(d))
	case "while":
		fmt.Fprintf(sb, "%swhile %s {\n", ind(d), p.expr(Sub(s, "c")))
		p.block(L(s, "body"), d+1)
		fmt.Fprintf(sb, "%s}\n", ind(d))
	case "for":
		c := ""
		if ce := Sub(s, "c"); K(ce) != "none" {
			c = p.expr(ce)
		}
		fmt.Fprintf(sb, "%sfor (%s; %s; %s) {\n", ind(d), p.simple(Sub(s, "init")), c, p.simple(Sub(s, "upd")))
		p.block(L(s, "body"), d+1)
		fmt.Fprintf(sb, "%s}\n", ind(d))
	case "switch":
		fmt.Fprintf(sb, "%sswitch %s {\n", ind(d), p.expr(Sub(s, "e")))
		et := Sub(Sub(s, "e"), "t")
		for _, c := range L(s, "cases") {
			var sels []string
			switch v := c["sel"].(type) {
			case []int:
				for _, x := range v {
					sels = append(sels, litStr(et, int32(x)))
				}
			case []any:
				for _, x := range v {
					sels = append(sels, litStr(et, int32(x.(float64))))
				}
			}
			if I(c, "def") == 1 {
				sels = append(sels, "default")
			}
			if len(sels) == 1 && sels[0] == "default" {
				fmt.Fprintf(sb, "%sdefault: {\n", ind(d+1))
			} else {
				fmt.Fprintf(sb, "%scase %s: {\n", ind(d+1), strings.Join(sels, ", "))
			}
			p.block(L(c, "body"), d+2)
			fmt.Fprintf(sb, "%s}\n", ind(d+1))
		}
		fmt.Fprintf(sb, "%s}\n", ind(d))
	case "break":
		fmt.Fprintf(sb, "%sbreak;\n", ind(d))
	case "continue":
		fmt.Fprintf(sb, "%scontinue;\n", ind(d))
	case "ret":
		if e := Sub(s, "e"); K(e) != "none" {
			fmt.Fprintf(sb, "%sreturn %s;\n", ind(d), p.expr(e))
		} else {
			fmt.Fprintf(sb, "%sreturn;\n", ind(d))
		}
	default:
		fmt.Fprintf(sb, "%s%s;\n", ind(d), p.simple(s))
	}
}

func (p *printer) args(as []N) string {
	var out []string
	for _, a := range as {
		out = append(out, p.expr(a))
	}
	return strings.Join(out, ", ")
}

var swzNames = "xyzw"

func litStr(t N, v int32) string {
	switch K(t) {
	case "i32":
		if v == math.MinInt32 {
			return "i32(-2147483648)"
		}
		if v < 0 {
			return fmt.Sprintf("(%di)", v)
		}
		return fmt.Sprintf("%di", v)
	case "u32":
		return fmt.Sprintf("%du", uint32(v))
	case "bool":
		if v != 0 {
			return "true"
		}
		return "false"
	case "f32":
		f := math.Float32frombits(uint32(v))
		s := strconv.FormatFloat(float64(f), 'g', -1, 32)
		if !strings.ContainsAny(s, ".e") {
			s += ".0"
		}
		s += "f"
		if f < 0 || (f == 0 && math.Signbit(float64(f))) {
			return "(" + s + ")"
		}
		return s
	}
	return fmt.Sprint(v)
}

func (p *printer) ref(r N) string {
	switch K(r) {
	case "rvar":
		return S(r, "n")
	case "rmem":
		return p.ref(Sub(r, "b")) + "." + S(r, "name")
	case "ridx":
		return fmt.Sprintf("%s[%s]", p.ref(Sub(r, "b")), p.expr(Sub(r, "i")))
	case "rderef":
		return "(*" + p.expr(Sub(r, "p")) + ")"
	}
	return "/*?ref*/"
}

func (p *printer) expr(e N) string {
	switch K(e) {
	case "lit":
		return litStr(Sub(e, "t"), int32(I(e, "v")))
	case "id":
		return S(e, "n")
	case "load":
		return p.ref(Sub(e, "r"))
	case "addr":
		return "(&" + p.ref(Sub(e, "r")) + ")"
	case "bin":
		return fmt.Sprintf("(%s %s %s)", p.expr(Sub(e, "a")), S(e, "op"), p.expr(Sub(e, "b")))
	case "un":
		return fmt.Sprintf("(%s%s)", S(e, "op"), p.expr(Sub(e, "a")))
	case "call", "bi":
		return fmt.Sprintf("%s(%s)", S(e, "f"), p.args(L(e, "args")))
	case "ctor":
		return fmt.Sprintf("%s(%s)", TypeStr(Sub(e, "t")), p.args(L(e, "args")))
	case "cast":
		return fmt.Sprintf("%s(%s)", TypeStr(Sub(e, "t")), p.expr(Sub(e, "a")))
	case "bitcast":
		return fmt.Sprintf("bitcast<%s>(%s)", TypeStr(Sub(e, "t")), p.expr(Sub(e, "a")))
	case "swz":
		var s string
		switch v := e["s"].(type) {
		case []int:
			for _, i := range v {
				s += string(swzNames[i])
			}
		case []any:
			for _, i := range v {
				s += string(swzNames[int(i.(float64))])
			}
		}
		return p.expr(Sub(e, "a")) + "." + s
	case "idx":
		return fmt.Sprintf("%s[%s]", p.expr(Sub(e, "a")), p.expr(Sub(e, "i")))
	case "mem":
		return p.expr(Sub(e, "a")) + "." + S(e, "name")
	}
	return "/*?" + K(e) + "*/"
}
