package c16x

import (
	"sort"
	"strings"
	"unicode"
	"unicode/utf8"
)

// WTok is one token of WGSL source text.
type WTok struct {
	Text  string
	Ident bool
	Start int // byte offset
}

// WgslTokens splits WGSL text into tokens (identifiers incl. non-ASCII XID,
// numbers, punctuation; comments and blankspace are dropped).
func WgslTokens(src string) []WTok {
	var out []WTok
	i, n := 0, len(src)
	for i < n {
		c := src[i]
		switch {
		case c == ' ' || c == '\t' || c == '\n' || c == '\r' || c == '\f' || c == '\v':
			i++
		case c == '/' && i+1 < n && src[i+1] == '/':
			for i < n && src[i] != '\n' {
				i++
			}
		case c == '/' && i+1 < n && src[i+1] == '*':
			depth := 1
			i += 2
			for i < n && depth > 0 {
				if strings.HasPrefix(src[i:], "/*") {
					depth++
					i += 2
				} else if strings.HasPrefix(src[i:], "*/") {
					depth--
					i += 2
				} else {
					i++
				}
			}
		case c >= '0' && c <= '9' || (c == '.' && i+1 < n && src[i+1] >= '0' && src[i+1] <= '9'):
			j := i + 1
			for j < n {
				d := src[j]
				if d == '.' || d == '_' || (d >= '0' && d <= '9') || (d >= 'a' && d <= 'z') || (d >= 'A' && d <= 'Z') {
					j++
				} else if (d == '+' || d == '-') && (src[j-1] == 'e' || src[j-1] == 'E' || src[j-1] == 'p' || src[j-1] == 'P') {
					j++
				} else {
					break
				}
			}
			out = append(out, WTok{Text: src[i:j], Start: i})
			i = j
		default:
			r, sz := utf8.DecodeRuneInString(src[i:])
			if r == '_' || unicode.IsLetter(r) || (r >= 0x80 && isXIDStart(r)) {
				j := i + sz
				for j < n {
					r2, s2 := utf8.DecodeRuneInString(src[j:])
					if r2 == '_' || unicode.IsLetter(r2) || unicode.IsDigit(r2) || (r2 >= 0x80 && isXIDContinue(r2)) {
						j += s2
					} else {
						break
					}
				}
				out = append(out, WTok{Text: src[i:j], Ident: true, Start: i})
				i = j
			} else {
				out = append(out, WTok{Text: src[i : i+sz], Start: i})
				i += sz
			}
		}
	}
	return out
}

func isXIDStart(r rune) bool { return unicode.IsLetter(r) || unicode.Is(unicode.Nl, r) }
func isXIDContinue(r rune) bool {
	return isXIDStart(r) || unicode.IsDigit(r) || unicode.Is(unicode.Mn, r) || unicode.Is(unicode.Mc, r) || unicode.Is(unicode.Pc, r)
}

// WDecl is one user declaration found in WGSL text.
type WDecl struct {
	Name string
	// Kind: struct, member, alias, const, override, global-private, global-workgroup, global-storage,
	// global-uniform, global-handle, fn, entry, param, let, var (function-local var), lconst (function-local const)
	Kind string
	Tok  int // index of the declaring token
}

// contextual names are only meaningful in particular syntactic positions
// (address spaces, access modes, built-in value names, interpolation, texel
// formats ...).  They are legal identifiers, but the renamer neither renames
// an entity that is so called nor uses them as new names, so that it never has
// to tell the two uses apart.
var contextual = wordSet(`function private workgroup uniform storage handle push_constant immediate read write read_write
 vertex_index instance_index position front_facing frag_depth sample_index sample_mask local_invocation_id
 local_invocation_index global_invocation_id workgroup_id num_workgroups subgroup_invocation_id subgroup_size
 primitive_index view_index clip_distances
 perspective linear flat center centroid sample first either
 rgba8unorm rgba8snorm rgba8uint rgba8sint rgba16uint rgba16sint rgba16float r32uint r32sint r32float rg32uint
 rg32sint rg32float rgba32uint rgba32sint rgba32float bgra8unorm r8unorm rg8unorm
 off info warning error derivative_uniformity subgroup_uniformity f16 clip_distances dual_source_blending subgroups
 align binding builtin compute const diagnostic fragment group id interpolate invariant location blend_src
 must_use size vertex workgroup_size`)

func wordSet(s string) map[string]bool {
	m := map[string]bool{}
	for _, w := range strings.Fields(s) {
		m[w] = true
	}
	return m
}

// IsContextual reports whether w is one of WGSL's context-dependent names.
func IsContextual(w string) bool { return contextual[w] }

var swizzleLetters = [2]string{"xyzw", "rgba"}

// LooksLikeSwizzle reports whether s could be a vector swizzle.
func LooksLikeSwizzle(s string) bool {
	if len(s) < 1 || len(s) > 4 {
		return false
	}
	for _, set := range swizzleLetters {
		ok := true
		for i := 0; i < len(s); i++ {
			if !strings.ContainsRune(set, rune(s[i])) {
				ok = false
				break
			}
		}
		if ok {
			return true
		}
	}
	return false
}

// WgslDecls finds the user declarations of a WGSL module by token patterns.
func WgslDecls(toks []WTok) []WDecl {
	var out []WDecl
	n := len(toks)
	txt := func(i int) string {
		if i >= 0 && i < n {
			return toks[i].Text
		}
		return ""
	}
	// skipAttrs: i at '@' -> index after the attribute
	skipAttrs := func(i int) int {
		for txt(i) == "@" {
			i += 2 // @ name
			if txt(i) == "(" {
				d := 0
				for i < n {
					if txt(i) == "(" {
						d++
					} else if txt(i) == ")" {
						d--
						if d == 0 {
							i++
							break
						}
					}
					i++
				}
			}
		}
		return i
	}
	// skipTemplate: i at '<' -> index after the matching '>'
	skipTemplate := func(i int) int {
		d := 0
		for i < n {
			switch txt(i) {
			case "<":
				d++
			case ">":
				d--
				if d == 0 {
					return i + 1
				}
			case ";", "{":
				return i
			}
			i++
		}
		return i
	}
	// list parses `name : type` items separated by ',' until the closing token
	list := func(i int, closer, kind string) int {
		for i < n && txt(i) != closer {
			i = skipAttrs(i)
			if i < n && toks[i].Ident && txt(i+1) == ":" {
				out = append(out, WDecl{Name: toks[i].Text, Kind: kind, Tok: i})
				i += 2
			}
			// skip the type up to ',' or closer at nesting depth 0
			d := 0
			for i < n {
				t := txt(i)
				if d == 0 && (t == "," || t == closer) {
					break
				}
				switch t {
				case "<", "(", "[":
					d++
				case ">", ")", "]":
					d--
				}
				i++
			}
			if txt(i) == "," {
				i++
			}
		}
		return i
	}
	depth := 0
	stage := ""
	for i := 0; i < n; i++ {
		t := toks[i]
		switch t.Text {
		case "{":
			depth++
			continue
		case "}":
			depth--
			continue
		case "@":
			if a := txt(i + 1); a == "compute" || a == "vertex" || a == "fragment" {
				stage = a
			}
			continue
		}
		if !t.Ident {
			continue
		}
		if i > 0 && (txt(i-1) == "." || txt(i-1) == "@") {
			continue
		}
		switch t.Text {
		case "struct":
			if toks[i+1].Ident && txt(i+2) == "{" {
				out = append(out, WDecl{Name: txt(i + 1), Kind: "struct", Tok: i + 1})
				j := list(i+3, "}", "member")
				i = j // at '}' (depth unchanged: we consumed '{' ourselves)
			}
		case "alias":
			if toks[i+1].Ident && txt(i+2) == "=" {
				out = append(out, WDecl{Name: txt(i + 1), Kind: "alias", Tok: i + 1})
			}
		case "const":
			if i+1 < n && toks[i+1].Ident && (txt(i+2) == ":" || txt(i+2) == "=") {
				k := "const"
				if depth > 0 {
					k = "lconst"
				}
				out = append(out, WDecl{Name: txt(i + 1), Kind: k, Tok: i + 1})
			}
		case "override":
			if i+1 < n && toks[i+1].Ident {
				out = append(out, WDecl{Name: txt(i + 1), Kind: "override", Tok: i + 1})
			}
		case "let":
			if i+1 < n && toks[i+1].Ident {
				out = append(out, WDecl{Name: txt(i + 1), Kind: "let", Tok: i + 1})
			}
		case "var":
			j := i + 1
			space := ""
			if txt(j) == "<" {
				space = txt(j + 1)
				j = skipTemplate(j)
			}
			if j < n && toks[j].Ident {
				k := "var"
				if depth == 0 {
					if space == "" {
						space = "handle"
					}
					k = "global-" + space
				}
				out = append(out, WDecl{Name: txt(j), Kind: k, Tok: j})
			}
		case "fn":
			if i+1 < n && toks[i+1].Ident && txt(i+2) == "(" {
				k := "fn"
				if stage != "" {
					k = "entry"
				}
				stage = ""
				out = append(out, WDecl{Name: txt(i + 1), Kind: k, Tok: i + 1})
				i = list(i+3, ")", "param")
			}
		}
	}
	return out
}

// Renaming maps old user names to new ones.
type Renaming map[string]string

// ApplyRenaming rewrites WGSL text: every identifier token that spells a
// declared user name is replaced consistently (the renaming is per NAME, not
// per entity, so the scoping structure of the program is preserved exactly as
// long as the new names are pairwise distinct and distinct from every other
// identifier of the text).  members lists the names declared as struct
// members; after a '.', only those are renamed, elsewhere only the others.
func ApplyRenaming(src string, toks []WTok, decls []WDecl, ren Renaming) string {
	member, other := map[string]bool{}, map[string]bool{}
	for _, d := range decls {
		if d.Kind == "member" {
			member[d.Name] = true
		} else {
			other[d.Name] = true
		}
	}
	var sb strings.Builder
	last := 0
	inAttrParen := 0 // > 0 inside @builtin( ... ) / @interpolate( ... ) / @diagnostic( ... )
	for i, t := range toks {
		if inAttrParen > 0 {
			if t.Text == "(" {
				inAttrParen++
			} else if t.Text == ")" {
				inAttrParen--
				if inAttrParen == 1 {
					inAttrParen = 0
				}
			}
			continue
		}
		if t.Text == "@" && i+2 < len(toks) && toks[i+2].Text == "(" {
			switch toks[i+1].Text {
			case "builtin", "interpolate", "diagnostic":
				inAttrParen = 1
			}
			continue
		}
		if !t.Ident {
			continue
		}
		if i > 0 && toks[i-1].Text == "@" {
			continue
		}
		nn, ok := ren[t.Text]
		if !ok {
			continue
		}
		afterDot := i > 0 && toks[i-1].Text == "."
		isDeclMember := false
		if !afterDot {
			// a member declaration `name : type` inside a struct body
			for _, d := range decls {
				if d.Tok == i && d.Kind == "member" {
					isDeclMember = true
				}
			}
		}
		if afterDot || isDeclMember {
			if !member[t.Text] {
				continue
			}
		} else if !other[t.Text] {
			continue
		}
		sb.WriteString(src[last:t.Start])
		sb.WriteString(nn)
		last = t.Start + len(t.Text)
	}
	sb.WriteString(src[last:])
	return sb.String()
}

// Renamable returns the distinct declared names that the renamer may rename,
// sorted, with the kinds each one is declared as.
func Renamable(decls []WDecl) (names []string, kinds map[string][]string) {
	kinds = map[string][]string{}
	for _, d := range decls {
		if IsContextual(d.Name) {
			continue
		}
		if d.Kind == "member" && LooksLikeSwizzle(d.Name) {
			continue
		}
		has := false
		for _, k := range kinds[d.Name] {
			if k == d.Kind {
				has = true
			}
		}
		if !has {
			kinds[d.Name] = append(kinds[d.Name], d.Kind)
		}
	}
	// a name that is both a swizzle-like member and something else stays as it is
	for _, d := range decls {
		if d.Kind == "member" && LooksLikeSwizzle(d.Name) {
			delete(kinds, d.Name)
		}
	}
	for k := range kinds {
		names = append(names, k)
	}
	sort.Strings(names)
	return
}
