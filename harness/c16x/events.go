package c16x

import (
	"fmt"
	"strings"

	"verif/harness/glslx"
	"verif/harness/hlslx"
	"verif/harness/mslx"
	"verif/harness/xrt"
)

// Unit is one emitted text, tokenized; for a baseline also parsed by the
// independent reader of its language, with every scope event tied to a token.
type Unit struct {
	Lang  string
	Text  string
	Toks  []Tok
	Ev    []xrt.ScopeEv
	TokOf []int // event -> token index, -1 when the event has no token (open / close)
	// DeclTok: declaration index (ScopeEv.Decl) -> token index of the declaring token
	DeclTok map[int]int
}

// Tokenize builds a Unit without parsing.
func Tokenize(lang, text string) *Unit {
	return &Unit{Lang: lang, Text: text, Toks: CTokens(text)}
}

// Parse builds a Unit with the scope events of the language's independent reader.
func Parse(lang, text string) (*Unit, error) {
	u := Tokenize(lang, text)
	var ev []xrt.ScopeEv
	switch lang {
	case "glsl":
		pu, err := glslx.Parse(text)
		if err != nil {
			return nil, err
		}
		ev = pu.ScopeEvents()
		for _, p := range pu.Problems() {
			if strings.Contains(p, "internal:") {
				return nil, fmt.Errorf("glslx: %s", p)
			}
		}
	case "hlsl":
		pu, err := hlslx.ParseWith(text, hlslx.Options{AllowArrayTypeSuffix: true})
		if err != nil {
			return nil, err
		}
		ev = pu.ScopeEvents()
	case "msl":
		pu, err := mslx.Parse(text)
		if err != nil {
			return nil, err
		}
		ev = pu.ScopeEvents()
	default:
		return nil, fmt.Errorf("no reader for %q", lang)
	}
	u.Ev = ev
	at := map[[2]int]int{}
	for i, t := range u.Toks {
		at[[2]int{t.Line, t.Col}] = i
	}
	u.TokOf = make([]int, len(ev))
	u.DeclTok = map[int]int{}
	for i, e := range ev {
		u.TokOf[i] = -1
		if e.Op != "decl" && e.Op != "ref" && e.Op != "field" {
			continue
		}
		if e.Name == "" {
			continue
		}
		ti, ok := at[[2]int{e.Line, e.Col}]
		if !ok {
			return nil, fmt.Errorf("%s reader: %s event %q at %d:%d is not at a token", lang, e.Op, e.Name, e.Line, e.Col)
		}
		// a qualified name (metal::x, or x<...>::y) starts at its first token
		first := e.Name
		if k := strings.Index(first, "::"); k >= 0 {
			first = first[:k]
		}
		if k := strings.IndexAny(first, "<"); k >= 0 {
			first = first[:k]
		}
		if u.Toks[ti].Text != first && e.Op == "decl" {
			// `using metal::uint;` declares uint: the declaring token follows the qualifier
			for k := ti + 1; k < len(u.Toks) && k <= ti+6; k++ {
				if u.Toks[k].Text == e.Name {
					ti = k
					break
				}
			}
		}
		if u.Toks[ti].Text != first && e.Op == "ref" && (e.Builtin || u.Toks[ti].Text == "unsigned" || u.Toks[ti].Text == "signed") {
			continue // the reader normalised a built-in spelling (`unsigned` -> uint): not a name that can clash
		}
		if u.Toks[ti].Text != first {
			return nil, fmt.Errorf("%s reader: %s event %q at %d:%d sits on token %q", lang, e.Op, e.Name, e.Line, e.Col, u.Toks[ti].Text)
		}
		u.TokOf[i] = ti
		if e.Op == "decl" {
			u.DeclTok[e.Decl] = ti
		}
	}
	return u, nil
}

// NS maps a reader's declaration kind to the name-space class of Scopes.tla.
func NS(lang, kind string) string {
	switch kind {
	case "struct":
		return "type"
	case "function":
		return "func"
	case "typedef", "using", "template-param":
		return "alias"
	case "cbuffer":
		return "cbuffer"
	case "block":
		return "block"
	}
	return "var"
}

// Esc makes a spelling pure ASCII, injectively (TLC strings and the JSON reader are kept away from non-ASCII text).
func Esc(s string) string {
	ascii := true
	for i := 0; i < len(s); i++ {
		if s[i] >= 0x80 || s[i] == '\\' || s[i] == '"' {
			ascii = false
			break
		}
	}
	if ascii {
		return s
	}
	var sb strings.Builder
	for _, r := range s {
		if r < 0x80 && r != '\\' && r != '"' {
			sb.WriteRune(r)
		} else {
			fmt.Fprintf(&sb, "{U+%04X}", r)
		}
	}
	return sb.String()
}

// Codes are the code points of a spelling (legality is judged on them by Scopes.tla).
func Codes(s string) []int {
	var out []int
	for _, r := range s {
		out = append(out, int(r))
	}
	return out
}

// Line is one ndjson event of the Scopes trace.
type Line map[string]any

// Align compares the token stream of an output with the baseline's: same
// length, same token classes, equal non-identifier tokens.  It returns "" or
// a description of the first difference.
func Align(base, out *Unit) string {
	if len(base.Toks) != len(out.Toks) {
		// find the first differing non-identifier token for the message
		n := len(base.Toks)
		if len(out.Toks) < n {
			n = len(out.Toks)
		}
		for i := 0; i < n; i++ {
			if base.Toks[i].Ident != out.Toks[i].Ident || (!base.Toks[i].Ident && base.Toks[i].Text != out.Toks[i].Text) {
				return fmt.Sprintf("token %d: baseline %q (line %d), renamed %q (line %d); %d vs %d tokens", i, base.Toks[i].Text, base.Toks[i].Line, out.Toks[i].Text, out.Toks[i].Line, len(base.Toks), len(out.Toks))
			}
		}
		return fmt.Sprintf("%d tokens in the baseline, %d in the renamed output", len(base.Toks), len(out.Toks))
	}
	for i := range base.Toks {
		b, o := base.Toks[i], out.Toks[i]
		if b.Ident != o.Ident || (!b.Ident && b.Text != o.Text) {
			return fmt.Sprintf("token %d: baseline %q (line %d), renamed %q (line %d)", i, b.Text, b.Line, o.Text, o.Line)
		}
	}
	return ""
}

// TraceIdx renders the event stream of `out` (an output whose tokens align
// with the parsed baseline `base`; out may be base itself) as Scopes.tla
// events.  Structure (scopes, which token declares / uses a name, kinds, the
// entity a use denotes) comes from the baseline; spellings come from `out`.
// evOf gives, per line, the index of the baseline event it renders (-1: none).
func TraceIdx(base, out *Unit, caseID int, entryNames []string) (lines []Line, evOf []int) {
	add := func(l Line, ev int) {
		lines = append(lines, l)
		evOf = append(evOf, ev)
	}
	add(Line{"ev": "reset", "lang": base.Lang, "case": caseID}, -1)
	idOf := map[int]int{} // reader's declaration index -> sequential entity id (the latest, if a reader declares one twice)
	nextID := 0
	for i, e := range base.Ev {
		switch e.Op {
		case "open":
			add(Line{"ev": "open", "k": e.Kind}, i)
		case "close":
			add(Line{"ev": "close"}, i)
		case "decl":
			ti := base.TokOf[i]
			if ti < 0 {
				continue
			}
			name := out.Toks[ti].Text
			nextID++
			id := nextID
			idOf[e.Decl] = id
			add(Line{"ev": "decl", "name": Esc(name), "cs": Codes(name), "ns": NS(base.Lang, e.Kind), "sig": e.Sig, "id": id}, i)
		case "ref":
			ti := base.TokOf[i]
			if ti < 0 {
				continue
			}
			name := out.Toks[ti].Text
			k := e.Kind
			if e.Member {
				k = "member"
			}
			exp := -1
			switch {
			case e.Decl >= 0:
				if id, ok := idOf[e.Decl]; ok {
					exp = id
				}
			case e.Builtin:
				exp = 0
			}
			if strings.Contains(e.Name, "::") {
				// qualified: only the nested-name-specifier is looked up by scope
				add(Line{"ev": "ref", "name": Esc(name), "k": "nsq", "exp": 0}, i)
				continue
			}
			if e.Member && e.Builtin {
				continue // swizzle
			}
			add(Line{"ev": "ref", "name": Esc(name), "k": k, "exp": exp}, i)
		}
	}
	for _, n := range entryNames {
		add(Line{"ev": "ep", "name": Esc(n)}, -1)
	}
	add(Line{"ev": "end"}, -1)
	return
}

// IdentDiff checks the identifier tokens of an aligned output against the
// baseline: a token whose spelling differs must be a declaration, or a use of a
// declaration that differs in the same way, or (for field designators the reader
// does not resolve) the spelling pair of some member declaration.  It returns
// the problems found.
func IdentDiff(base, out *Unit) []string {
	var probs []string
	evAt := map[int]int{}
	for i, ti := range base.TokOf {
		if ti >= 0 {
			if _, dup := evAt[ti]; !dup {
				evAt[ti] = i
			}
		}
	}
	// spelling pairs of member declarations
	type pair struct{ b, o string }
	memberPairs := map[pair]bool{}
	for i, e := range base.Ev {
		if e.Op == "decl" && base.TokOf[i] >= 0 {
			ti := base.TokOf[i]
			memberPairs[pair{base.Toks[ti].Text, out.Toks[ti].Text}] = true
		}
	}
	for ti := range base.Toks {
		b, o := base.Toks[ti], out.Toks[ti]
		if !b.Ident || b.Text == o.Text {
			continue
		}
		ei, ok := evAt[ti]
		if !ok {
			// not an event token: a field designator of a reader that does not record them, an attribute ...
			if ti > 0 && (base.Toks[ti-1].Text == "." || base.Toks[ti-1].Text == ">") && memberPairs[pair{b.Text, o.Text}] {
				continue
			}
			probs = append(probs, fmt.Sprintf("line %d: %q became %q at a token that neither declares nor uses a declared name", o.Line, b.Text, o.Text))
			continue
		}
		e := base.Ev[ei]
		switch e.Op {
		case "decl":
		case "field":
			if !memberPairs[pair{b.Text, o.Text}] {
				probs = append(probs, fmt.Sprintf("line %d: field designator %q became %q, which no member declaration did", o.Line, b.Text, o.Text))
			}
		case "ref":
			if e.Decl >= 0 {
				dt, ok := base.DeclTok[e.Decl]
				if !ok || base.Toks[dt].Text != b.Text || out.Toks[dt].Text != o.Text {
					probs = append(probs, fmt.Sprintf("line %d: use %q became %q but its declaration did not change in the same way", o.Line, b.Text, o.Text))
				}
			} else if !memberPairs[pair{b.Text, o.Text}] {
				probs = append(probs, fmt.Sprintf("line %d: %q (resolved to nothing by the reader) became %q", o.Line, b.Text, o.Text))
			}
		}
	}
	return probs
}
