// Package c16x holds the Go side of property C16 (identifiers never clash):
// a tokenizer for the emitted C-like text (HLSL / MSL / GLSL), a tokenizer and
// renamer for WGSL source text, the name pools renamings are drawn from, and the
// conversion of the readers' scope events into the ndjson trace that
// spec/Scopes.tla validates.  Nothing here decides a verdict: the rules are in
// the specification.
package c16x

// Tok is one token of emitted text.
type Tok struct {
	Text  string
	Ident bool
	Line  int // 1-based
	Col   int // 1-based, in bytes (the convention of glslx, hlslx and mslx)
}

func isIdentByte(c byte) bool {
	return c == '_' || (c >= 'a' && c <= 'z') || (c >= 'A' && c <= 'Z') || (c >= '0' && c <= '9') || c >= 0x80
}

// CTokens splits emitted text into tokens: identifiers (any run of letters,
// digits, '_' and non-ASCII bytes that does not start with a digit - a
// non-ASCII byte is kept inside the token so that an unsanitised name shows up
// as ONE illegal identifier), pp-numbers, string literals, "::" and single
// punctuation characters.  Comments are dropped; a preprocessor line is one token.
func CTokens(src string) []Tok {
	var out []Tok
	line, col := 1, 1
	i, n := 0, len(src)
	adv := func(k int) {
		for j := 0; j < k && i < n; j++ {
			if src[i] == '\n' {
				line++
				col = 1
			} else {
				col++
			}
			i++
		}
	}
	lineStart := true
	for i < n {
		c := src[i]
		switch {
		case c == '\n':
			adv(1)
			lineStart = true
			continue
		case c == ' ' || c == '\t' || c == '\r' || c == '\f' || c == '\v':
			adv(1)
			continue
		case c == '/' && i+1 < n && src[i+1] == '/':
			for i < n && src[i] != '\n' {
				adv(1)
			}
			continue
		case c == '/' && i+1 < n && src[i+1] == '*':
			adv(2)
			for i < n && !(src[i] == '*' && i+1 < n && src[i+1] == '/') {
				adv(1)
			}
			adv(2)
			continue
		case c == '#' && lineStart:
			j := i
			for j < n && src[j] != '\n' {
				j++
			}
			out = append(out, Tok{Text: src[i:j], Line: line, Col: col})
			adv(j - i)
			continue
		}
		lineStart = false
		switch {
		case c >= '0' && c <= '9' || (c == '.' && i+1 < n && src[i+1] >= '0' && src[i+1] <= '9'):
			j := i + 1
			for j < n {
				d := src[j]
				if isIdentByte(d) || d == '.' {
					j++
					continue
				}
				if (d == '+' || d == '-') && (src[j-1] == 'e' || src[j-1] == 'E' || src[j-1] == 'p' || src[j-1] == 'P') && !(j >= 2 && src[i] == '0' && (src[i+1] == 'x' || src[i+1] == 'X') && (src[j-1] == 'e' || src[j-1] == 'E')) {
					j++
					continue
				}
				break
			}
			out = append(out, Tok{Text: src[i:j], Line: line, Col: col})
			adv(j - i)
		case isIdentByte(c):
			j := i + 1
			for j < n && isIdentByte(src[j]) {
				j++
			}
			out = append(out, Tok{Text: src[i:j], Ident: true, Line: line, Col: col})
			adv(j - i)
		case c == '"':
			j := i + 1
			for j < n && src[j] != '"' && src[j] != '\n' {
				if src[j] == '\\' {
					j++
				}
				j++
			}
			if j < n {
				j++
			}
			out = append(out, Tok{Text: src[i:j], Line: line, Col: col})
			adv(j - i)
		case c == ':' && i+1 < n && src[i+1] == ':':
			out = append(out, Tok{Text: "::", Line: line, Col: col})
			adv(2)
		default:
			out = append(out, Tok{Text: string(c), Line: line, Col: col})
			adv(1)
		}
	}
	return out
}
