package c16x

import (
	"os"
	"path/filepath"
	"strings"
	"unicode/utf8"
)

// ---- WGSL side: which strings may be used as a user identifier ------------------------------------------------

// wgslKeywords: WGSL keywords (WGSL spec 15.1) plus the type names naga's lexer
// treats as keywords (wgsl/internal/parser/lexer.go keyword table).
var wgslKeywords = wordSet(`alias break case const const_assert continue continuing default diagnostic discard else enable
 false fn for if let loop override requires return struct switch true var while
 bool f16 f32 f64 i32 i64 u32 u64 vec2 vec3 vec4 mat2x2 mat2x3 mat2x4 mat3x2 mat3x3 mat3x4 mat4x2 mat4x3 mat4x4
 array atomic ptr sampler sampler_comparison texture_1d texture_2d texture_2d_array texture_3d texture_cube
 texture_cube_array texture_multisampled_2d texture_storage_1d texture_storage_2d texture_storage_2d_array
 texture_storage_3d texture_depth_2d texture_depth_2d_array texture_depth_cube texture_depth_cube_array
 texture_depth_multisampled_2d texture_external binding_array acceleration_structure ray_query`)

// wgslReserved: WGSL spec 15.2 "Reserved Words" (written from the specification).
var wgslReserved = wordSet(`NULL Self abstract active alignas alignof as asm asm_fragment async attribute auto await become
 binding_array cast catch class co_await co_return co_yield coherent column_major common compile compile_fragment
 concept const_cast consteval constexpr constinit crate debugger decltype delete demote demote_to_helper do
 dynamic_cast enum explicit export extends extern external fallthrough filter final finally friend from fxgroup get
 goto groupshared highp impl implements import inline instanceof interface layout lowp macro macro_rules match
 mediump meta mod module move mut mutable namespace new nil noexcept noinline nointerpolation non_coherent
 noncoherent noperspective null nullptr of operator package packoffset partition pass patch pixelfragment precise
 precision premerge priv protected pub public readonly ref regardless register reinterpret_cast require resource
 restrict self set shared sizeof smooth snorm static static_assert static_cast std subroutine super target template
 this thread_local throw trait try type typedef typeid typename typeof union unless unorm unsafe unsized use using
 varying virtual volatile wgsl where with writeonly yield`)

// wgslPredeclared: predeclared type aliases, type generators and built-in
// functions.  A user declaration may shadow them (WGSL allows it), but only a
// program that does not use the predeclared meaning stays valid, and naga's
// front end rejects some of these shadowings (property C08).  A renaming uses
// such a word only for function-local entities and members.
var wgslPredeclared = wordSet(`vec2i vec3i vec4i vec2u vec3u vec4u vec2f vec3f vec4f vec2h vec3h vec4h
 mat2x2f mat2x3f mat2x4f mat3x2f mat3x3f mat3x4f mat4x2f mat4x3f mat4x4f mat2x2h mat2x3h mat2x4h mat3x2h mat3x3h
 mat3x4h mat4x2h mat4x3h mat4x4h bitcast all any select arrayLength abs acos acosh asin asinh atan atanh atan2 ceil
 clamp cos cosh countLeadingZeros countOneBits countTrailingZeros cross degrees determinant distance dot dot4U8Packed
 dot4I8Packed exp exp2 extractBits faceForward firstLeadingBit firstTrailingBit floor fma fract frexp insertBits
 inverseSqrt ldexp length log log2 max min mix modf normalize pow quantizeToF16 radians reflect refract reverseBits
 round saturate sign sin sinh smoothstep sqrt step tan tanh transpose trunc dpdx dpdxCoarse dpdxFine dpdy dpdyCoarse
 dpdyFine fwidth fwidthCoarse fwidthFine textureDimensions textureGather textureGatherCompare textureLoad
 textureNumLayers textureNumLevels textureNumSamples textureSample textureSampleBias textureSampleCompare
 textureSampleCompareLevel textureSampleGrad textureSampleLevel textureSampleBaseClampToEdge textureStore atomicLoad
 atomicStore atomicAdd atomicSub atomicMax atomicMin atomicAnd atomicOr atomicXor atomicExchange
 atomicCompareExchangeWeak pack4x8snorm pack4x8unorm pack4xI8 pack4xU8 pack4xI8Clamp pack4xU8Clamp pack2x16snorm
 pack2x16unorm pack2x16float unpack4x8snorm unpack4x8unorm unpack4xI8 unpack4xU8 unpack2x16snorm unpack2x16unorm
 unpack2x16float storageBarrier textureBarrier workgroupBarrier workgroupUniformLoad subgroupAdd subgroupAll
 subgroupAny subgroupBallot subgroupBroadcast subgroupElect subgroupMax subgroupMin subgroupMul subgroupOr
 subgroupXor subgroupAnd subgroupShuffle quadBroadcast frexp_result_f32 modf_result_f32
 __atomic_compare_exchange_result`)

// WgslNameClass classifies a candidate new name: "" = not a legal user
// identifier in WGSL (keyword, reserved word, bad characters), "plain" = legal
// everywhere, "predeclared" = legal but shadows a predeclared name.
func WgslNameClass(s string) string {
	if s == "" || s == "_" || strings.HasPrefix(s, "__") {
		return ""
	}
	if wgslKeywords[s] || wgslReserved[s] || contextual[s] {
		return ""
	}
	first := true
	for _, r := range s {
		if first {
			if !(r == '_' || isXIDStart(r)) {
				return ""
			}
			first = false
		} else if !(r == '_' || isXIDContinue(r)) {
			return ""
		}
	}
	if !utf8.ValidString(s) {
		return ""
	}
	if wgslPredeclared[s] {
		return "predeclared"
	}
	return "plain"
}

// ---- target side: reserved-word lists and name pools -----------------------------------------------------------

// Reserved is one target language's independent reserved-word list (data/c16/reserved-<lang>.txt).
type Reserved struct {
	Words  []string // reserved for every kind of entity
	CI     []string // matched without regard to case (stored lower-case)
	FnOnly []string // reserved only as a function name
}

// LoadReserved reads data/c16/reserved-<lang>.txt under root.
func LoadReserved(root, lang string) (Reserved, error) {
	var r Reserved
	b, err := os.ReadFile(filepath.Join(root, "data", "c16", "reserved-"+lang+".txt"))
	if err != nil {
		return r, err
	}
	seen := map[string]bool{}
	for _, line := range strings.Split(string(b), "\n") {
		line = strings.TrimSpace(line)
		if line == "" || strings.HasPrefix(line, "#") {
			continue
		}
		dst := &r.Words
		if strings.HasPrefix(line, "ci:") {
			dst, line = &r.CI, line[3:]
		} else if strings.HasPrefix(line, "fn:") {
			dst, line = &r.FnOnly, line[3:]
		}
		for _, w := range strings.Fields(line) {
			if dst == &r.CI {
				w = strings.ToLower(w)
			}
			if !seen[lineKey(dst == &r.CI, dst == &r.FnOnly)+w] {
				seen[lineKey(dst == &r.CI, dst == &r.FnOnly)+w] = true
				*dst = append(*dst, w)
			}
		}
	}
	return r, nil
}

func lineKey(a, b bool) string {
	switch {
	case a:
		return "c:"
	case b:
		return "f:"
	}
	return "w:"
}

// Candidates are names worth trying that are NOT verdict material: library
// functions, built-in variables and types of the targets that the generated
// code may use (a user entity so called must not capture those uses), naga's
// helper functions, temporaries and generated type / member / variable names
// (read from the three backends), and doubtful reserved words.
var Candidates = map[string][]string{
	"hlsl": strings.Fields(`abs acos all any asdouble asfloat asin asint asuint atan atan2 ceil clamp clip cos cosh countbits
 cross ddx ddy degrees determinant distance dot dst exp exp2 f16tof32 f32tof16 faceforward firstbithigh firstbitlow floor
 fma fmod frac frexp fwidth isfinite isinf isnan ldexp length lerp lit log log10 log2 mad max min modf mul noise normalize
 pow radians rcp reflect refract reversebits round rsqrt saturate sign sin sincos sinh smoothstep sqrt step tan tanh
 transpose trunc select and or mul GroupMemoryBarrierWithGroupSync DeviceMemoryBarrierWithGroupSync AllMemoryBarrier
 InterlockedAdd InterlockedAnd InterlockedCompareExchange InterlockedExchange InterlockedMax InterlockedMin
 InterlockedOr InterlockedXor WaveGetLaneCount WaveReadLaneAt NonUniformResourceIndex Load Store GetDimensions
 SV_Position SV_Target SV_DispatchThreadID SV_GroupThreadID SV_GroupID SV_GroupIndex SV_VertexID SV_InstanceID TEXCOORD
 LOC0 numthreads loop unroll branch flatten min16float2 min16int2 int64_t uint64_t int16_t uint16_t float16_t
 int32_t uint32_t float32_t float64_t uint64_t2 int8_t4_packed uint8_t4_packed SamplerComparisonState Texture2D
 cbuffer_ buffer value lhs rhs ret tex coords Buffer`),
	"msl": strings.Fields(`metal uint ushort uchar ulong float2 float3 float4 int2 int3 int4 uint2 uint3 uint4 half2 half3 half4
 bool2 bool3 bool4 float2x2 float3x3 float4x4 packed_float3 packed_int3 atomic_int atomic_uint as_type size_t ptrdiff_t
 abs min max clamp select mix dot cross length normalize floor ceil round sign pow exp log sqrt rsqrt fma saturate
 popcount clz ctz reverse_bits extract_bits insert_bits all any isnan isinf precise fast sampler texture2d access
 memory_order_relaxed mem_flags threadgroup_barrier atomic_load_explicit atomic_store_explicit atomic_fetch_add_explicit
 INFINITY NAN FLT_MAX INT_MAX INT_MIN UINT_MAX M_PI_F HUGE_VALF MAXFLOAT CHAR_BIT assert vec matrix restrict complex
 imaginary quad llong ullong int8_t uint8_t int32_t uint32_t int64_t uint64_t bfloat ray_data object_data
 DefaultConstructible _mslBufferSizes _buffer_sizes buffer stage_in user position thread_position_in_grid
 thread_position_in_threadgroup thread_index_in_threadgroup threadgroup_position_in_grid threadgroups_per_grid
 lhs rhs value`),
	"glsl": strings.Fields(`main abs sign floor trunc round roundEven ceil fract mod modf min max clamp mix step smoothstep isnan
 isinf floatBitsToInt floatBitsToUint intBitsToFloat uintBitsToFloat fma frexp ldexp length distance dot cross normalize
 faceforward reflect refract transpose determinant inverse any all not equal notEqual lessThan greaterThan bitfieldExtract
 bitfieldInsert bitfieldReverse bitCount findLSB findMSB pow exp log exp2 log2 sqrt inversesqrt sin cos tan asin acos
 atan sinh cosh tanh radians degrees barrier memoryBarrier memoryBarrierShared memoryBarrierBuffer groupMemoryBarrier
 atomicAdd atomicMin atomicMax atomicAnd atomicOr atomicXor atomicExchange atomicCompSwap uaddCarry usubBorrow
 packUnorm4x8 unpackUnorm4x8 texture texelFetch textureSize imageLoad imageStore outerProduct matrixCompMult
 gl_Position gl_FragCoord gl_FragDepth gl_VertexID gl_InstanceID gl_GlobalInvocationID gl_LocalInvocationID
 gl_WorkGroupID gl_NumWorkGroups gl_LocalInvocationIndex gl_WorkGroupSize gl_PointSize gl_x gl_ local_size_x std430
 std140 binding location row_major column_major sampler texture2D texture3D samplerShadow require enable core es
 f16vec2 int64_t uint64_t i64vec2 u64vec2 float16_t`),
	// names naga's WGSL front end gives a meaning of its own although WGSL does not (read from wgsl/internal/lower)
	"front": strings.Fields(`inverse outerProduct isnan isinf isfinite isnormal vecs vec9 vecx mataxb mat9x9 matrxc texture1d texture2d
 texture3d texturecube texture2dms textureX textures texture1 atomicFoo subgroupFoo quadFoo rayQueryFoo ray_query_foo bitcastf
 arrayLen array1 ptr1 atomic1 workgroupFoo storageFoo packed unpack4 pack4 dot4 select1 frexp1 modf1`),
	// names naga itself generates (helpers, temporaries, wrappers, fall-back names); read from the three backends
	"naga": strings.Fields(`naga_div naga_mod naga_neg naga_abs naga_f2i32 naga_f2u32 naga_f2i64 naga_f2u64 naga_modf naga_frexp
 naga_extractBits naga_insertBits naga_dot naga_int_dot naga_atomic_compare_exchange_weak_explicit naga_atomic_cmp_exch
 _naga_div _naga_mod _naga_neg _naga_abs _naga_f2i32 _naga_f2u32 _naga_modf _naga_frexp _naga_modf_result_f32
 _naga_frexp_result_f32 _naga_sampler_heap nagaSamplerHeap nagaComparisonSamplerHeap nagaTextureSampleBaseClampToEdge
 nagaTextureLoadExternal NagaBufferLength NagaBufferLengthRW NagaConstants NagaExternalTextureParams NagaDimensions2D
 _NagaConstants first_vertex first_instance other _e0 _e1 _e2 _e3 _e4 _e5 _e6 _e7 _e8 _e9 _e10 _e11 _e12 _e13 _e14 _e15 _e16 _e20 _e24
 type_ type_1 type_2 type_3 type_4 type_5 type_6 type_7 _pad0 _pad1 _pad1_0 _pad2 _pad2_0 _pad3 inner member member_1
 local local_1 param param_1 global global_1 function function_1 unnamed unnamed_1 const_ const_type_1 loop_bound
 loop_bound_1 loop_init loop_init_1 should_continue should_continue_1 lhs rhs divisor val value ret buffer
 main main_ main_1 _group_0_binding_0_cs _group_0_binding_1_cs _group_0_binding_2_cs _group_0_binding_0_fs
 _group_0_binding_0_vs __local_invocation_id _local_invocation_id zero_value _phony tmp _tmp _expr _result
 result_ arg arg_0 arg_1 arg_2 fake0 sizes size0 size1 size2 size3 _zero _vs2fs_location0 _fs2p_location0 _p2vs_location0
 varying vo _ret perVertexStruct Input Output VertexOutput FragmentInput stage_in stageIn input output _block block`),
}

// CaseVariants are case variants of reserved words (case matters in all three
// targets except for a handful of HLSL words).
var CaseVariants = strings.Fields(`Float FLOAT If IF While Int INT Uint Bool Void Struct Return For Do Switch Case Default Half Double
 Float3 FLOAT4 Vec3 VEC4 Mat4 Uvec2 Main MAIN Metal METAL Kernel Device Constant Thread Sampler Texture
 TEXTURE2D texture2d Texture1d TEXTURE3D TextureCUBE Pass PASS Technique TECHNIQUE Asm ASM Decl DECL
 Register Cbuffer Groupshared Static Const Inline Namespace Template Class Typedef Unsigned`)

// NonASCII are WGSL-legal identifiers outside ASCII (XID_Start XID_Continue*).
var NonASCII = []string{"é", "ß", "Δ", "π", "변수", "変数", "переменная", "μ1", "ñ_", "aé", "éa", "é1", "_é", "ä_1", "Ω_", "ǅ", "ℕ", "𝓍",
	// a non-ASCII letter followed by `_`, by another non-ASCII letter, after `_`; whole words (the sanitiser writes each
	// code point as u<hex>_ and has to collapse / trim the separators)
	"θ_max", "Δ_t", "x_θ", "θ_", "_θ", "θφ", "время", "位置", "θ2", "maxθ_min", "φ_0", "Δ_Δ", "α_β_γ", "ж_", "数_値", "θ__x", "_ж1", "x__θ", "θ_1", "λλ_"}
