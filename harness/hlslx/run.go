package hlslx

import (
	"encoding/binary"
	"fmt"
	"strings"

	"verif/harness/xrt"
)

// Options tune the reader.
type Options struct {
	// AllowArrayTypeSuffix accepts the non-HLSL spelling "T[N] name" for an
	// array declaration (naga emits it for private arrays:
	// "static int[4] pv = ..."), treating it as "T name[N]".  Strict HLSL has
	// no such declarator, so by default it is a parse error.  When accepted,
	// the occurrence is listed in Unit.Diagnostics.
	AllowArrayTypeSuffix bool
}

// Parse tokenizes, parses and statically resolves an HLSL translation unit.
// The error is non-nil for lexical and syntax errors only; static semantic
// errors (undeclared identifiers, unknown types, redefinitions) are available
// from StaticErrors and make Run skip.
func Parse(src string) (*Unit, error) { return ParseWith(src, Options{}) }

// ParseWith is Parse with options.
func ParseWith(src string, o Options) (u *Unit, err error) {
	defer func() {
		if r := recover(); r != nil {
			u, err = nil, fmt.Errorf("internal: parser panic: %v", r)
		}
	}()
	u, err = parse(src, o.AllowArrayTypeSuffix)
	if err != nil {
		return nil, err
	}
	c := &checker{u: u}
	c.run()
	u.staticErrs = c.errs
	u.computeResources()
	return u, nil
}

// EntryPoints lists the functions carrying a [numthreads] attribute.
func (u *Unit) EntryPoints() []string {
	var out []string
	for _, f := range u.Funcs {
		if f.isEntry {
			out = append(out, f.Name)
		}
	}
	return out
}

// NumThreads returns the [numthreads(x,y,z)] of a compute entry point.
func (u *Unit) NumThreads(entry string) ([3]int, bool) {
	for _, f := range u.Funcs {
		if f.isEntry && f.Name == entry {
			return f.numthreads, true
		}
	}
	return [3]int{}, false
}

// Run executes one invocation of the compute entry point in.Entry.
func Run(src string, in xrt.Input) xrt.Outcome { return RunWith(src, in, Options{}) }

// RunWith is Run with options.
func RunWith(src string, in xrt.Input, o Options) (out xrt.Outcome) {
	u, err := ParseWith(src, o)
	if err != nil {
		return xrt.Outcome{Skip: "parse error: " + err.Error()}
	}
	return u.Run(in)
}

// Run executes one invocation of in.Entry on an already parsed unit.
func (u *Unit) Run(in xrt.Input) (out xrt.Outcome) {
	m := &machine{u: u, in: &in, fuel: in.MaxSteps}
	if m.fuel <= 0 {
		m.fuel = 1_000_000
	}
	defer func() {
		out.Steps = m.steps
		if in.TraceAccesses {
			out.Accesses = m.acc
		}
		if r := recover(); r != nil {
			switch e := r.(type) {
			case trapError:
				out.Trap = e.msg
			case skipError:
				out.Skip = e.msg
			default:
				out.Skip = fmt.Sprintf("internal: %v", r)
			}
		}
	}()
	if len(u.staticErrs) > 0 {
		skipf("compile error: %s", u.staticErrs[0])
	}
	var entry *FuncDecl
	for _, f := range u.Funcs {
		if f.Name == in.Entry && f.Body != nil {
			entry = f
		}
	}
	if entry == nil {
		skipf("entry point '%s' not found", in.Entry)
	}
	if !entry.isEntry {
		skipf("entry point '%s' has no [numthreads] attribute (not a compute shader)", in.Entry)
	}
	nt := entry.numthreads
	for i := 0; i < 3; i++ {
		if int64(in.LocalID[i]) >= int64(nt[i]) {
			skipf("LocalID %v is outside numthreads %v", in.LocalID, nt)
		}
	}
	m.bindResources()
	m.initGlobals()

	// entry parameters from their semantics
	fr := &frame{fn: entry, cells: make([]*cell, entry.nslots)}
	for _, p := range entry.Params {
		if !p.In || p.Out {
			skipf("%s: entry parameter '%s' is an output", p.Pos, p.Name)
		}
		v := m.entryParam(entry, p)
		fr.cells[p.slot] = &cell{T: p.typ, w: v.W}
	}
	if entry.ret.Kind != TVoid {
		skipf("%s: compute entry point '%s' returns %s", entry.Pos, entry.Name, entry.ret)
	}
	m.fr = fr
	m.depth = 1
	fr.retVal = Value{T: tVoid}
	c := m.execBlockNoScope(entry.Body.Stmts)
	if c == ctlBreak || c == ctlContinue {
		skipf("compile error: break/continue outside a loop in '%s'", entry.Name)
	}
	return out
}

func (m *machine) semanticValue(sem string, t *Type, pos Pos, entry *FuncDecl) Value {
	nt := entry.numthreads
	in := m.in
	var comps []uint32
	switch strings.ToUpper(sem) {
	case "SV_DISPATCHTHREADID":
		for i := 0; i < 3; i++ {
			comps = append(comps, in.WorkgroupID[i]*uint32(nt[i])+in.LocalID[i])
		}
	case "SV_GROUPTHREADID":
		comps = in.LocalID[:]
	case "SV_GROUPID":
		comps = in.WorkgroupID[:]
	case "SV_GROUPINDEX":
		comps = []uint32{in.LocalID[2]*uint32(nt[0])*uint32(nt[1]) + in.LocalID[1]*uint32(nt[0]) + in.LocalID[0]}
	default:
		skipf("%s: entry input semantic '%s' not supported", pos, sem)
	}
	if !t.isNumeric() || t.Kind == TMatrix || t.flat > len(comps) {
		skipf("%s: entry input with semantic %s has type %s", pos, sem, t)
	}
	if t.Scalar != KUint && t.Scalar != KInt {
		skipf("%s: entry input with semantic %s has type %s", pos, sem, t)
	}
	w := make([]word, t.flat)
	for i := range w {
		w[i] = dw(comps[i])
	}
	return Value{T: t, W: w}
}

func (m *machine) entryParam(entry *FuncDecl, p *VarDecl) Value {
	if p.Semantic != "" {
		return m.semanticValue(p.Semantic, p.typ, p.Pos, entry)
	}
	if p.typ.Kind == TStruct {
		out := make([]word, 0, p.typ.flat)
		for _, f := range p.typ.S.Fields {
			if f.Decl.Semantic == "" {
				skipf("%s: member '%s' of entry input struct has no semantic", f.Decl.Pos, f.Name)
			}
			v := m.semanticValue(f.Decl.Semantic, f.T, f.Decl.Pos, entry)
			out = append(out, v.W...)
		}
		return Value{T: p.typ, W: out}
	}
	skipf("%s: entry parameter '%s' has no semantic", p.Pos, p.Name)
	return Value{}
}

func isNagaConstants(t *Type) bool {
	if t == nil || t.Kind != TStruct || len(t.S.Fields) != 3 {
		return false
	}
	f := t.S.Fields
	return f[0].Name == "first_vertex" && f[1].Name == "first_instance" && f[2].Name == "other" &&
		f[0].T.Kind == TScalar && f[1].T.Kind == TScalar && f[2].T.Kind == TScalar
}

// bindResources associates every resource declaration with its buffer.
func (m *machine) bindResources() {
	u := m.u
	m.res = map[*VarDecl]*resBinding{}
	m.cbres = map[*CBufferDecl]*resBinding{}
	claim := func(slot, name string, pos Pos) {}
	for _, cb := range u.CBuffers {
		rb := &resBinding{name: cb.Name, kind: "cbuffer", declSize: cb.size}
		if cb.Register != nil {
			if cb.Register.Letter != 'b' {
				skipf("%s: cbuffer '%s' bound to a '%c' register", cb.Pos, cb.Name, cb.Register.Letter)
			}
			rb.slot = slotKey(cb.Register.Letter, cb.Register.Num, cb.Register.Space)
			claim(rb.slot, cb.Name, cb.Pos)
			if b, ok := m.in.Buffers[rb.slot]; ok {
				rb.buf, rb.bound = b, true
			}
		} else {
			rb.slot = "<unbound cbuffer " + cb.Name + ">"
		}
		m.cbres[cb] = rb
	}
	for _, v := range u.Globals {
		if v.Class != VGlobal || v.typ == nil || v.typ.Kind != TResource {
			continue
		}
		rb := &resBinding{name: v.Name, kind: v.typ.Res}
		if v.Register != nil {
			want := byte('t')
			switch {
			case v.typ.Res == "ConstantBuffer":
				want = 'b'
			case strings.HasPrefix(v.typ.Res, "RW") || strings.HasPrefix(v.typ.Res, "Append") || strings.HasPrefix(v.typ.Res, "Consume") || strings.HasPrefix(v.typ.Res, "RasterizerOrdered"):
				want = 'u'
			case strings.HasPrefix(v.typ.Res, "Sampler") || v.typ.Res == "sampler":
				want = 's'
			}
			rb.slot = slotKey(v.Register.Letter, v.Register.Num, v.Register.Space)
			if v.Register.Letter != want {
				// a compile error in HLSL; reported lazily when the resource is used
				rb.slot = fmt.Sprintf("<%s '%s' bound to a '%c' register>", v.typ.Res, v.Name, v.Register.Letter)
			} else {
				claim(rb.slot, v.Name, v.Pos)
				if b, ok := m.in.Buffers[rb.slot]; ok {
					rb.buf, rb.bound = b, true
				}
			}
		} else {
			rb.slot = "<no register on " + v.Name + ">"
		}
		if !rb.bound && v.typ.Res == "ConstantBuffer" && isNagaConstants(v.typ.ResArg) {
			// naga's special constants: the runtime passes the dispatch size
			// of a compute shader in (first_vertex, first_instance, other)
			b := make([]byte, 12)
			for i := 0; i < 3; i++ {
				binary.LittleEndian.PutUint32(b[4*i:], m.in.NumWorkgroups[i])
			}
			rb.buf, rb.bound = b, true
		}
		m.res[v] = rb
	}
}

func (m *machine) initGlobals() {
	m.globals = map[*VarDecl]*cell{}
	// a dummy frame so that initialisers may call functions
	for _, v := range m.u.Globals {
		switch v.Class {
		case VGroupShared:
			if v.typ == nil || hasOpaque(v.typ) {
				// reported when used
				m.globals[v] = &cell{T: v.typ, bad: true}
				continue
			}
			if v.Init != nil {
				skipf("%s: compile error: groupshared variable '%s' has an initializer", v.Pos, v.Name)
			}
			m.globals[v] = &cell{T: v.typ, w: make([]word, v.typ.flat)}
		case VStatic:
			if v.typ == nil || hasOpaque(v.typ) || v.typ.Kind == TVoid {
				m.globals[v] = &cell{T: v.typ, bad: true}
				continue
			}
			c := &cell{T: v.typ}
			if v.Init != nil {
				saved := m.fr
				m.fr = &frame{}
				var iv Value
				if il, ok := v.Init.(*InitList); ok {
					iv = m.initFromList(v.typ, il)
				} else {
					iv = m.convert(m.eval(v.Init), v.typ, convImplicit, v.Pos).clone()
				}
				m.fr = saved
				c.w = iv.W
			} else {
				// "static" without an initializer is zero-initialised (HLSL
				// reference, storage class "static")
				c.w = zeroValue(v.typ).W
			}
			if v.hasMod("const") {
				c.ro = true
			}
			m.globals[v] = c
		}
	}
}
