// Package hlslx is an independent reader and interpreter for the HLSL text
// that naga's HLSL backend emits.  It is the "hardware" of the verification
// harness for that backend: it tokenizes, parses and executes the text by the
// rules of HLSL (DirectX HLSL reference, D3D11.3 functional specification for
// the underlying instructions) and never calls into naga.
//
// # API
//
//	Parse(src)                 -> *Unit (syntax errors only; see Unit.StaticErrors)
//	Run(src, xrt.Input)        -> xrt.Outcome: executes ONE invocation of the [numthreads] entry point Input.Entry
//	(*Unit).Resources()        -> every resource with its register binding; computed cbuffer layouts
//	(*Unit).Decls(), Refs()    -> every declaration / identifier reference with scope information
//	(*Unit).Run, EntryPoints, NumThreads, StaticErrors, Diagnostics; ParseWith/RunWith(Options)
//
// Buffer slot keys are "<register letter><N>.<space>": "u0.0", "t2.0",
// "b1.3" (space 0 when the declaration has no spaceN).
//
// # Supported subset
//
// Whole translation unit (parsed and name-resolved for every shader stage):
// struct, typedef (incl. "typedef struct {...} name;" and array typedefs),
// cbuffer/tbuffer blocks, ConstantBuffer<T>, resource declarations with
// register(xN[, spaceM]) (ByteAddressBuffer, RWByteAddressBuffer, textures,
// samplers, structured buffers, acceleration structures - arrays of them
// too), static / static const / groupshared globals, functions with
// overloading, in/out/inout parameters, semantics on parameters, struct members
// and return types, attributes ([numthreads], [loop], [unroll], [branch], ...),
// interpolation and precision modifiers.
//
// Executable (compute entry points): bool/int/uint/float scalars, vectors,
// matrices (floatRxC = R rows x C columns, m[i] = i-th row, constructors fill
// row by row, _mRC/_RC swizzles), arrays, structs; all operators with HLSL's
// implicit conversions (usual arithmetic conversions float > uint > int, bool
// -> int; literal ints/floats adopt the other operand's type; scalar <-> vector
// promotion and implicit vector truncation; shifts keep the left operand's
// type), C-style casts incl. (T)0 and flattening casts between aggregates with
// the same number of scalars, constructor casts, initializer lists (flattened),
// swizzles (also on scalars and as l-values), ?: (component-wise, both arms
// evaluated), && and || (both operands evaluated: HLSL before 2021 has no
// short-circuit evaluation), compound assignment, ++/--, comma; if/else,
// switch with fall-through, for/while/do-while, break/continue/return, blocks;
// user functions with copy-in/copy-out for inout/out parameters and resource
// parameters; the intrinsics abs sign floor ceil trunc round(half to even) frac
// fmod min max clamp lerp step smoothstep saturate sqrt rsqrt rcp pow exp exp2
// log log2 log10 sin cos tan asin acos atan atan2 sinh cosh tanh mad fma dot
// cross length distance normalize reflect faceforward transpose determinant mul
// any all isnan isinf isfinite countbits reversebits firstbithigh firstbitlow
// f16tof32 f32tof16 ldexp frexp modf sincos asint asuint asfloat select and or
// degrees radians dot4add_u8packed dot4add_i8packed NonUniformResourceIndex,
// the barrier intrinsics (no-ops for one invocation), Interlocked* on
// groupshared/static integers and the ByteAddressBuffer methods Load/Load2-4,
// Store/Store2-4, GetDimensions, InterlockedAdd/And/Or/Xor/Min/Max/Exchange/
// CompareExchange/CompareStore.  cbuffer members and ConstantBuffer<T> are read
// from Input.Buffers at the offsets given by the HLSL packing rules (see
// Layout).  Entry parameters (or members of an entry parameter struct) with
// SV_DispatchThreadID, SV_GroupThreadID, SV_GroupID and SV_GroupIndex are
// filled from the Input; a ConstantBuffer whose struct is naga's NagaConstants
// {first_vertex, first_instance, other} and that has no buffer bound is filled
// with Input.NumWorkgroups (that is how num_workgroups reaches a compute
// shader).
//
// Everything else is reported as Skip with a position and a reason: 16/64-bit
// scalar types, textures/samplers/structured buffers (methods and indexing),
// wave/quad/derivative intrinsics, discard, static locals, uniform globals
// outside a cbuffer, preprocessor directives, ...  A construct that HLSL
// rejects at compile time (type errors such as float3x2 -> float2x3, Store3 of
// a uint2, unknown identifiers, ambiguous overloads, assignment to a const or
// to a cbuffer member, redefinitions) is reported as Skip "compile error: ...".
// Strict HLSL has no "T[N] name" array declarator; naga emits it for private
// arrays.  It is a parse error unless Options.AllowArrayTypeSuffix is set.
//
// # Defined behaviour that is computed (D3D semantics)
//
//   - unsigned / and % by zero give 0xFFFFFFFF (udiv); unsigned arithmetic wraps;
//     signed +,-,*,unary - wrap (two's complement);
//   - shifts use the low 5 bits of the count; >> is arithmetic on int, logical
//     on uint (the left operand's type decides);
//   - float -> int/uint conversions round toward zero, saturate, NaN -> 0
//     (ftoi/ftou); int/uint -> float round to nearest even;
//   - raw buffer loads outside the buffer return 0 per dword, stores outside are
//     dropped per dword; reads of a constant buffer beyond the bound buffer
//     return 0; all of these ARE recorded in the access trace with their real
//     offset so that a safety check can flag them (Offset+Size > len);
//   - an index outside an ARRAY that lives in a constant buffer is not trapped:
//     the address is computed from the layout (offset + index*stride) and read
//     like any other constant-buffer address (0 beyond the buffer), and traced;
//   - clamp(x, lo, hi) = min(max(x, lo), hi) also when lo > hi; min/max return
//     the non-NaN operand; saturate(NaN) = 0; pow(x<0, y) = NaN;
//   - a static global without initializer is zero (HLSL reference, "static").
//
// # Trap rules (undefined in the target; Outcome.Trap is set)
//
//   - signed integer / or % by zero ("idiv by zero: undefined result");
//   - INT_MIN / -1 and INT_MIN % -1;
//   - an index outside a local, static or groupshared array, outside a vector
//     or outside the rows of a matrix (also for values loaded from a cbuffer);
//   - use of an undefined value: every scalar of interpreter memory carries a
//     "defined" bit; locals, out parameters and groupshared variables start
//     undefined, as does the value of a non-void function that ends without
//     return and the "original value" of an atomic on an out-of-bounds buffer
//     address.  Pure data movement (assignment, argument passing, return, casts
//     that do not change the component type, swizzles, asuint/asint/asfloat)
//     carries the bit along; an arithmetic/logic/comparison operand, a
//     conversion between component types, an intrinsic argument, a condition, a
//     switch selector, an index, a buffer offset or a value stored to a buffer
//     traps when undefined;
//   - a raw buffer byte offset that is not a multiple of 4.
//
// # Floating point
//
// All arithmetic is IEEE binary32 with round-to-nearest-even, computed as Go
// float32 (no flush of denormals, although D3D permits it); sqrt is correctly
// rounded; transcendental functions are float64 math rounded to float32; mad
// and fma are NOT fused (a*b rounded, then +c); dot/length/mul accumulate left
// to right in float32; normalize(v) = v / length(v); lerp = a + s*(b-a);
// ldexp(x,e) = x*exp2(e) as HLSL defines it; f32tof16 rounds to nearest even.
// Float literals are converted to float32 where they appear.
//
// Robustness: Run never panics (a panic is turned into Skip "internal: ...")
// and never hangs: every statement, loop iteration and call costs one step of
// fuel (Input.MaxSteps, default 1e6; large aggregate copies cost more), the
// call depth is limited to 200 and the parser nesting depth to 400.
package hlslx
