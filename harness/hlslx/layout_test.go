package hlslx

import (
	"testing"
)

func findRes(t *testing.T, u *Unit, name string) Resource {
	t.Helper()
	for _, r := range u.Resources() {
		if r.Name == name {
			return r
		}
	}
	t.Fatalf("resource %q not found in %+v", name, u.Resources())
	return Resource{}
}

func checkFields(t *testing.T, fs []CBField, want map[string][2]int) {
	t.Helper()
	seen := map[string]bool{}
	for _, f := range fs {
		w, ok := want[f.Name]
		if !ok {
			t.Errorf("unexpected member %q", f.Name)
			continue
		}
		seen[f.Name] = true
		if f.Offset != w[0] || f.Size != w[1] {
			t.Errorf("%s: offset %d size %d, want offset %d size %d", f.Name, f.Offset, f.Size, w[0], w[1])
		}
	}
	for n := range want {
		if !seen[n] {
			t.Errorf("member %q missing", n)
		}
	}
}

// The expected offsets are worked out by hand from the HLSL constant-buffer
// packing rules (16-byte registers; no straddling; arrays, structs and
// multi-register matrices start a register; array elements are register
// aligned but the last one is not padded; structs have no tail padding).
func TestCBufferPacking(t *testing.T) {
	src := `
struct A { float3 v; };
struct B { float2 a; float b; };
cbuffer C : register(b3, space2) {
  float f0;                     // 0
  float3 v3;                    // 4   fits in the rest of register 0
  float2 v2a;                   // 16
  float3 v3b;                   // 32  (24 + 12 would straddle)
  A sa;                         // 48  struct starts a register; size 12
  float after;                  // 60  packs into the struct's last register
  float arr[3];                 // 64  stride 16, size 2*16 + 4 = 36
  float afterArr;               // 100 packs after the last (unpadded) element
  float2x2 cm;                  // 112 column_major: 2 registers of 2: size 16 + 8 = 24
  row_major float2x3 rm;        // 144 2 registers of 3: size 16 + 12 = 28
  float t1;                     // 172
  float4x4 m44;                 // 176 size 64
  row_major float3x3 r33;       // 240 size 32 + 12 = 44
  int pad;                      // 284
  B bs[2];                      // 288 stride 16, size 16 + 12 = 28
  float z;                      // 316
  float2 straddle;              // 320 (316 + 8 would straddle)
  column_major float3x2 cm32;   // 336 2 registers (columns) of 3: size 28
  uint3 u3;                     // 368 (364 + 12 would straddle)
  bool flag;                    // 380
  float2 nested[2][2];          // 384 inner array: stride 16 size 24; outer stride 32; size 32 + 24 = 56
  row_major float2x4 gm[2][2];  // 448 element 32, inner size 64, outer stride 64: size 128
}
struct T { float a; float3 b; float4 c[2]; float d; };
ConstantBuffer<T> cb2 : register(b1);
RWByteAddressBuffer rw : register(u4, space1);
ByteAddressBuffer ro : register(t9);
Texture2D<float4> tex : register(t2);
SamplerState samp[4] : register(s0, space3);
`
	u, err := Parse(src)
	if err != nil {
		t.Fatal(err)
	}
	if se := u.StaticErrors(); len(se) != 0 {
		t.Fatal(se)
	}
	c := findRes(t, u, "C")
	if c.Kind != "cbuffer" || c.Slot != "b3.2" || c.RegLetter != 'b' || c.Reg != 3 || c.Space != 2 || c.Size != 576 {
		t.Errorf("cbuffer C: %+v", c)
	}
	checkFields(t, c.Members, map[string][2]int{
		"f0": {0, 4}, "v3": {4, 12}, "v2a": {16, 8}, "v3b": {32, 12}, "sa": {48, 12}, "after": {60, 4},
		"arr": {64, 36}, "afterArr": {100, 4}, "cm": {112, 24}, "rm": {144, 28}, "t1": {172, 4}, "m44": {176, 64},
		"r33": {240, 44}, "pad": {284, 4}, "bs": {288, 28}, "z": {316, 4}, "straddle": {320, 8}, "cm32": {336, 28},
		"u3": {368, 12}, "flag": {380, 4}, "nested": {384, 56}, "gm": {448, 128},
	})
	byName := map[string]CBField{}
	for _, f := range c.Members {
		byName[f.Name] = f
	}
	// component offsets in HLSL order (row by row)
	eq := func(name string, got, want []int) {
		t.Helper()
		if len(got) != len(want) {
			t.Errorf("%s comps %v, want %v", name, got, want)
			return
		}
		for i := range got {
			if got[i] != want[i] {
				t.Errorf("%s comps %v, want %v", name, got, want)
				return
			}
		}
	}
	eq("cm", byName["cm"].Comps, []int{112, 128, 116, 132})               // column_major: element (r,c) at 16c + 4r
	eq("rm", byName["rm"].Comps, []int{144, 148, 152, 160, 164, 168})     // row_major: 16r + 4c
	eq("cm32", byName["cm32"].Comps, []int{336, 352, 340, 356, 344, 360}) // 3 rows x 2 columns, column registers
	eq("r33", byName["r33"].Comps, []int{240, 244, 248, 256, 260, 264, 272, 276, 280})
	if a := byName["arr"]; a.Stride != 16 || a.Len != 3 {
		t.Errorf("arr: %+v", a)
	}
	if n := byName["nested"]; n.Stride != 32 || n.Len != 2 || n.Fields[0].Stride != 16 || n.Fields[0].Size != 24 {
		t.Errorf("nested: %+v", n)
	}
	if g := byName["gm"]; g.Stride != 64 || g.Fields[0].Stride != 32 || !g.RowMajor {
		t.Errorf("gm: %+v", g)
	}
	if bs := byName["bs"]; bs.Stride != 16 || bs.Fields[0].Fields[1].Offset != 296 {
		t.Errorf("bs: %+v", bs)
	}

	c2 := findRes(t, u, "cb2")
	if c2.Kind != "ConstantBuffer" || c2.Type != "ConstantBuffer<T>" || c2.Slot != "b1.0" || c2.HasSpace || c2.Size != 64 {
		t.Errorf("cb2: %+v", c2)
	}
	checkFields(t, c2.Members, map[string][2]int{"a": {0, 4}, "b": {4, 12}, "c": {16, 32}, "d": {48, 4}})

	if r := findRes(t, u, "rw"); r.Kind != "RWByteAddressBuffer" || r.Slot != "u4.1" {
		t.Errorf("rw: %+v", r)
	}
	if r := findRes(t, u, "ro"); r.Kind != "ByteAddressBuffer" || r.Slot != "t9.0" {
		t.Errorf("ro: %+v", r)
	}
	if r := findRes(t, u, "tex"); r.Kind != "Texture2D" || r.Type != "Texture2D<float4>" || r.Slot != "t2.0" {
		t.Errorf("tex: %+v", r)
	}
	if r := findRes(t, u, "samp"); r.Kind != "SamplerState" || r.Slot != "s0.3" || len(r.ArrayDims) != 1 || r.ArrayDims[0] != 4 {
		t.Errorf("samp: %+v", r)
	}
}

// The wrapper types naga uses for uniform layouts must come out at the WGSL
// offsets under the HLSL rules.
func TestCBufferPackingNagaWrappers(t *testing.T) {
	src := `
typedef struct { float2 _0; float2 _1; float2 _2; float2 _3; } __mat4x2;
struct Inner { float3 a; float b; row_major float2x3 m; int _end_pad_0; };
struct U {
    row_major float3x3 m;        // WGSL mat3x3 @0 size 48: HLSL 44, then
    int _pad1_0;                 // 44
    float2 m2__0; float2 m2__1;  // WGSL mat2x2 @48: 48, 56
    uint3 v;                     // 64
    int k;                       // 76
    float4 arr[2];               // 80
    float2 m42__0; float2 m42__1; float2 m42__2; float2 m42__3;   // WGSL mat4x2 @112: 112,120,128,136
    Inner in_;                   // 144: a 144, b 156, m 160 (rows at 160, 176), _end_pad_0 188
    __mat4x2 w[2];               // 192 stride 32
    int tail;                    // 256
};
cbuffer u : register(b1) { U u; }
`
	un, err := Parse(src)
	if err != nil {
		t.Fatal(err)
	}
	r := findRes(t, un, "u")
	if len(r.Members) != 1 || r.Size != 272 {
		t.Fatalf("%+v", r)
	}
	checkFields(t, r.Members[0].Fields, map[string][2]int{
		"m": {0, 44}, "_pad1_0": {44, 4}, "m2__0": {48, 8}, "m2__1": {56, 8}, "v": {64, 12}, "k": {76, 4}, "arr": {80, 32},
		"m42__0": {112, 8}, "m42__1": {120, 8}, "m42__2": {128, 8}, "m42__3": {136, 8}, "in_": {144, 48}, "w": {192, 64}, "tail": {256, 4},
	})
	for _, f := range r.Members[0].Fields {
		if f.Name == "in_" {
			checkFields(t, f.Fields, map[string][2]int{"a": {144, 12}, "b": {156, 4}, "m": {160, 28}, "_end_pad_0": {188, 4}})
		}
	}
}
