package hlslx

import (
	"math"
	"testing"

	"verif/harness/xrt"
)

func TestHalfConversions(t *testing.T) {
	cases := []struct {
		f float32
		h uint32
	}{
		{1.0, 0x3C00}, {-2.0, 0xC000}, {65504, 0x7BFF}, {65520, 0x7C00}, {65519.99, 0x7BFF}, {1e9, 0x7C00},
		{float32(math.Ldexp(1, -14)), 0x0400}, {float32(math.Ldexp(1, -24)), 0x0001}, {float32(math.Ldexp(1, -25)), 0x0000},
		{float32(math.Ldexp(1.5, -25)), 0x0001}, {0.1, 0x2E66}, {0, 0}, {float32(math.Copysign(0, -1)), 0x8000},
		{float32(math.Inf(-1)), 0xFC00}, {1.00048828125, 0x3C00} /* tie to even */, {1.00146484375, 0x3C02}, /* tie to even (odd+1) */
		{float32(math.Ldexp(1023.5, -24)), 0x0400}, /* subnormal tie rounds up into the smallest normal */
	}
	for _, c := range cases {
		if g := f32tof16bits(c.f); g != c.h {
			t.Errorf("f32tof16(%v) = 0x%04x, want 0x%04x", c.f, g, c.h)
		}
	}
	if g := f32tof16bits(float32(math.NaN())); g&0x7C00 != 0x7C00 || g&0x3FF == 0 {
		t.Errorf("f32tof16(NaN) = 0x%04x", g)
	}
	back := []struct {
		h uint32
		f float32
	}{
		{0x3C00, 1}, {0xC000, -2}, {0x7BFF, 65504}, {0x0001, float32(math.Ldexp(1, -24))}, {0x03FF, float32(math.Ldexp(1023, -24))},
		{0x0400, float32(math.Ldexp(1, -14))}, {0x3555, 0.33325195}, {0x7C00, float32(math.Inf(1))}, {0x8000, float32(math.Copysign(0, -1))},
	}
	for _, c := range back {
		if g := f16tof32bits(c.h); math.Float32bits(g) != math.Float32bits(c.f) {
			t.Errorf("f16tof32(0x%04x) = %v, want %v", c.h, g, c.f)
		}
	}
	if g := f16tof32bits(0x7E00); g == g {
		t.Errorf("f16tof32(NaN) = %v", g)
	}
	// round trip of every half value
	for h := uint32(0); h < 0x10000; h++ {
		f := f16tof32bits(h)
		if f != f {
			continue
		}
		if g := f32tof16bits(f); g != h {
			t.Fatalf("round trip 0x%04x -> %v -> 0x%04x", h, f, g)
		}
	}
}

func TestScalarConversions(t *testing.T) {
	if ftoi(float32(math.NaN())) != 0 || ftoi(3e9) != math.MaxInt32 || ftoi(-3e9) != math.MinInt32 || ftoi(-1.9) != -1 || ftoi(2147483520) != 2147483520 {
		t.Error("ftoi")
	}
	if ftou(float32(math.NaN())) != 0 || ftou(-1) != 0 || ftou(5e9) != math.MaxUint32 || ftou(4294967040) != 4294967040 || ftou(1.9) != 1 {
		t.Error("ftou")
	}
	if roundHalfEven(0.5) != 0 || roundHalfEven(1.5) != 2 || roundHalfEven(-2.5) != -2 || roundHalfEven(2.4999998) != 2 {
		t.Error("round")
	}
	if firstBitHighU(0) != 0xFFFFFFFF || firstBitHighU(1) != 0 || firstBitHighU(0x80000000) != 31 {
		t.Error("firstbithigh")
	}
}

// Entry inputs wrapped in a struct with semantics.
func TestEntryInputStruct(t *testing.T) {
	src := `
struct ComputeInput { uint3 gid : SV_DispatchThreadID; uint li : SV_GroupIndex; uint2 lid2 : SV_GroupThreadID; };
RWByteAddressBuffer o : register(u0);
[numthreads(4, 2, 1)]
void main(ComputeInput ci, uint3 wid : SV_GroupID) {
    o.Store3(0, ci.gid);
    o.Store(12, ci.li);
    o.Store2(16, ci.lid2);
    o.Store3(24, wid);
}`
	b := map[string][]byte{"u0.0": fill(36, 0)}
	out := Run(src, xrt.Input{Entry: "main", Buffers: b, LocalID: [3]uint32{3, 1, 0}, WorkgroupID: [3]uint32{2, 5, 7}})
	if !out.OK() {
		t.Fatalf("%+v", out)
	}
	// gid = (2*4+3, 5*2+1, 7*1+0); li = 0*8 + 1*4 + 3
	wantU32s(t, "o", b["u0.0"], 11, 11, 7, 7, 3, 1, 2, 5, 7)
	out = Run(src, xrt.Input{Entry: "main", Buffers: b, LocalID: [3]uint32{4, 0, 0}})
	if out.Skip == "" {
		t.Errorf("LocalID outside numthreads accepted: %+v", out)
	}
}
