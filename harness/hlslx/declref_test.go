package hlslx

import (
	"testing"

	"github.com/gogpu/naga/hlsl"
)

func TestDeclsAndRefs(t *testing.T) {
	src := `struct S { int a; float2 b; };
static int g = 1;
groupshared uint gs[2];
cbuffer cb : register(b0) { S cs; }
typedef float arr3[3];
RWByteAddressBuffer o : register(u0);
int f(int x, inout S s) {
    int g = x;
    {
        int g = 2;
        s.a = g;
    }
    return g + s.a;
}
[numthreads(1,1,1)]
void main(uint3 id : SV_DispatchThreadID) {
    S s = (S)0;
    int r = f(g, s);
    for (uint i = 0u; i < 2u; i++) {
        gs[i] = uint(r) + cs.a + uint(abs(s.b.x));
    }
    arr3 q = (arr3)0;
    o.Store(0, asuint(q[1]));
}
`
	u, err := Parse(src)
	if err != nil {
		t.Fatal(err)
	}
	if se := u.StaticErrors(); len(se) != 0 {
		t.Fatal(se)
	}
	decls := u.Decls()
	type key struct {
		kind, name string
		line       int
	}
	idx := map[key]Decl{}
	for _, d := range decls {
		idx[key{d.Kind, d.Name, d.Line}] = d
	}
	need := func(kind, name string, line, depth int, parentName string) Decl {
		t.Helper()
		d, ok := idx[key{kind, name, line}]
		if !ok {
			t.Fatalf("declaration %s %q at line %d not found in %+v", kind, name, line, decls)
		}
		if d.Depth != depth {
			t.Errorf("%s %q: depth %d, want %d", kind, name, d.Depth, depth)
		}
		pn := ""
		if d.Parent >= 0 {
			pn = decls[d.Parent].Name
		}
		if pn != parentName {
			t.Errorf("%s %q: parent %q, want %q", kind, name, pn, parentName)
		}
		return d
	}
	dS := need("struct", "S", 1, 0, "")
	dSa := need("member", "a", 1, 1, "S")
	dSb := need("member", "b", 1, 1, "S")
	dG := need("static", "g", 2, 0, "")
	dGs := need("groupshared", "gs", 3, 0, "")
	need("cbuffer", "cb", 4, 0, "")
	dCs := need("cbuffer-member", "cs", 4, 0, "cb")
	dArr3 := need("typedef", "arr3", 5, 0, "")
	dO := need("global", "o", 6, 0, "")
	dF := need("function", "f", 7, 0, "")
	dX := need("param", "x", 7, 1, "f")
	dSp := need("param", "s", 7, 1, "f")
	dG1 := need("local", "g", 8, 1, "f")
	dG2 := need("local", "g", 10, 2, "f")
	need("function", "main", 16, 0, "")
	need("param", "id", 16, 1, "main")
	dS2 := need("local", "s", 17, 1, "main")
	dR := need("local", "r", 18, 1, "main")
	dI := need("local", "i", 19, 2, "main")
	dQ := need("local", "q", 22, 1, "main")
	if dG1.Scope == dG2.Scope || dG1.Scope != dX.Scope {
		t.Errorf("scopes: param x %d, outer g %d, inner g %d", dX.Scope, dG1.Scope, dG2.Scope)
	}

	refs := u.Refs()
	at := func(name string, line, col int) Ref {
		t.Helper()
		for _, r := range refs {
			if r.Name == name && r.Line == line && r.Col == col {
				return r
			}
		}
		t.Fatalf("reference %q at %d:%d not found", name, line, col)
		return Ref{}
	}
	expect := func(name string, line, col int, kind string, decl Decl) {
		t.Helper()
		r := at(name, line, col)
		if r.Kind != kind || r.Decl != decl.ID || r.Builtin {
			t.Errorf("ref %q at %d:%d = %+v, want kind %s -> decl %d (%s %s line %d)", name, line, col, r, kind, decl.ID, decl.Kind, decl.Name, decl.Line)
		}
	}
	expect("x", 8, 13, "var", dX)
	expect("g", 11, 15, "var", dG2) // innermost scope first
	expect("s", 11, 9, "var", dSp)
	expect("a", 11, 11, "member", dSa)
	expect("g", 13, 12, "var", dG1) // back in the function scope
	expect("g", 18, 15, "var", dG)  // the static global
	expect("f", 18, 13, "func", dF)
	expect("s", 18, 18, "var", dS2)
	expect("S", 17, 5, "type", dS)
	expect("S", 17, 12, "type", dS)
	expect("gs", 20, 9, "var", dGs)
	expect("i", 20, 12, "var", dI)
	expect("r", 20, 22, "var", dR)
	expect("cs", 20, 27, "var", dCs)
	expect("a", 20, 30, "member", dSa)
	expect("b", 20, 45, "member", dSb)
	expect("arr3", 22, 5, "type", dArr3)
	expect("q", 23, 23, "var", dQ)
	expect("o", 23, 5, "var", dO)
	if r := at("abs", 20, 39); !r.Builtin || r.Decl != -1 || r.Kind != "func" {
		t.Errorf("abs: %+v", r)
	}
	if r := at("uint", 20, 17); !r.Builtin || r.Kind != "type" {
		t.Errorf("uint: %+v", r)
	}
	for _, r := range refs {
		if r.Decl < 0 && !r.Builtin && !r.Unknown {
			t.Errorf("unresolved reference: %+v", r)
		}
		if r.Decl >= 0 && decls[r.Decl].Name != r.Name {
			t.Errorf("reference %+v resolves to a declaration named %q", r, decls[r.Decl].Name)
		}
	}
}

func TestStaticErrors(t *testing.T) {
	cases := []struct{ src, want string }{
		{"void f() { int a = 1; int a = 2; }", "redefinition of 'a'"},
		{"void f(int a) { float a = 1.0; }", "redefinition of 'a'"},
		{"void f() { int a = 1; { int a = 2; } }", ""},
		{"struct S { int a; int a; };", "duplicate member 'a'"},
		{"struct S { int a; }; struct S { int b; };", "redefinition of type 'S'"},
		{"int f(int a) { return 1; } int f(int b) { return 2; }", "redefinition of function"},
		{"int f(int a) { return 1; } int f(uint b) { return 2; }", ""},
		{"void f() { g(); } void g() { }", "undeclared function 'g'"},
		{"struct S { int a; }; void f() { S s = (S)0; s.zz = 1; }", "no member 'zz'"},
		{"void f() { float3 v = (float3)0; v.w = 1.0; }", "invalid swizzle 'w'"},
		{"void f() { int a[k]; }", "undeclared identifier 'k'"},
		{"static const uint N = 3u; void f() { int a[N]; a[0] = 1; }", ""},
		{"void f() { for (int i = 0; i < 2; i++) { } i = 3; }", "undeclared identifier 'i'"},
	}
	for _, c := range cases {
		u, err := Parse(c.src)
		if err != nil {
			t.Errorf("%q: %v", c.src, err)
			continue
		}
		se := u.StaticErrors()
		if c.want == "" {
			if len(se) != 0 {
				t.Errorf("%q: unexpected errors %v", c.src, se)
			}
			continue
		}
		found := false
		for _, e := range se {
			if contains(e, c.want) {
				found = true
			}
		}
		if !found {
			t.Errorf("%q: want error containing %q, got %v", c.src, c.want, se)
		}
	}
}

func contains(s, sub string) bool {
	for i := 0; i+len(sub) <= len(s); i++ {
		if s[i:i+len(sub)] == sub {
			return true
		}
	}
	return false
}

// Every identifier naga emits must resolve; names must be unique per scope.
func TestDeclsAndRefsOnNagaOutput(t *testing.T) {
	src := compileWGSL(t, `
struct Inner { a: vec3<f32>, b: f32 }
struct S { x: u32, inner: Inner, arr: array<vec2<i32>, 3>, m2: mat4x2<f32> }
@group(0) @binding(0) var<storage, read_write> s: S;
@group(0) @binding(1) var<uniform> u: S;
var<workgroup> wg: array<u32, 8>;
fn helper(p: ptr<function, i32>, i: u32) -> i32 { *p = *p + 1; let i = i + 1u; return *p * i32(i); }
@compute @workgroup_size(2)
fn main(@builtin(local_invocation_id) lid: vec3<u32>) {
  var x: i32 = 3;
  let r = helper(&x, lid.x);
  for (var i = 0u; i < 3u; i++) { s.arr[i] = u.arr[i] * r; }
  { let x = 4.0; s.inner.b = x + u.inner.a.y; }
  s.m2[lid.x] = u.m2[lid.x];
  wg[lid.x] = u32(x);
}`, hlsl.DefaultOptions())
	u, err := ParseWith(src, lenient)
	if err != nil {
		t.Fatalf("%v\n%s", err, src)
	}
	if se := u.StaticErrors(); len(se) != 0 {
		t.Fatalf("%v\n%s", se, src)
	}
	decls := u.Decls()
	for _, r := range u.Refs() {
		if r.Decl < 0 && !r.Builtin && !r.Unknown {
			t.Errorf("unresolved reference %+v\n%s", r, src)
		}
	}
	seen := map[[2]interface{}]Decl{}
	for _, d := range decls {
		if d.Kind == "function" || d.Name == "" {
			continue
		}
		k := [2]interface{}{d.Scope, d.Name}
		if p, dup := seen[k]; dup && !(p.Kind == "cbuffer" || d.Kind == "cbuffer") {
			t.Errorf("duplicate declaration in one scope: %+v and %+v", p, d)
		}
		if d.Kind != "cbuffer" {
			seen[k] = d
		}
	}
	if len(decls) < 20 {
		t.Errorf("only %d declarations", len(decls))
	}
}
