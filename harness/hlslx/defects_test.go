package hlslx

import (
	"bytes"
	"strings"
	"testing"

	"github.com/gogpu/naga/hlsl"

	"verif/harness/xrt"
)

// The tests in this file pin down mistranslations of naga's HLSL backend that
// the executor exposed while the end-to-end tests were written.  /repo is a
// moving target (defects get fixed), so each test accepts exactly two
// outcomes: the result WGSL requires (logged as "ok"), or the documented
// defect (logged as "NAGA DEFECT PRESENT").  Anything else fails.

type defectCase struct {
	wgsl string
	opts *hlsl.Options
	in   xrt.Input
	// good checks for the WGSL-required result.
	good func(out xrt.Outcome, src string, bufs map[string][]byte) bool
	// defect checks for the documented misbehaviour.
	defect func(out xrt.Outcome, src string, bufs map[string][]byte) bool
	what   string
}

func runDefect(t *testing.T, c defectCase) {
	t.Helper()
	opts := c.opts
	if opts == nil {
		opts = hlsl.DefaultOptions()
	}
	src := compileWGSL(t, c.wgsl, opts)
	in := c.in
	if in.Entry == "" {
		in.Entry = "main"
	}
	in.Buffers = cloneBufs(in.Buffers)
	in.TraceAccesses = true
	out := RunWith(src, in, lenient)
	switch {
	case c.good(out, src, in.Buffers):
		t.Logf("ok (naga translates this correctly now): %s", c.what)
	case c.defect(out, src, in.Buffers):
		t.Logf("NAGA DEFECT PRESENT: %s", c.what)
	default:
		t.Errorf("neither the required result nor the documented defect: %s\noutcome: trap=%q skip=%q\nbuffers: %v\n--- HLSL ---\n%s", c.what, out.Trap, out.Skip, in.Buffers, src)
	}
}

func bufHasU32s(b []byte, off int, vs ...uint32) bool {
	return len(b) >= off+4*len(vs) && bytes.Equal(b[off:off+4*len(vs)], u32s(vs...))
}

func bufHasF32s(b []byte, off int, vs ...float32) bool {
	return len(b) >= off+4*len(vs) && bytes.Equal(b[off:off+4*len(vs)], f32s(vs...))
}

// WGSL: var<private> pv: array<i32,4>.  naga emitted "static int[4] pv = ...";
// HLSL has no "T[N] name" declarator (dimensions follow the name).
func TestNagaDefect_PrivateArrayDeclaratorSyntax(t *testing.T) {
	src := compileWGSL(t, `
@group(0) @binding(0) var<storage, read_write> o: array<i32, 2>;
var<private> pv: array<i32, 4>;
@compute @workgroup_size(1) fn main() { pv[1] = 3; o[0] = pv[1]; }`, hlsl.DefaultOptions())
	b := map[string][]byte{"u0.0": fill(8, 0)}
	out := Run(src, xrt.Input{Entry: "main", Buffers: b})
	switch {
	case out.OK() && bufHasU32s(b["u0.0"], 0, 3):
		t.Log("ok (valid declarator)")
	case strings.Contains(src, "static int[4] pv") && strings.Contains(out.Skip, "is not HLSL syntax"):
		t.Log("NAGA DEFECT PRESENT: private array declared as 'static int[4] pv' (not HLSL syntax); strict mode rejects it")
		u, err := ParseWith(src, lenient)
		if err != nil || len(u.Diagnostics) != 1 {
			t.Fatalf("lenient parse: %v %v", err, u)
		}
	default:
		t.Errorf("unexpected: %+v\n%s", out, src)
	}
}

// WGSL: determinant(m) is an f32.  naga's HLSL writer gave the result the
// type of the ARGUMENT: "o[1] = determinant(B)" became a float3x3 temporary
// stored with three Store3 (48 bytes instead of 4).
func TestNagaDefect_DeterminantResultType(t *testing.T) {
	runDefect(t, defectCase{
		what: "determinant() result typed like its argument: a scalar store becomes a 3x3 matrix store",
		wgsl: `
struct In { A: mat2x3<f32>, B: mat3x3<f32> }
@group(0) @binding(0) var<storage, read_write> o: array<f32, 16>;
@group(0) @binding(1) var<storage, read> i: In;
@compute @workgroup_size(1) fn main() { o[1] = determinant(i.B); let d = determinant(i.B); o[0] = d + 1.0; }`,
		in: xrt.Input{Buffers: map[string][]byte{"u0.0": fill(64, 0xCD), "t1.0": cat(zeros(32), f32s(2, 0, 0, 0), f32s(0, 3, 0, 0), f32s(1, 0, 4, 0))}},
		good: func(out xrt.Outcome, src string, b map[string][]byte) bool {
			return out.OK() && bufHasF32s(b["u0.0"], 0, 25, 24) && bufHasU32s(b["u0.0"], 8, 0xCDCDCDCD)
		},
		defect: func(out xrt.Outcome, src string, b map[string][]byte) bool {
			return strings.Contains(src, "float3x3 _value2 = determinant(")
		},
	})
}

// WGSL: transpose(mat2x3) is a mat3x2.  naga typed it like its argument, so
// "let t = transpose(A)" declared "float2x3 t = transpose(...)": a float3x2
// assigned to a float2x3, which HLSL rejects.
func TestNagaDefect_TransposeResultType(t *testing.T) {
	runDefect(t, defectCase{
		what: "transpose() of a non-square matrix typed like its argument",
		wgsl: `
struct In { A: mat2x3<f32>, B: mat3x3<f32> }
struct Out { t: mat3x2<f32>, v: vec2<f32> }
@group(0) @binding(0) var<storage, read_write> o: Out;
@group(0) @binding(1) var<storage, read> i: In;
@compute @workgroup_size(1) fn main() {
  let t = transpose(i.A);        // columns (1,4),(2,5),(3,6)
  o.t = t;
  o.v = t * vec3<f32>(1.0, 2.0, 3.0);   // (1+4+9, 4+10+18) = (14, 32)
}`,
		in: xrt.Input{Buffers: map[string][]byte{"u0.0": fill(32, 0xCD), "t1.0": cat(f32s(1, 2, 3, 0), f32s(4, 5, 6, 0), zeros(48))}},
		good: func(out xrt.Outcome, src string, b map[string][]byte) bool {
			return out.OK() && bufHasF32s(b["u0.0"], 0, 1, 4, 2, 5, 3, 6, 14, 32)
		},
		defect: func(out xrt.Outcome, src string, b map[string][]byte) bool {
			return strings.Contains(out.Skip, "cannot convert float3x2 to float2x3")
		},
	})
}

// WGSL: u.ms[n][1] with a dynamic array index n into array<mat2x2<f32>,2> in
// uniform memory.  naga passed the ARRAY to __get_col_of_mat2x2 and used the
// array index as the column index.
func TestNagaDefect_DynamicIndexIntoUniformArrayOfMatCx2(t *testing.T) {
	runDefect(t, defectCase{
		what: "dynamic index into a uniform array of matCx2: the array is passed to __get_col_of_mat2x2",
		wgsl: `
struct U { ms: array<mat2x2<f32>, 2>, n: u32 }
@group(0) @binding(0) var<storage, read_write> o: array<f32, 4>;
@group(0) @binding(1) var<uniform> u: U;
@compute @workgroup_size(1) fn main() { o[0] = u.ms[u.n][1].x; }`,
		in: xrt.Input{Buffers: map[string][]byte{"u0.0": fill(16, 0xCD), "b1.0": cat(f32s(1, 2, 3, 4, 5, 6, 7, 8), u32s(1, 0, 0, 0))}},
		good: func(out xrt.Outcome, src string, b map[string][]byte) bool {
			return out.OK() && bufHasF32s(b["u0.0"], 0, 7)
		},
		defect: func(out xrt.Outcome, src string, b map[string][]byte) bool {
			return out.Skip != "" && strings.Contains(src, "__get_col_of_mat2x2(u.ms, ")
		},
	})
}

// WGSL: countLeadingZeros(0xF0u) = 24, countLeadingZeros(0u) = 32,
// countTrailingZeros(0u) = 32.  naga emitted bare firstbithigh / firstbitlow.
func TestNagaDefect_CountLeadingTrailingZeros(t *testing.T) {
	runDefect(t, defectCase{
		what: "countLeadingZeros/countTrailingZeros emitted as bare firstbithigh/firstbitlow",
		wgsl: `
@group(0) @binding(0) var<storage, read_write> o: array<u32, 8>;
@group(0) @binding(1) var<storage, read> u: array<u32, 4>;
@compute @workgroup_size(1) fn main() {
  o[0] = countLeadingZeros(u[0]); o[1] = countLeadingZeros(u[1]); o[2] = countTrailingZeros(u[1]);
  o[3] = bitcast<u32>(countLeadingZeros(bitcast<i32>(u[2])));   // -1: 0
  o[4] = countLeadingZeros(u[3]);                                 // 0x80000000: 0
  o[5] = countTrailingZeros(u[3]);                                // 31
}`,
		in: xrt.Input{Buffers: map[string][]byte{"u0.0": fill(32, 0xCD), "t1.0": u32s(0xF0, 0, 0xffffffff, 0x80000000)}},
		good: func(out xrt.Outcome, src string, b map[string][]byte) bool {
			return out.OK() && bufHasU32s(b["u0.0"], 0, 24, 32, 32, 0, 0, 31)
		},
		defect: func(out xrt.Outcome, src string, b map[string][]byte) bool {
			return out.OK() && bufHasU32s(b["u0.0"], 0, 7, 0xffffffff, 0xffffffff)
		},
	})
}

// WGSL: sign(-2.5) = -1.0 (f32).  HLSL's sign() returns int; naga stored
// asuint(sign(x)), i.e. the integer -1, not the float.
func TestNagaDefect_FloatSign(t *testing.T) {
	runDefect(t, defectCase{
		what: "sign() of a float: HLSL sign returns int, the int bits are stored as the f32 result",
		wgsl: `
@group(0) @binding(0) var<storage, read_write> o: array<f32, 4>;
@group(0) @binding(1) var<storage, read> x: array<f32, 2>;
@compute @workgroup_size(1) fn main() { o[0] = sign(x[0]); o[1] = sign(x[1]) * 3.0; let v = sign(vec2<f32>(x[0], x[1])); o[2] = v.x + v.y; }`,
		in: xrt.Input{Buffers: map[string][]byte{"u0.0": fill(16, 0xCD), "t1.0": f32s(-2.5, 7)}},
		good: func(out xrt.Outcome, src string, b map[string][]byte) bool {
			return out.OK() && bufHasF32s(b["u0.0"], 0, -1, 3, 0)
		},
		defect: func(out xrt.Outcome, src string, b map[string][]byte) bool {
			return out.OK() && bufHasU32s(b["u0.0"], 0, 0xffffffff)
		},
	})
}

// WGSL: @builtin(num_workgroups).  Without Options.SpecialConstantsBinding
// naga bound the parameter to SV_GroupID, i.e. it read workgroup_id.
func TestNagaDefect_NumWorkgroupsWithoutSpecialConstants(t *testing.T) {
	wgsl := `
@group(0) @binding(0) var<storage, read_write> o: array<u32, 4>;
@compute @workgroup_size(1)
fn main(@builtin(num_workgroups) nwg: vec3<u32>) { o[0] = nwg.x; o[1] = nwg.y; o[2] = nwg.z; }`
	src, err := tryCompileWGSL(wgsl, hlsl.DefaultOptions())
	if err != nil {
		t.Logf("ok: naga refuses num_workgroups without a special-constants binding: %v", err)
		return
	}
	in := xrt.Input{Entry: "main", Buffers: map[string][]byte{"u0.0": fill(16, 0xCD)}, NumWorkgroups: [3]uint32{8, 9, 10}, WorkgroupID: [3]uint32{1, 2, 3}}
	out := RunWith(src, in, lenient)
	switch {
	case out.OK() && bufHasU32s(in.Buffers["u0.0"], 0, 8, 9, 10):
		t.Log("ok")
	case out.OK() && bufHasU32s(in.Buffers["u0.0"], 0, 1, 2, 3) && strings.Contains(src, "nwg : SV_GroupID"):
		t.Log("NAGA DEFECT PRESENT: num_workgroups is bound to SV_GroupID (reads workgroup_id) when SpecialConstantsBinding is nil")
	default:
		t.Errorf("unexpected: %+v %v\n%s", out, in.Buffers, src)
	}
}

// WGSL: s.m = M; s.m[i] = v on a function-scope struct holding a mat2x2 (a
// matCx2 member is split into columns in HLSL).  naga calls SetMat...(s, ...)
// whose first parameter is passed BY VALUE, so the stores are lost.
func TestNagaDefect_MatCx2StoresThroughByValueHelpers(t *testing.T) {
	runDefect(t, defectCase{
		what: "stores to a matCx2 struct member go through SetMat* helpers that take the struct by value: the store is lost",
		wgsl: `
struct S { m: mat2x2<f32> }
@group(0) @binding(0) var<storage, read_write> o: array<f32, 4>;
@group(0) @binding(1) var<storage, read> idx: u32;
@group(0) @binding(2) var<uniform> un: S;
@compute @workgroup_size(1) fn main() {
  var s: S;
  s.m = mat2x2<f32>(1.0, 2.0, 3.0, 4.0);
  s.m[idx] = vec2<f32>(30.0, 40.0);
  o[0] = s.m[1].x; o[1] = s.m[1].y; o[2] = un.m[0].x + s.m[0].y;
}`,
		in: xrt.Input{Buffers: map[string][]byte{"u0.0": fill(16, 0xCD), "t1.0": u32s(1), "b2.0": f32s(0.5, 0, 0, 0)}},
		good: func(out xrt.Outcome, src string, b map[string][]byte) bool {
			return out.OK() && bufHasF32s(b["u0.0"], 0, 30, 40, 2.5)
		},
		defect: func(out xrt.Outcome, src string, b map[string][]byte) bool {
			return out.OK() && bufHasF32s(b["u0.0"], 0, 0, 0, 0.5) && strings.Contains(src, "void SetMatmOnS(S obj,")
		},
	})
}

// texture-external.wgsl: the entry points pass an undeclared identifier "tex".
func TestNagaDefect_TextureExternalUndeclaredIdentifier(t *testing.T) {
	wgsl := mustReadCorpus(t, "texture-external.wgsl")
	src, err := tryCompileWGSL(wgsl, hlsl.DefaultOptions())
	if err != nil {
		t.Skip(err)
	}
	u, err := Parse(src)
	if err != nil {
		t.Fatal(err)
	}
	for _, e := range u.StaticErrors() {
		if strings.Contains(e, "undeclared identifier 'tex'") {
			t.Log("NAGA DEFECT PRESENT: texture-external.wgsl passes the undeclared identifier 'tex' to test()")
			return
		}
	}
	if len(u.StaticErrors()) == 0 {
		t.Log("ok")
		return
	}
	t.Errorf("unexpected static errors: %v", u.StaticErrors())
}
