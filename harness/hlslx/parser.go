package hlslx

import (
	"fmt"
	"strings"

	"verif/harness/xrt"
)

// Unit is a parsed HLSL translation unit.
type Unit struct {
	Src    string
	Decls_ []TopDecl

	Structs  []*StructDecl
	Typedefs []*TypedefDecl
	Funcs    []*FuncDecl
	Globals  []*VarDecl // all global-scope variables incl. cbuffer members, in order
	CBuffers []*CBufferDecl

	// Diagnostics lists constructs that are not valid HLSL but that the parser
	// was able to read anyway (only in lenient mode; in strict mode they are
	// parse errors).
	Diagnostics []string

	// filled by the checker
	decls       []Decl
	refs        []Ref
	sev         []xrt.ScopeEv // declaration / reference event stream (C16, see ScopeEvents)
	staticErrs  []string
	userTypes   map[string]*Type
	funcsByName map[string][]*FuncDecl
	resources   []Resource
	resErr      error
}

type parser struct {
	toks      []token
	p         int
	typeNames map[string]bool
	lenient   bool
	diags     []string
	depth     int
}

const maxParseDepth = 400

func (ps *parser) enter() {
	ps.depth++
	if ps.depth > maxParseDepth {
		ps.fail(ps.peek().pos, "nesting deeper than %d levels", maxParseDepth)
	}
}
func (ps *parser) leave() { ps.depth-- }

type bailout struct{ err error }

func (ps *parser) fail(pos Pos, format string, a ...interface{}) {
	panic(bailout{&parseError{pos, fmt.Sprintf(format, a...)}})
}

func (ps *parser) peek() token { return ps.toks[ps.p] }
func (ps *parser) peekN(n int) token {
	if ps.p+n < len(ps.toks) {
		return ps.toks[ps.p+n]
	}
	return ps.toks[len(ps.toks)-1]
}
func (ps *parser) next() token {
	t := ps.toks[ps.p]
	if t.kind != tkEOF {
		ps.p++
	}
	return t
}
func (ps *parser) isPunct(s string) bool {
	t := ps.peek()
	return t.kind == tkPunct && t.text == s
}
func (ps *parser) isPunctN(n int, s string) bool {
	t := ps.peekN(n)
	return t.kind == tkPunct && t.text == s
}
func (ps *parser) isIdent(s string) bool {
	t := ps.peek()
	return t.kind == tkIdent && t.text == s
}
func (ps *parser) accept(s string) bool {
	if ps.isPunct(s) {
		ps.p++
		return true
	}
	return false
}
func (ps *parser) expect(s string) token {
	t := ps.peek()
	if t.kind != tkPunct || t.text != s {
		ps.fail(t.pos, "expected '%s', found %s", s, t)
	}
	ps.p++
	return t
}
func (ps *parser) expectIdent() token {
	t := ps.peek()
	if t.kind != tkIdent {
		ps.fail(t.pos, "expected identifier, found %s", t)
	}
	if reservedWords[t.text] {
		ps.fail(t.pos, "reserved word '%s' used as identifier", t.text)
	}
	ps.p++
	return t
}

var reservedWords = map[string]bool{
	"if": true, "else": true, "for": true, "while": true, "do": true, "switch": true, "case": true, "default": true,
	"break": true, "continue": true, "return": true, "discard": true, "struct": true, "typedef": true, "cbuffer": true,
	"tbuffer": true, "static": true, "const": true, "groupshared": true, "inout": true, "out": true, "in": true,
	"true": true, "false": true, "void": true, "register": true, "packoffset": true, "namespace": true, "class": true,
	"interface": true, "template": true, "typename": true, "this": true, "row_major": true, "column_major": true,
	"uniform": true, "extern": true, "volatile": true, "inline": true, "precise": true, "nointerpolation": true,
	"noperspective": true, "centroid": true, "linear": true, "shared": true, "export": true,
}

var scalarTypeNames = map[string]bool{
	"bool": true, "int": true, "uint": true, "dword": true, "float": true, "half": true, "double": true,
	"min16float": true, "min10float": true, "min16int": true, "min12int": true, "min16uint": true,
	"int16_t": true, "uint16_t": true, "int32_t": true, "uint32_t": true, "int64_t": true, "uint64_t": true,
	"float16_t": true, "float32_t": true, "float64_t": true,
}

// splitNumericType splits "float3x2" into ("float", 3, 2, true); "uint4" into
// ("uint", 4, 0, true); "int" into ("int", 0, 0, true).
func splitNumericType(name string) (base string, a, b int, ok bool) {
	if scalarTypeNames[name] {
		return name, 0, 0, true
	}
	n := len(name)
	if n >= 4 && name[n-2] == 'x' && name[n-1] >= '1' && name[n-1] <= '4' && name[n-3] >= '1' && name[n-3] <= '4' {
		if scalarTypeNames[name[:n-3]] {
			return name[:n-3], int(name[n-3] - '0'), int(name[n-1] - '0'), true
		}
		return "", 0, 0, false
	}
	if n >= 2 && name[n-1] >= '1' && name[n-1] <= '4' {
		if scalarTypeNames[name[:n-1]] {
			return name[:n-1], int(name[n-1] - '0'), 0, true
		}
	}
	return "", 0, 0, false
}

var resourceTypeNames = map[string]bool{
	"ByteAddressBuffer": true, "RWByteAddressBuffer": true, "RasterizerOrderedByteAddressBuffer": true,
	"StructuredBuffer": true, "RWStructuredBuffer": true, "AppendStructuredBuffer": true, "ConsumeStructuredBuffer": true,
	"Buffer": true, "RWBuffer": true, "ConstantBuffer": true, "TextureBuffer": true,
	"Texture1D": true, "Texture1DArray": true, "Texture2D": true, "Texture2DArray": true, "Texture2DMS": true,
	"Texture2DMSArray": true, "Texture3D": true, "TextureCube": true, "TextureCubeArray": true,
	"RWTexture1D": true, "RWTexture1DArray": true, "RWTexture2D": true, "RWTexture2DArray": true, "RWTexture3D": true,
	"SamplerState": true, "SamplerComparisonState": true, "sampler": true,
	"RaytracingAccelerationStructure": true, "RayQuery": true, "RayDesc": true,
	"CANDIDATE_TYPE": true, "COMMITTED_STATUS": true,
	"vector": true, "matrix": true,
	"InputPatch": true, "OutputPatch": true, "PointStream": true, "LineStream": true, "TriangleStream": true,
}

func (ps *parser) isTypeName(name string) bool {
	if name == "void" {
		return true
	}
	if _, _, _, ok := splitNumericType(name); ok {
		return true
	}
	return resourceTypeNames[name] || ps.typeNames[name]
}

var modifierWords = map[string]bool{
	"static": true, "const": true, "groupshared": true, "uniform": true, "extern": true, "volatile": true,
	"precise": true, "row_major": true, "column_major": true, "nointerpolation": true, "linear": true,
	"centroid": true, "noperspective": true, "sample": true, "inline": true, "in": true, "out": true, "inout": true,
	"globallycoherent": true, "shared": true, "snorm": true, "unorm": true, "export": true,
}

// contextual modifiers (mesh / geometry shader parameter qualifiers); they are
// ordinary identifiers elsewhere.
var contextualModifiers = map[string]bool{
	"vertices": true, "indices": true, "primitives": true, "payload": true,
	"point": true, "line": true, "triangle": true, "lineadj": true, "triangleadj": true,
}

func (ps *parser) parseModifiers() []string {
	var mods []string
	for {
		t := ps.peek()
		if t.kind != tkIdent {
			return mods
		}
		if modifierWords[t.text] {
			// a modifier is always followed by another modifier or a type
			// name; "sample", "linear", ... can also be plain identifiers.
			if ps.peekN(1).kind != tkIdent {
				return mods
			}
			mods = append(mods, t.text)
			ps.p++
			continue
		}
		if contextualModifiers[t.text] && ps.peekN(1).kind == tkIdent && (ps.isTypeName(ps.peekN(1).text) || modifierWords[ps.peekN(1).text]) && !ps.isTypeName(t.text) {
			mods = append(mods, t.text)
			ps.p++
			continue
		}
		return mods
	}
}

// startsDecl reports whether the upcoming tokens start a declaration.
func (ps *parser) startsDecl() bool {
	t := ps.peek()
	if t.kind != tkIdent {
		return false
	}
	if t.text == "struct" || t.text == "typedef" {
		return true
	}
	if modifierWords[t.text] {
		return ps.peekN(1).kind == tkIdent
	}
	if ps.isTypeName(t.text) {
		// "float3(...)" is a constructor expression, "float3 x" a declaration;
		// "T<...> x" a declaration.
		n := ps.peekN(1)
		if n.kind == tkIdent {
			return true
		}
		if n.kind == tkPunct && n.text == "<" && (resourceTypeNames[t.text]) {
			return true
		}
		if n.kind == tkPunct && n.text == "[" {
			// "int[4] pv" (not HLSL) - only a declaration if "] ident" follows.
			depth := 0
			for i := 1; ; i++ {
				x := ps.peekN(i)
				if x.kind == tkEOF {
					return false
				}
				if x.kind == tkPunct && x.text == "[" {
					depth++
				} else if x.kind == tkPunct && x.text == "]" {
					depth--
					if depth == 0 {
						y := ps.peekN(i + 1)
						if y.kind == tkPunct && y.text == "[" {
							continue
						}
						return y.kind == tkIdent
					}
				}
			}
		}
	}
	return false
}

func (ps *parser) parseTypeSpec() *TypeSpec {
	ps.enter()
	defer ps.leave()
	t := ps.peek()
	if t.kind != tkIdent {
		ps.fail(t.pos, "expected type name, found %s", t)
	}
	ts := &TypeSpec{Pos: t.pos}
	if t.text == "struct" {
		ps.p++
		sd := &StructDecl{Pos: t.pos}
		if ps.peek().kind == tkIdent {
			nm := ps.expectIdent()
			sd.Name = nm.text
			sd.Pos = nm.pos
			if !ps.isPunct("{") {
				// "struct Name" used as a type reference
				if !ps.typeNames[nm.text] {
					ps.fail(nm.pos, "unknown struct '%s'", nm.text)
				}
				ts.Name = nm.text
				ts.Pos = nm.pos
				return ts
			}
			ps.typeNames[sd.Name] = true
		}
		ps.parseStructBody(sd)
		ts.Struct = sd
		ts.Name = sd.Name
		return ts
	}
	if !ps.isTypeName(t.text) {
		ps.fail(t.pos, "unknown type name '%s'", t.text)
	}
	ps.p++
	ts.Name = t.text
	if ps.isPunct("<") && (resourceTypeNames[t.text]) {
		ps.p++
		ts.HasTmpl = true
		for !ps.isPunct(">") {
			var arg TmplArg
			for ps.isIdent("unorm") || ps.isIdent("snorm") {
				arg.Mods = append(arg.Mods, ps.next().text)
			}
			if x := ps.peek(); x.kind == tkIdent && ps.isTypeName(x.text) {
				arg.Type = ps.parseTypeSpec()
			} else {
				// constant expression; parse above the relational level so that
				// '>' terminates the list
				arg.Expr = ps.parseBinary(precShift)
			}
			ts.Tmpl = append(ts.Tmpl, arg)
			if !ps.accept(",") {
				break
			}
		}
		if ps.isPunct(">>") {
			// split ">>" closing two template lists
			ps.toks[ps.p].text = ">"
		} else {
			ps.expect(">")
		}
	}
	return ts
}

func (ps *parser) parseStructBody(sd *StructDecl) {
	ps.expect("{")
	for !ps.isPunct("}") {
		if ps.peek().kind == tkEOF {
			ps.fail(ps.peek().pos, "unterminated struct '%s'", sd.Name)
		}
		if ps.accept(";") {
			continue
		}
		mods := ps.parseModifiers()
		ts := ps.parseTypeSpec()
		ps.parseArrayPre(ts)
		for {
			v := ps.parseDeclarator(ts, mods, VMember)
			if v.Init != nil {
				ps.fail(v.Pos, "struct member '%s' has an initializer", v.Name)
			}
			sd.Members = append(sd.Members, v)
			if !ps.accept(",") {
				break
			}
		}
		ps.expect(";")
	}
	ps.expect("}")
}

// parseArrayPre handles the non-HLSL "T[N] name" spelling.
func (ps *parser) parseArrayPre(ts *TypeSpec) {
	if !ps.isPunct("[") {
		return
	}
	pos := ps.peek().pos
	if !ps.lenient {
		ps.fail(pos, "array dimension after the type name ('%s[...] name') is not HLSL syntax; dimensions follow the declared name", ts.Name)
	}
	for ps.accept("[") {
		ts.ArrayPre = append(ts.ArrayPre, ps.parseExpr())
		ps.expect("]")
	}
	ps.diags = append(ps.diags, fmt.Sprintf("%s: array dimension after the type name ('%s[...] name') is not HLSL syntax", pos, ts.Name))
}

func (ps *parser) parseDims() []Expr {
	var dims []Expr
	for ps.isPunct("[") {
		ps.p++
		if ps.isPunct("]") {
			dims = append(dims, nil)
		} else {
			dims = append(dims, ps.parseExpr())
		}
		ps.expect("]")
	}
	return dims
}

func (ps *parser) parseRegister() *RegisterSpec {
	t := ps.next() // 'register'
	rs := &RegisterSpec{Pos: t.pos}
	ps.expect("(")
	id := ps.peek()
	if id.kind != tkIdent {
		ps.fail(id.pos, "expected register name, found %s", id)
	}
	ps.p++
	if len(id.text) < 2 || strings.IndexByte("butsc", id.text[0]) < 0 {
		// could be a profile: register(ps_5_0, s0) - not supported
		ps.fail(id.pos, "unsupported register specification '%s'", id.text)
	}
	n := 0
	for _, c := range id.text[1:] {
		if c < '0' || c > '9' {
			ps.fail(id.pos, "malformed register '%s'", id.text)
		}
		n = n*10 + int(c-'0')
		if n > 1<<24 {
			ps.fail(id.pos, "register number too large in '%s'", id.text)
		}
	}
	rs.Letter = id.text[0]
	rs.Num = n
	if ps.accept("[") { // register(t0[2]) subcomponent: not supported
		ps.fail(id.pos, "register subcomponent not supported")
	}
	if ps.accept(",") {
		sp := ps.peek()
		if sp.kind != tkIdent || !strings.HasPrefix(sp.text, "space") || len(sp.text) == 5 {
			ps.fail(sp.pos, "expected spaceN, found %s", sp)
		}
		ps.p++
		m := 0
		for _, c := range sp.text[5:] {
			if c < '0' || c > '9' {
				ps.fail(sp.pos, "malformed register space '%s'", sp.text)
			}
			m = m*10 + int(c-'0')
			if m > 1<<24 {
				ps.fail(sp.pos, "register space too large")
			}
		}
		rs.Space = m
		rs.HasSpace = true
	}
	ps.expect(")")
	return rs
}

// parseDeclarator parses: name [dims] (: semantic | : register(..) | : packoffset(..))* (= init)?
func (ps *parser) parseDeclarator(ts *TypeSpec, mods []string, class VarClass) *VarDecl {
	nm := ps.expectIdent()
	v := &VarDecl{Pos: nm.pos, Name: nm.text, Type: ts, Mods: mods, Class: class, slot: -1}
	v.Dims = ps.parseDims()
	for ps.isPunct(":") {
		ps.p++
		t := ps.peek()
		if t.kind != tkIdent {
			ps.fail(t.pos, "expected semantic or register after ':', found %s", t)
		}
		switch t.text {
		case "register":
			if v.Register != nil {
				ps.fail(t.pos, "multiple register bindings on '%s'", v.Name)
			}
			v.Register = ps.parseRegister()
		case "packoffset":
			ps.fail(t.pos, "packoffset is not supported")
		default:
			ps.p++
			v.Semantic = t.text
		}
	}
	if ps.accept("=") {
		v.Init = ps.parseInitializer()
	}
	return v
}

func (ps *parser) parseInitializer() Expr {
	ps.enter()
	defer ps.leave()
	if ps.isPunct("{") {
		t := ps.next()
		il := &InitList{Pos: t.pos}
		for !ps.isPunct("}") {
			il.Elems = append(il.Elems, ps.parseInitializer())
			if !ps.accept(",") {
				break
			}
		}
		ps.expect("}")
		return il
	}
	return ps.parseAssign()
}

func (ps *parser) parseAttrs() []Attr {
	var attrs []Attr
	for ps.isPunct("[") {
		ps.p++
		nm := ps.peek()
		if nm.kind != tkIdent {
			ps.fail(nm.pos, "expected attribute name, found %s", nm)
		}
		ps.p++
		a := Attr{Pos: nm.pos, Name: nm.text}
		if ps.accept("(") {
			for !ps.isPunct(")") {
				a.Args = append(a.Args, ps.parseAssign())
				if !ps.accept(",") {
					break
				}
			}
			ps.expect(")")
		}
		ps.expect("]")
		attrs = append(attrs, a)
	}
	return attrs
}

func (ps *parser) parseUnit() *Unit {
	u := &Unit{}
	for ps.peek().kind != tkEOF {
		if ps.accept(";") {
			continue
		}
		t := ps.peek()
		if t.kind == tkIdent && t.text == "struct" && ps.peekN(1).kind == tkIdent && ps.isPunctN(2, "{") {
			ts := ps.parseTypeSpec()
			u.Structs = append(u.Structs, ts.Struct)
			u.Decls_ = append(u.Decls_, ts.Struct)
			if ps.isPunct(";") {
				ps.p++
				continue
			}
			// struct S {...} var;
			grp := &VarGroup{}
			for {
				v := ps.parseDeclarator(ts, nil, VGlobal)
				grp.Vars = append(grp.Vars, v)
				u.Globals = append(u.Globals, v)
				if !ps.accept(",") {
					break
				}
			}
			ps.expect(";")
			u.Decls_ = append(u.Decls_, grp)
			continue
		}
		if t.kind == tkIdent && t.text == "typedef" {
			ps.p++
			mods := ps.parseModifiers()
			_ = mods
			ts := ps.parseTypeSpec()
			if ts.Struct != nil {
				u.Structs = append(u.Structs, ts.Struct)
				u.Decls_ = append(u.Decls_, ts.Struct)
			}
			ps.parseArrayPre(ts)
			for {
				nm := ps.expectIdent()
				td := &TypedefDecl{Pos: nm.pos, Name: nm.text, Type: ts}
				td.Dims = ps.parseDims()
				ps.typeNames[td.Name] = true
				u.Typedefs = append(u.Typedefs, td)
				u.Decls_ = append(u.Decls_, td)
				if !ps.accept(",") {
					break
				}
			}
			ps.expect(";")
			continue
		}
		if t.kind == tkIdent && (t.text == "cbuffer" || t.text == "tbuffer") {
			ps.p++
			nm := ps.expectIdent()
			cb := &CBufferDecl{Pos: nm.pos, Name: nm.text, TBuffer: t.text == "tbuffer"}
			if ps.accept(":") {
				if !ps.isIdent("register") {
					ps.fail(ps.peek().pos, "expected register(...) after ':' on cbuffer")
				}
				cb.Register = ps.parseRegister()
			}
			ps.expect("{")
			for !ps.isPunct("}") {
				if ps.peek().kind == tkEOF {
					ps.fail(ps.peek().pos, "unterminated cbuffer '%s'", cb.Name)
				}
				if ps.accept(";") {
					continue
				}
				mods := ps.parseModifiers()
				ts := ps.parseTypeSpec()
				if ts.Struct != nil {
					u.Structs = append(u.Structs, ts.Struct)
					u.Decls_ = append(u.Decls_, ts.Struct)
				}
				ps.parseArrayPre(ts)
				for {
					v := ps.parseDeclarator(ts, mods, VCBMember)
					v.CBuffer = cb
					if v.Init != nil {
						ps.fail(v.Pos, "initializer on cbuffer member '%s' is not supported", v.Name)
					}
					cb.Members = append(cb.Members, v)
					u.Globals = append(u.Globals, v)
					if !ps.accept(",") {
						break
					}
				}
				ps.expect(";")
			}
			ps.expect("}")
			ps.accept(";")
			u.CBuffers = append(u.CBuffers, cb)
			u.Decls_ = append(u.Decls_, cb)
			continue
		}
		attrs := ps.parseAttrs()
		mods := ps.parseModifiers()
		ts := ps.parseTypeSpec()
		if ts.Struct != nil {
			u.Structs = append(u.Structs, ts.Struct)
			u.Decls_ = append(u.Decls_, ts.Struct)
		}
		ps.parseArrayPre(ts)
		if ps.peek().kind == tkIdent && ps.isPunctN(1, "(") {
			fn := ps.parseFunctionRest(ts, mods, attrs)
			u.Funcs = append(u.Funcs, fn)
			u.Decls_ = append(u.Decls_, fn)
			continue
		}
		if len(attrs) > 0 {
			ps.fail(attrs[0].Pos, "attribute on a non-function declaration")
		}
		class := VGlobal
		for _, m := range mods {
			switch m {
			case "static":
				class = VStatic
			case "groupshared":
				class = VGroupShared
			}
		}
		grp := &VarGroup{}
		for {
			v := ps.parseDeclarator(ts, mods, class)
			grp.Vars = append(grp.Vars, v)
			u.Globals = append(u.Globals, v)
			if !ps.accept(",") {
				break
			}
		}
		ps.expect(";")
		u.Decls_ = append(u.Decls_, grp)
	}
	u.Diagnostics = ps.diags
	return u
}

func (ps *parser) parseFunctionRest(ret *TypeSpec, mods []string, attrs []Attr) *FuncDecl {
	nm := ps.expectIdent()
	fn := &FuncDecl{Pos: nm.pos, Name: nm.text, Ret: ret, RetMods: mods, Attrs: attrs}
	ps.expect("(")
	if ps.isIdent("void") && ps.isPunctN(1, ")") {
		ps.p++
	}
	for !ps.isPunct(")") {
		pmods := ps.parseModifiers()
		ts := ps.parseTypeSpec()
		ps.parseArrayPre(ts)
		v := ps.parseDeclarator(ts, pmods, VParam)
		v.In = true
		for _, m := range pmods {
			switch m {
			case "out":
				v.In, v.Out = false, true
			case "inout":
				v.In, v.Out = true, true
			}
		}
		if v.hasMod("in") && v.hasMod("out") {
			v.In, v.Out = true, true
		}
		if v.Init != nil {
			ps.fail(v.Pos, "default parameter values are not supported")
		}
		fn.Params = append(fn.Params, v)
		if !ps.accept(",") {
			break
		}
	}
	ps.expect(")")
	if ps.accept(":") {
		t := ps.peek()
		if t.kind != tkIdent {
			ps.fail(t.pos, "expected return semantic, found %s", t)
		}
		ps.p++
		fn.RetSemantic = t.text
	}
	if ps.accept(";") {
		return fn
	}
	fn.Body = ps.parseBlock()
	return fn
}

// ---- statements ----

func (ps *parser) parseBlock() *BlockStmt {
	t := ps.expect("{")
	b := &BlockStmt{Pos: t.pos}
	for !ps.isPunct("}") {
		if ps.peek().kind == tkEOF {
			ps.fail(t.pos, "unterminated block")
		}
		b.Stmts = append(b.Stmts, ps.parseStmt())
	}
	ps.expect("}")
	return b
}

func (ps *parser) parseStmt() Stmt {
	ps.enter()
	defer ps.leave()
	t := ps.peek()
	if t.kind == tkPunct {
		switch t.text {
		case "{":
			return ps.parseBlock()
		case ";":
			ps.p++
			return &EmptyStmt{Pos: t.pos}
		case "[":
			// statement attribute ([loop], [unroll(n)], [branch], [flatten], ...)
			ps.parseAttrs()
			return ps.parseStmt()
		}
	}
	if t.kind == tkIdent {
		switch t.text {
		case "if":
			ps.p++
			ps.expect("(")
			c := ps.parseExpr()
			ps.expect(")")
			s := &IfStmt{Pos: t.pos, Cond: c}
			s.Then = ps.parseStmt()
			if ps.isIdent("else") {
				ps.p++
				s.Else = ps.parseStmt()
			}
			return s
		case "switch":
			return ps.parseSwitch()
		case "for":
			ps.p++
			ps.expect("(")
			s := &ForStmt{Pos: t.pos}
			if !ps.isPunct(";") {
				if ps.startsDecl() {
					s.Init = ps.parseDeclStmt()
				} else {
					e := ps.parseExpr()
					ps.expect(";")
					s.Init = &ExprStmt{Pos: e.exprPos(), X: e}
				}
			} else {
				ps.p++
			}
			if !ps.isPunct(";") {
				s.Cond = ps.parseExpr()
			}
			ps.expect(";")
			if !ps.isPunct(")") {
				s.Post = ps.parseExpr()
			}
			ps.expect(")")
			s.Body = ps.parseStmt()
			return s
		case "while":
			ps.p++
			ps.expect("(")
			c := ps.parseExpr()
			ps.expect(")")
			return &WhileStmt{Pos: t.pos, Cond: c, Body: ps.parseStmt()}
		case "do":
			ps.p++
			body := ps.parseStmt()
			if !ps.isIdent("while") {
				ps.fail(ps.peek().pos, "expected 'while' after do body, found %s", ps.peek())
			}
			ps.p++
			ps.expect("(")
			c := ps.parseExpr()
			ps.expect(")")
			ps.expect(";")
			return &DoWhileStmt{Pos: t.pos, Body: body, Cond: c}
		case "break":
			ps.p++
			ps.expect(";")
			return &BreakStmt{Pos: t.pos}
		case "continue":
			ps.p++
			ps.expect(";")
			return &ContinueStmt{Pos: t.pos}
		case "discard":
			ps.p++
			ps.expect(";")
			return &DiscardStmt{Pos: t.pos}
		case "return":
			ps.p++
			s := &ReturnStmt{Pos: t.pos}
			if !ps.isPunct(";") {
				s.X = ps.parseExpr()
			}
			ps.expect(";")
			return s
		case "case", "default":
			ps.fail(t.pos, "'%s' label outside a switch body", t.text)
		case "struct", "typedef":
			ps.fail(t.pos, "local %s declarations are not supported", t.text)
		}
		if ps.startsDecl() {
			return ps.parseDeclStmt()
		}
	}
	e := ps.parseExpr()
	ps.expect(";")
	return &ExprStmt{Pos: e.exprPos(), X: e}
}

func (ps *parser) parseDeclStmt() *DeclStmt {
	pos := ps.peek().pos
	mods := ps.parseModifiers()
	ts := ps.parseTypeSpec()
	if ts.Struct != nil {
		ps.fail(ts.Pos, "local struct declarations are not supported")
	}
	ps.parseArrayPre(ts)
	class := VLocal
	for _, m := range mods {
		switch m {
		case "static":
			class = VStaticLocal
		case "groupshared":
			ps.fail(pos, "groupshared local variable")
		}
	}
	ds := &DeclStmt{Pos: pos}
	for {
		v := ps.parseDeclarator(ts, mods, class)
		ds.Vars = append(ds.Vars, v)
		if !ps.accept(",") {
			break
		}
	}
	ps.expect(";")
	return ds
}

func (ps *parser) parseSwitch() Stmt {
	t := ps.next()
	ps.expect("(")
	tag := ps.parseExpr()
	ps.expect(")")
	ps.expect("{")
	sw := &SwitchStmt{Pos: t.pos, Tag: tag}
	var cur *SwitchSection
	for !ps.isPunct("}") {
		x := ps.peek()
		if x.kind == tkEOF {
			ps.fail(t.pos, "unterminated switch")
		}
		if x.kind == tkIdent && (x.text == "case" || x.text == "default") {
			if cur == nil || len(cur.Body) > 0 {
				cur = &SwitchSection{Pos: x.pos}
				sw.Sections = append(sw.Sections, cur)
			}
			ps.p++
			if x.text == "case" {
				cur.Labels = append(cur.Labels, ps.parseTernary())
			} else {
				cur.HasDefault = true
			}
			ps.expect(":")
			continue
		}
		if cur == nil {
			ps.fail(x.pos, "statement before the first case label in switch")
		}
		cur.Body = append(cur.Body, ps.parseStmt())
	}
	ps.expect("}")
	return sw
}

// ---- expressions ----

const (
	precLOr = iota + 1
	precLAnd
	precOr
	precXor
	precAnd
	precEq
	precRel
	precShift
	precAdd
	precMul
)

func binPrec(op string) int {
	switch op {
	case "||":
		return precLOr
	case "&&":
		return precLAnd
	case "|":
		return precOr
	case "^":
		return precXor
	case "&":
		return precAnd
	case "==", "!=":
		return precEq
	case "<", ">", "<=", ">=":
		return precRel
	case "<<", ">>":
		return precShift
	case "+", "-":
		return precAdd
	case "*", "/", "%":
		return precMul
	}
	return 0
}

func (ps *parser) parseExpr() Expr {
	e := ps.parseAssign()
	for ps.isPunct(",") {
		t := ps.next()
		r := ps.parseAssign()
		e = &CommaExpr{Pos: t.pos, L: e, R: r}
	}
	return e
}

var assignOps = map[string]bool{"=": true, "+=": true, "-=": true, "*=": true, "/=": true, "%=": true, "&=": true, "|=": true, "^=": true, "<<=": true, ">>=": true}

func (ps *parser) parseAssign() Expr {
	l := ps.parseTernary()
	t := ps.peek()
	if t.kind == tkPunct && assignOps[t.text] {
		ps.p++
		r := ps.parseAssign()
		return &AssignExpr{Pos: t.pos, Op: t.text, L: l, R: r}
	}
	return l
}

func (ps *parser) parseTernary() Expr {
	c := ps.parseBinary(precLOr)
	if ps.isPunct("?") {
		t := ps.next()
		a := ps.parseAssign()
		ps.expect(":")
		b := ps.parseAssign()
		return &TernaryExpr{Pos: t.pos, Cond: c, A: a, B: b}
	}
	return c
}

func (ps *parser) parseBinary(minPrec int) Expr {
	l := ps.parseUnary()
	for {
		t := ps.peek()
		if t.kind != tkPunct {
			return l
		}
		pr := binPrec(t.text)
		if pr == 0 || pr < minPrec {
			return l
		}
		ps.p++
		r := ps.parseBinary(pr + 1)
		l = &BinaryExpr{Pos: t.pos, Op: t.text, L: l, R: r}
	}
}

// isCastAhead reports whether the tokens at '(' form "(type[dims])".
func (ps *parser) isCastAhead() bool {
	i := 1
	t := ps.peekN(i)
	for t.kind == tkIdent && (t.text == "const" || t.text == "row_major" || t.text == "column_major") {
		i++
		t = ps.peekN(i)
	}
	if t.kind != tkIdent || !ps.isTypeName(t.text) {
		return false
	}
	i++
	// optional template args
	if ps.isPunctN(i, "<") && resourceTypeNames[t.text] {
		depth := 0
		for {
			x := ps.peekN(i)
			if x.kind == tkEOF {
				return false
			}
			if x.kind == tkPunct && x.text == "<" {
				depth++
			} else if x.kind == tkPunct && x.text == ">" {
				depth--
				if depth == 0 {
					i++
					break
				}
			}
			i++
		}
	}
	for ps.isPunctN(i, "[") {
		depth := 0
		for {
			x := ps.peekN(i)
			if x.kind == tkEOF {
				return false
			}
			if x.kind == tkPunct && x.text == "[" {
				depth++
			} else if x.kind == tkPunct && x.text == "]" {
				depth--
				if depth == 0 {
					i++
					break
				}
			}
			i++
		}
	}
	return ps.isPunctN(i, ")")
}

func (ps *parser) parseUnary() Expr {
	ps.enter()
	defer ps.leave()
	t := ps.peek()
	if t.kind == tkPunct {
		switch t.text {
		case "+", "-", "!", "~":
			ps.p++
			x := ps.parseUnary()
			return &UnaryExpr{Pos: t.pos, Op: t.text, X: x}
		case "++", "--":
			ps.p++
			x := ps.parseUnary()
			return &UnaryExpr{Pos: t.pos, Op: t.text, X: x}
		case "(":
			if ps.isCastAhead() {
				ps.p++
				for ps.isIdent("const") || ps.isIdent("row_major") || ps.isIdent("column_major") {
					ps.p++
				}
				ts := ps.parseTypeSpec()
				dims := ps.parseDims()
				ps.expect(")")
				x := ps.parseUnary()
				return &CastExpr{Pos: t.pos, Type: ts, Dims: dims, X: x}
			}
		}
	}
	return ps.parsePostfix(ps.parsePrimary())
}

func (ps *parser) parseArgs() []Expr {
	ps.expect("(")
	var args []Expr
	for !ps.isPunct(")") {
		args = append(args, ps.parseAssign())
		if !ps.accept(",") {
			break
		}
	}
	ps.expect(")")
	return args
}

func (ps *parser) parsePrimary() Expr {
	t := ps.peek()
	switch t.kind {
	case tkInt:
		ps.p++
		return &IntLit{Pos: t.pos, Val: t.ival, Suffix: t.suffix}
	case tkFloat:
		ps.p++
		return &FloatLit{Pos: t.pos, Val: t.fval, Suffix: t.suffix}
	case tkString:
		ps.p++
		return &StringLit{Pos: t.pos, Val: t.text}
	case tkPunct:
		if t.text == "(" {
			ps.p++
			x := ps.parseExpr()
			ps.expect(")")
			return &ParenExpr{Pos: t.pos, X: x}
		}
		if t.text == "{" {
			// initializer list in expression position (e.g. as a return value)
			return ps.parseInitializer()
		}
	case tkIdent:
		switch t.text {
		case "true", "false":
			ps.p++
			return &BoolLit{Pos: t.pos, Val: t.text == "true"}
		}
		if ps.isTypeName(t.text) && t.text != "void" {
			// constructor T(args)
			if ps.isPunctN(1, "(") || (ps.isPunctN(1, "<") && resourceTypeNames[t.text]) {
				ts := ps.parseTypeSpec()
				if !ps.isPunct("(") {
					ps.fail(t.pos, "type name '%s' in expression", t.text)
				}
				args := ps.parseArgs()
				return &CtorExpr{Pos: t.pos, Type: ts, Args: args}
			}
			ps.fail(t.pos, "type name '%s' used as an expression", t.text)
		}
		if reservedWords[t.text] {
			ps.fail(t.pos, "unexpected keyword '%s' in expression", t.text)
		}
		ps.p++
		id := &Ident{Pos: t.pos, Name: t.text}
		if ps.isPunct("(") {
			args := ps.parseArgs()
			return &CallExpr{Pos: t.pos, Fun: id, Args: args}
		}
		return id
	}
	ps.fail(t.pos, "unexpected %s in expression", t)
	return nil
}

func (ps *parser) parsePostfix(x Expr) Expr {
	for {
		t := ps.peek()
		if t.kind != tkPunct {
			return x
		}
		switch t.text {
		case "[":
			ps.p++
			i := ps.parseExpr()
			ps.expect("]")
			x = &IndexExpr{Pos: t.pos, X: x, I: i}
		case ".":
			ps.p++
			nm := ps.peek()
			if nm.kind != tkIdent {
				ps.fail(nm.pos, "expected member name after '.', found %s", nm)
			}
			ps.p++
			if ps.isPunct("(") {
				args := ps.parseArgs()
				x = &MethodExpr{Pos: nm.pos, Recv: x, Name: nm.text, Args: args}
				continue
			}
			if ps.isPunct("<") && ps.peekN(1).kind == tkIdent && ps.isTypeName(ps.peekN(1).text) && ps.isPunctN(2, ">") && ps.isPunctN(3, "(") {
				ps.p++
				ts := ps.parseTypeSpec()
				ps.expect(">")
				args := ps.parseArgs()
				x = &MethodExpr{Pos: nm.pos, Recv: x, Name: nm.text, Tmpl: []TmplArg{{Type: ts}}, Args: args}
				continue
			}
			x = &MemberExpr{Pos: t.pos, X: x, Name: nm.text, NamePos: nm.pos}
		case "++", "--":
			ps.p++
			x = &UnaryExpr{Pos: t.pos, Op: t.text, X: x, Postfix: true}
		default:
			return x
		}
	}
}

// parse runs the lexer and parser.
func parse(src string, lenient bool) (u *Unit, err error) {
	toks, err := lex(src)
	if err != nil {
		return nil, err
	}
	ps := &parser{toks: toks, typeNames: map[string]bool{}, lenient: lenient}
	defer func() {
		if r := recover(); r != nil {
			if b, ok := r.(bailout); ok {
				u, err = nil, b.err
				return
			}
			panic(r)
		}
	}()
	u = ps.parseUnit()
	u.Src = src
	return u, nil
}
