package hlslx

import (
	"fmt"
	"strconv"
	"strings"
)

// Pos is a 1-based source position.
type Pos struct{ Line, Col int }

func (p Pos) String() string { return fmt.Sprintf("%d:%d", p.Line, p.Col) }

type tokKind uint8

const (
	tkEOF tokKind = iota
	tkIdent
	tkInt
	tkFloat
	tkString
	tkPunct
)

type token struct {
	kind tokKind
	text string // identifier, punctuation or raw literal text
	pos  Pos
	// literals
	ival   uint64
	fval   float64
	suffix string // lower-cased literal suffix ("u", "l", "ul", "f", "h", ...)
}

func (t token) String() string {
	switch t.kind {
	case tkEOF:
		return "end of file"
	default:
		return "'" + t.text + "'"
	}
}

// parseError is a syntax (or static semantic) error with a position.
type parseError struct {
	pos Pos
	msg string
}

func (e *parseError) Error() string { return fmt.Sprintf("%s: %s", e.pos, e.msg) }

var puncts3 = []string{"<<=", ">>=", "..."}
var puncts2 = []string{"<<", ">>", "<=", ">=", "==", "!=", "&&", "||", "++", "--", "+=", "-=", "*=", "/=", "%=", "&=", "|=", "^=", "::", "->"}

func isIdentStart(c byte) bool {
	return c == '_' || (c >= 'a' && c <= 'z') || (c >= 'A' && c <= 'Z') || c >= 0x80
}
func isDigit(c byte) bool { return c >= '0' && c <= '9' }
func isIdentCont(c byte) bool {
	return isIdentStart(c) || isDigit(c)
}

// lex splits src into tokens.  Comments are dropped.  Preprocessor directives
// are rejected (naga does not emit any; silently ignoring one could change the
// meaning of the program).
func lex(src string) ([]token, error) {
	var toks []token
	line, col := 1, 1
	i := 0
	n := len(src)
	adv := func(k int) {
		for j := 0; j < k; j++ {
			if src[i] == '\n' {
				line++
				col = 1
			} else {
				col++
			}
			i++
		}
	}
	for i < n {
		c := src[i]
		if c == ' ' || c == '\t' || c == '\r' || c == '\n' || c == '\f' || c == '\v' {
			adv(1)
			continue
		}
		pos := Pos{line, col}
		if c == '/' && i+1 < n && src[i+1] == '/' {
			for i < n && src[i] != '\n' {
				adv(1)
			}
			continue
		}
		if c == '/' && i+1 < n && src[i+1] == '*' {
			adv(2)
			closed := false
			for i < n {
				if src[i] == '*' && i+1 < n && src[i+1] == '/' {
					adv(2)
					closed = true
					break
				}
				adv(1)
			}
			if !closed {
				return nil, &parseError{pos, "unterminated comment"}
			}
			continue
		}
		if c == '#' {
			return nil, &parseError{pos, "preprocessor directive not supported"}
		}
		if isIdentStart(c) {
			j := i
			for j < n && isIdentCont(src[j]) {
				j++
			}
			toks = append(toks, token{kind: tkIdent, text: src[i:j], pos: pos})
			adv(j - i)
			continue
		}
		if isDigit(c) || (c == '.' && i+1 < n && isDigit(src[i+1])) {
			t, l, err := lexNumber(src[i:], pos)
			if err != nil {
				return nil, err
			}
			toks = append(toks, t)
			adv(l)
			continue
		}
		if c == '"' {
			j := i + 1
			for j < n && src[j] != '"' && src[j] != '\n' {
				if src[j] == '\\' {
					j++
				}
				j++
			}
			if j >= n || src[j] != '"' {
				return nil, &parseError{pos, "unterminated string literal"}
			}
			toks = append(toks, token{kind: tkString, text: src[i+1 : j], pos: pos})
			adv(j + 1 - i)
			continue
		}
		matched := false
		for _, p := range puncts3 {
			if strings.HasPrefix(src[i:], p) {
				toks = append(toks, token{kind: tkPunct, text: p, pos: pos})
				adv(3)
				matched = true
				break
			}
		}
		if matched {
			continue
		}
		for _, p := range puncts2 {
			if strings.HasPrefix(src[i:], p) {
				toks = append(toks, token{kind: tkPunct, text: p, pos: pos})
				adv(2)
				matched = true
				break
			}
		}
		if matched {
			continue
		}
		if strings.IndexByte("+-*/%<>=!&|^~?:;,.()[]{}", c) >= 0 {
			toks = append(toks, token{kind: tkPunct, text: string(c), pos: pos})
			adv(1)
			continue
		}
		return nil, &parseError{pos, fmt.Sprintf("unexpected character %q", c)}
	}
	toks = append(toks, token{kind: tkEOF, pos: Pos{line, col}})
	return toks, nil
}

// lexNumber scans an integer or floating literal at the start of s.
func lexNumber(s string, pos Pos) (token, int, error) {
	n := len(s)
	i := 0
	isFloat := false
	if n >= 2 && s[0] == '0' && (s[1] == 'x' || s[1] == 'X') {
		i = 2
		for i < n && (isDigit(s[i]) || (s[i] >= 'a' && s[i] <= 'f') || (s[i] >= 'A' && s[i] <= 'F')) {
			i++
		}
		if i == 2 {
			return token{}, 0, &parseError{pos, "malformed hexadecimal literal"}
		}
		digits := s[2:i]
		j := i
		for j < n && isIdentCont(s[j]) {
			j++
		}
		suf := strings.ToLower(s[i:j])
		if suf != "" && suf != "u" && suf != "l" && suf != "ul" && suf != "lu" && suf != "ll" && suf != "ull" {
			return token{}, 0, &parseError{pos, fmt.Sprintf("bad integer literal suffix %q", s[i:j])}
		}
		v, err := strconv.ParseUint(digits, 16, 64)
		if err != nil {
			return token{}, 0, &parseError{pos, "integer literal too large"}
		}
		return token{kind: tkInt, text: s[:j], pos: pos, ival: v, suffix: suf}, j, nil
	}
	for i < n && isDigit(s[i]) {
		i++
	}
	if i < n && s[i] == '.' {
		// "1.xx" would be a swizzle on an integer literal; HLSL lexes "1." as a
		// float.  naga always parenthesises, so follow the C rule.
		isFloat = true
		i++
		for i < n && isDigit(s[i]) {
			i++
		}
	}
	if i < n && (s[i] == 'e' || s[i] == 'E') {
		j := i + 1
		if j < n && (s[j] == '+' || s[j] == '-') {
			j++
		}
		if j < n && isDigit(s[j]) {
			isFloat = true
			for j < n && isDigit(s[j]) {
				j++
			}
			i = j
		}
	}
	numEnd := i
	j := i
	for j < n && isIdentCont(s[j]) {
		j++
	}
	suf := strings.ToLower(s[numEnd:j])
	if isFloat || suf == "f" || suf == "h" {
		switch suf {
		case "", "f", "h", "l":
		default:
			return token{}, 0, &parseError{pos, fmt.Sprintf("bad float literal suffix %q", s[numEnd:j])}
		}
		v, err := strconv.ParseFloat(s[:numEnd], 64)
		if err != nil {
			// out-of-range literals parse to +-Inf with an error; keep Inf
			if ne, ok := err.(*strconv.NumError); !ok || ne.Err != strconv.ErrRange {
				return token{}, 0, &parseError{pos, "malformed float literal"}
			}
		}
		return token{kind: tkFloat, text: s[:j], pos: pos, fval: v, suffix: suf}, j, nil
	}
	switch suf {
	case "", "u", "l", "ul", "lu", "ll", "ull":
	default:
		return token{}, 0, &parseError{pos, fmt.Sprintf("bad integer literal suffix %q", s[numEnd:j])}
	}
	digits := s[:numEnd]
	base := 10
	if len(digits) > 1 && digits[0] == '0' {
		base = 8
	}
	v, err := strconv.ParseUint(digits, base, 64)
	if err != nil {
		return token{}, 0, &parseError{pos, "malformed or too large integer literal"}
	}
	return token{kind: tkInt, text: s[:j], pos: pos, ival: v, suffix: suf}, j, nil
}
