package hlslx

import (
	"fmt"
	"math"
)

func kindRank(k ScalarKind) int {
	switch k {
	case KFloat:
		return 3
	case KUint:
		return 2
	case KInt:
		return 1
	}
	return 0
}

// arithKind applies the usual arithmetic conversions to two component kinds
// (float > uint > int; bool promotes to int).  A literal operand adopts the
// kind of the other operand.
func arithKind(a, b *Type) (ScalarKind, bool) {
	switch {
	case a.Lit && b.Lit:
		if a.Scalar == KFloat || b.Scalar == KFloat {
			return KFloat, true
		}
		return KInt, true
	case a.Lit:
		if a.Scalar == KFloat {
			return KFloat, false
		}
		if b.Scalar == KBool {
			return KInt, false
		}
		return b.Scalar, false
	case b.Lit:
		if b.Scalar == KFloat {
			return KFloat, false
		}
		if a.Scalar == KBool {
			return KInt, false
		}
		return a.Scalar, false
	}
	k := a.Scalar
	if kindRank(b.Scalar) > kindRank(k) {
		k = b.Scalar
	}
	if k == KBool {
		k = KInt
	}
	return k, false
}

// commonShape returns a type (component kind k) with the shape two numeric
// operands are brought to.
func commonShape(a, b *Type, k ScalarKind) (*Type, error) {
	switch {
	case a.Kind == TScalar && b.Kind == TScalar:
		return scalarT(k), nil
	case a.Kind == TScalar:
		return b.withScalar(k), nil
	case b.Kind == TScalar:
		return a.withScalar(k), nil
	case a.Kind == TVector && b.Kind == TVector:
		switch {
		case a.N == b.N:
			return vecT(k, a.N), nil
		case a.N == 1:
			return vecT(k, b.N), nil
		case b.N == 1:
			return vecT(k, a.N), nil
		case a.N < b.N:
			return vecT(k, a.N), nil // implicit truncation
		default:
			return vecT(k, b.N), nil
		}
	case a.Kind == TMatrix && b.Kind == TMatrix:
		if a.R == b.R && a.C == b.C {
			return matT(k, a.R, a.C), nil
		}
		if a.R <= b.R && a.C <= b.C {
			return matT(k, a.R, a.C), nil
		}
		if b.R <= a.R && b.C <= a.C {
			return matT(k, b.R, b.C), nil
		}
	case a.Kind == TVector && b.Kind == TMatrix:
		if a.N == b.flat {
			return b.withScalar(k), nil
		}
	case a.Kind == TMatrix && b.Kind == TVector:
		if b.N == a.flat {
			return a.withScalar(k), nil
		}
	}
	return nil, typeErrf("operands %s and %s have incompatible shapes", a, b)
}

func isCompare(op string) bool {
	switch op {
	case "==", "!=", "<", ">", "<=", ">=":
		return true
	}
	return false
}

// binaryResultType computes the type of "a op b" and the type both operands
// are converted to before the operation (for shifts: the left operand's
// converted type; the right operand is brought to the same shape as an
// integer).
func binaryResultType(op string, a, b *Type) (res, opnd *Type, err error) {
	if !a.isNumeric() || !b.isNumeric() {
		return nil, nil, typeErrf("operator %s on %s and %s", op, a, b)
	}
	switch op {
	case "+", "-", "*", "/", "%":
		k, lit := arithKind(a, b)
		t, err := commonShape(a, b, k)
		if err != nil {
			return nil, nil, err
		}
		if lit && t.Kind == TScalar {
			if k == KFloat {
				t = tLitFloat
			} else {
				t = tLitInt
			}
		}
		return t, t, nil
	case "==", "!=", "<", ">", "<=", ">=":
		var k ScalarKind
		if a.Scalar == KBool && b.Scalar == KBool {
			k = KBool
		} else {
			k, _ = arithKind(a, b)
		}
		t, err := commonShape(a, b, k)
		if err != nil {
			return nil, nil, err
		}
		return t.withScalar(KBool), t, nil
	case "&&", "||":
		t, err := commonShape(a, b, KBool)
		if err != nil {
			return nil, nil, err
		}
		return t, t, nil
	case "&", "|", "^":
		if a.Scalar == KFloat || b.Scalar == KFloat {
			return nil, nil, typeErrf("bitwise operator %s on floating-point operand (%s, %s)", op, a, b)
		}
		var k ScalarKind
		lit := false
		if a.Scalar == KBool && b.Scalar == KBool {
			k = KBool
		} else {
			k, lit = arithKind(a, b)
		}
		t, err := commonShape(a, b, k)
		if err != nil {
			return nil, nil, err
		}
		if lit && t.Kind == TScalar {
			t = tLitInt
		}
		return t, t, nil
	case "<<", ">>":
		if a.Scalar == KFloat || b.Scalar == KFloat {
			return nil, nil, typeErrf("shift operator %s on floating-point operand (%s, %s)", op, a, b)
		}
		k := a.Scalar
		if k == KBool {
			k = KInt
		}
		t, err := commonShape(a, b, k)
		if err != nil {
			return nil, nil, err
		}
		if a.Lit && b.Lit {
			t = tLitInt
		}
		return t, t, nil
	}
	return nil, nil, typeErrf("unknown binary operator %s", op)
}

// ---- overload resolution ----

func kindConvCost(from, to ScalarKind) int {
	if from == to {
		return 0
	}
	switch {
	case (from == KInt && to == KUint) || (from == KUint && to == KInt):
		return 2
	case (from == KInt || from == KUint) && to == KFloat:
		return 3
	case from == KFloat && (to == KInt || to == KUint):
		return 4
	}
	return 5
}

// convCost ranks the implicit conversion from an argument type to a parameter
// type (lower is better); ok=false when there is none.
func convCost(from, to *Type) (int, bool) {
	if from == nil || to == nil {
		return 0, false
	}
	if from.Kind == TResource || to.Kind == TResource {
		if from.Kind == TResource && to.Kind == TResource && from.Res == to.Res {
			return 0, true
		}
		return 0, false
	}
	if !from.isNumeric() || !to.isNumeric() {
		if sameType(from, to) {
			return 0, true
		}
		return 0, false
	}
	cost := 0
	if from.Lit {
		switch {
		case from.Scalar == KInt && to.Scalar == KInt:
		case from.Scalar == KInt && to.Scalar == KUint:
			cost = 1
		case from.Scalar == KInt && to.Scalar == KFloat:
			cost = 2
		case from.Scalar == KFloat && to.Scalar == KFloat:
		case from.Scalar == KFloat:
			cost = 4
		default:
			cost = 3
		}
	} else {
		cost = kindConvCost(from.Scalar, to.Scalar)
	}
	switch {
	case from.Kind == to.Kind && from.N == to.N && from.R == to.R && from.C == to.C:
	case from.Kind == TScalar:
		cost += 20
	case from.Kind == TVector && to.Kind == TVector && from.N == 1:
		cost += 20
	case from.Kind == TVector && to.Kind == TVector && from.N > to.N:
		cost += 30
	case from.Kind == TVector && to.Kind == TScalar:
		cost += 30
	case from.Kind == TVector && to.Kind == TMatrix && from.N == to.flat:
		cost += 25
	case from.Kind == TMatrix && to.Kind == TVector && from.flat == to.N:
		cost += 25
	case from.Kind == TMatrix && to.Kind == TMatrix && from.R >= to.R && from.C >= to.C:
		cost += 30
	case from.Kind == TMatrix && to.Kind == TScalar:
		cost += 30
	default:
		return 0, false
	}
	return cost, true
}

// pickOverload selects the best user function for the argument types.
func pickOverload(cands []*FuncDecl, args []*Type) (*FuncDecl, error) {
	var best *FuncDecl
	bestCost := math.MaxInt32
	tie := false
	for _, f := range cands {
		if len(f.Params) != len(args) {
			continue
		}
		total := 0
		ok := true
		for i, p := range f.Params {
			var c int
			var o bool
			if p.Out && !p.In {
				// out parameter: the conversion goes from the parameter to the argument
				c, o = convCost(p.typ, args[i].nonLit())
			} else {
				c, o = convCost(args[i], p.typ)
			}
			if !o {
				ok = false
				break
			}
			total += c
		}
		if !ok {
			continue
		}
		if total < bestCost {
			best, bestCost, tie = f, total, false
		} else if total == bestCost {
			tie = true
		}
	}
	if best == nil {
		name := "?"
		if len(cands) > 0 {
			name = cands[0].Name
		}
		return nil, typeErrf("no matching overload of '%s' for arguments (%s)", name, typeList(args))
	}
	if tie {
		return nil, typeErrf("ambiguous call to overloaded function '%s' with arguments (%s)", best.Name, typeList(args))
	}
	return best, nil
}

// ---- scalar operations ----

type trapError struct{ msg string }
type skipError struct{ msg string }

func trapf(format string, a ...interface{}) { panic(trapError{fmt.Sprintf(format, a...)}) }
func skipf(format string, a ...interface{}) { panic(skipError{fmt.Sprintf(format, a...)}) }

// fmod32 is the exact IEEE remainder with the sign of x (C fmod).
func fmod32(x, y float32) float32 {
	return float32(math.Mod(float64(x), float64(y)))
}

// binWord applies op to two defined words of kind k.  Comparison results are
// boolean words.
func binWord(op string, k ScalarKind, a, b word, pos Pos) word {
	switch k {
	case KFloat:
		x, y := f32(a), f32(b)
		switch op {
		case "+":
			return fw(float32(x + y))
		case "-":
			return fw(float32(x - y))
		case "*":
			return fw(float32(x * y))
		case "/":
			return fw(float32(x / y))
		case "%":
			return fw(fmod32(x, y))
		case "==":
			return boolWord(x == y)
		case "!=":
			return boolWord(x != y)
		case "<":
			return boolWord(x < y)
		case ">":
			return boolWord(x > y)
		case "<=":
			return boolWord(x <= y)
		case ">=":
			return boolWord(x >= y)
		}
	case KInt:
		x, y := int32(a.v), int32(b.v)
		switch op {
		case "+":
			return dw(uint32(x + y))
		case "-":
			return dw(uint32(x - y))
		case "*":
			return dw(uint32(x * y))
		case "/", "%":
			if y == 0 {
				trapf("%s: signed integer %s by zero (%d %s 0): idiv by zero has an undefined result", pos, divName(op), x, op)
			}
			if x == math.MinInt32 && y == -1 {
				trapf("%s: signed integer overflow in %d %s -1: undefined result", pos, x, op)
			}
			if op == "/" {
				return dw(uint32(x / y))
			}
			return dw(uint32(x % y))
		case "==":
			return boolWord(x == y)
		case "!=":
			return boolWord(x != y)
		case "<":
			return boolWord(x < y)
		case ">":
			return boolWord(x > y)
		case "<=":
			return boolWord(x <= y)
		case ">=":
			return boolWord(x >= y)
		case "&":
			return dw(a.v & b.v)
		case "|":
			return dw(a.v | b.v)
		case "^":
			return dw(a.v ^ b.v)
		case "<<":
			return dw(a.v << (b.v & 31))
		case ">>":
			return dw(uint32(x >> (b.v & 31)))
		}
	case KUint, KBool:
		x, y := a.v, b.v
		switch op {
		case "+":
			return dw(x + y)
		case "-":
			return dw(x - y)
		case "*":
			return dw(x * y)
		case "/":
			if y == 0 {
				return dw(0xFFFFFFFF) // D3D udiv
			}
			return dw(x / y)
		case "%":
			if y == 0 {
				return dw(0xFFFFFFFF) // D3D udiv remainder
			}
			return dw(x % y)
		case "==":
			return boolWord(x == y)
		case "!=":
			return boolWord(x != y)
		case "<":
			return boolWord(x < y)
		case ">":
			return boolWord(x > y)
		case "<=":
			return boolWord(x <= y)
		case ">=":
			return boolWord(x >= y)
		case "&":
			return dw(x & y)
		case "|":
			return dw(x | y)
		case "^":
			return dw(x ^ y)
		case "<<":
			return dw(x << (y & 31))
		case ">>":
			return dw(x >> (y & 31))
		case "&&":
			return boolWord(x != 0 && y != 0)
		case "||":
			return boolWord(x != 0 || y != 0)
		}
	}
	skipf("%s: operator %s on %s not supported", pos, op, k)
	return word{}
}

func divName(op string) string {
	if op == "/" {
		return "division"
	}
	return "remainder"
}
