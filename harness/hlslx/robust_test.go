package hlslx

import (
	"math/rand"
	"os"
	"path/filepath"
	"strings"
	"testing"

	"verif/harness/xrt"
)

// Hostile input: mutated naga output must never panic, hang or produce an
// "internal" skip.
func TestRobustnessMutatedInput(t *testing.T) {
	files, _ := filepath.Glob("/repo/snapshot/testdata/golden/hlsl/*.hlsl")
	if len(files) == 0 {
		t.Skip("no goldens")
	}
	rng := rand.New(rand.NewSource(12345))
	pick := []string{"access.hlsl", "globals.hlsl", "operators.hlsl", "atomicOps.hlsl", "bits.hlsl", "control-flow.hlsl", "collatz.hlsl", "math-functions.hlsl", "hlsl_mat_cx2.hlsl", "padding.hlsl", "boids.hlsl", "interface.hlsl"}
	junk := []string{"(", ")", "{", "}", "[", "]", ";", ",", ".", "0", "1u", "4294967295u", "-", "/", "%", "<<", "float4x4", "int", "(float3)", "[0]", "[7]", ".x", ".wzyx", "inout", "static", "return", "break;", "continue;", "while(true)", "1.0e39", "0x", "/*", "\"", "?", ":", "= 0", "/ 0", "% 0", "asuint(", "o.Load(3)", "[-1]"}
	n := 0
	for _, name := range pick {
		b, err := os.ReadFile("/repo/snapshot/testdata/golden/hlsl/" + name)
		if err != nil {
			continue
		}
		orig := string(b)
		for k := 0; k < 120; k++ {
			src := orig
			for m := 0; m <= rng.Intn(3); m++ {
				pos := rng.Intn(len(src) + 1)
				switch rng.Intn(4) {
				case 0: // truncate
					src = src[:pos]
				case 1: // delete a span
					end := pos + rng.Intn(12)
					if end > len(src) {
						end = len(src)
					}
					src = src[:pos] + src[end:]
				case 2: // insert junk
					src = src[:pos] + junk[rng.Intn(len(junk))] + src[pos:]
				case 3: // replace a digit
					if i := strings.IndexAny(src[pos:], "0123456789"); i >= 0 {
						src = src[:pos+i] + string(rune('0'+rng.Intn(10))) + src[pos+i+1:]
					}
				}
				if len(src) == 0 {
					break
				}
			}
			n++
			func() {
				defer func() {
					if r := recover(); r != nil {
						t.Fatalf("panic on mutated %s: %v\n%s", name, r, src)
					}
				}()
				u, err := ParseWith(src, lenient)
				if err != nil {
					if strings.Contains(err.Error(), "internal") {
						t.Errorf("internal parse error on mutated %s: %v", name, err)
					}
					return
				}
				u.Decls()
				u.Refs()
				u.Resources()
				for _, ep := range u.EntryPoints() {
					out := u.Run(xrt.Input{Entry: ep, Buffers: zeroBuffers(u, 4096), MaxSteps: 20000, TraceAccesses: true})
					if strings.HasPrefix(out.Skip, "internal") {
						t.Errorf("internal error on mutated %s:%s: %s", name, ep, out.Skip)
					}
				}
			}()
		}
	}
	t.Logf("%d mutants", n)
}

func TestRobustnessDeepNesting(t *testing.T) {
	deep := strings.Repeat("(", 100000) + "1" + strings.Repeat(")", 100000)
	if _, err := Parse("void f() { int a = " + deep + "; }"); err == nil || !strings.Contains(err.Error(), "nesting") {
		t.Errorf("deep parentheses: %v", err)
	}
	if _, err := Parse("void f() " + strings.Repeat("{", 100000)); err == nil {
		t.Errorf("deep blocks accepted")
	}
	if _, err := Parse("void f() { int a = " + strings.Repeat("-", 100000) + "1; }"); err == nil {
		t.Errorf("deep unary accepted")
	}
	u, err := Parse("struct S { float a[4000000]; float b[4000000]; float c[4000000]; }; void f() { float x[16777216][16777216]; }")
	if err != nil || len(u.StaticErrors()) == 0 {
		t.Errorf("huge types: %v %v", err, u)
	}
}
