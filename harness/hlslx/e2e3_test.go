package hlslx

import (
	"testing"

	"github.com/gogpu/naga/hlsl"

	"verif/harness/xrt"
)

func TestE2E_Geometric(t *testing.T) {
	runE2E(t, e2eCase{
		name: "geom",
		wgsl: `
struct O { d: f32, di: i32, len: f32, dist: f32, c1: vec3<f32>, c2: vec3<f32>, n: vec2<f32>, d4: f32 }
@group(0) @binding(0) var<storage, read_write> o: O;
@group(0) @binding(1) var<storage, read> v: array<vec4<f32>, 4>;
@compute @workgroup_size(1)
fn main() {
  // v[0] = (1,2,3,4) v[1] = (4,5,6,7) v[2] = (1,0,0,0) v[3] = (0,1,0,0)
  o.d = dot(v[0].xyz, v[1].xyz);             // 4 + 10 + 18 = 32
  o.di = dot(vec2<i32>(2, -3) * i32(v[0].x), vec2<i32>(4, 5));  // 8 - 15 = -7
  o.len = length(v[0].zw);                   // sqrt(9 + 16) = 5
  o.dist = distance(v[0].xx, v[1].xy);       // |(1,1) - (4,5)| = |(-3,-4)| = 5
  o.c1 = cross(v[2].xyz, v[3].xyz);          // x cross y = z = (0,0,1)
  o.c2 = cross(v[0].xyz, v[1].xyz);          // (2*6-3*5, 3*4-1*6, 1*5-2*4) = (-3, 6, -3)
  o.n = normalize(v[0].zw);                  // (3,4)/5 = (0.6, 0.8)
  o.d4 = dot(v[0], v[1]);                    // 32 + 28 = 60
}`,
		// O: d@0 di@4 len@8 dist@12 c1@16 c2@32 n@48 (c2 ends 44 -> align 8 = 48) d4@56 ; size 64
		bufs: map[string][]byte{"u0.0": fill(64, 0xCD), "t1.0": f32s(1, 2, 3, 4, 4, 5, 6, 7, 1, 0, 0, 0, 0, 1, 0, 0)},
		want: map[string][]byte{"u0.0": cat(f32s(32), i32s(-7), f32s(5, 5), f32s(0, 0, 1), u32s(0xCDCDCDCD), f32s(-3, 6, -3), u32s(0xCDCDCDCD), f32s(0.6, 0.8), f32s(60))},
	})
}

func TestE2E_SwizzlesConstructorsSplats(t *testing.T) {
	runE2E(t, e2eCase{
		name: "swz",
		wgsl: `
@group(0) @binding(0) var<storage, read_write> o: array<vec4<f32>, 8>;
@group(0) @binding(1) var<storage, read> i: vec4<f32>;
@compute @workgroup_size(1)
fn main() {
  let v = i;                                  // (1,2,3,4)
  o[0] = v.wzyx;                              // (4,3,2,1)
  o[1] = vec4<f32>(v.xy, v.xx);               // (1,2,1,1)
  o[2] = vec4<f32>(5.0) + vec4<f32>(v.x);     // (6,6,6,6)
  o[3] = vec4<f32>(vec2<f32>(v.z), v.w, 0.0); // (3,3,4,0)
  o[4] = vec4<f32>();                         // zero
  var t = v;
  t.y = 9.0;
  t.z = t.y - 2.0;
  o[5] = t;                                   // (1,9,7,4)
  o[6] = vec4<f32>(vec4<i32>(-1, 2, -3, 4) * i32(v.y));  // (-2,4,-6,8)
  o[7] = vec4<f32>(v.x, vec3<f32>(v.yz, 1.0)).xzwy;      // (1,2,3,1).xzwy = (1,3,1,2)
}`,
		bufs: map[string][]byte{"u0.0": fill(128, 0xCD), "t1.0": f32s(1, 2, 3, 4)},
		want: map[string][]byte{"u0.0": f32s(4, 3, 2, 1, 1, 2, 1, 1, 6, 6, 6, 6, 3, 3, 4, 0, 0, 0, 0, 0, 1, 9, 7, 4, -2, 4, -6, 8, 1, 3, 1, 2)},
	})
}

func TestE2E_DynamicIndexing(t *testing.T) {
	runE2E(t, e2eCase{
		name: "dynidx",
		wgsl: `
@group(0) @binding(0) var<storage, read_write> o: array<f32, 24>;
@group(0) @binding(1) var<storage, read> idx: array<u32, 2>;
@compute @workgroup_size(1)
fn main() {
  let i = idx[0];   // 2
  let j = idx[1];   // 1
  var a = array<i32, 4>(10, 20, 30, 40);
  a[i] = a[j] + 1;                         // a = [10,20,21,40]
  var v = vec4<f32>(1.0, 2.0, 3.0, 4.0);
  v[i] = 9.0;                              // (1,2,9,4)
  let e = v[j];                            // 2
  var m = mat3x3<f32>(vec3<f32>(1.0, 2.0, 3.0), vec3<f32>(4.0, 5.0, 6.0), vec3<f32>(7.0, 8.0, 9.0));
  m[i][j] = 80.0;                          // column 2 = (7,80,9)
  let c = m[j];                            // (4,5,6)
  m[j] = vec3<f32>(0.0);
  let x = m[i][j];                         // 80
  var n = array<array<u32, 2>, 3>(array<u32, 2>(1u, 2u), array<u32, 2>(3u, 4u), array<u32, 2>(5u, 6u));
  n[i][j] = n[j][j - 1u] + 50u;            // n[2][1] = n[1][0] + 50 = 53
  o[0] = f32(a[0]); o[1] = f32(a[1]); o[2] = f32(a[2]); o[3] = f32(a[3]);
  o[4] = v.x; o[5] = v.y; o[6] = v.z; o[7] = v.w;
  o[8] = e;
  o[9] = c.x; o[10] = c.y; o[11] = c.z;
  o[12] = x;
  o[13] = m[1].y;                          // 0
  o[14] = m[2].x; o[15] = m[2].y; o[16] = m[2].z;   // (7,80,9)
  o[17] = f32(n[2][1]);                    // 53
  o[18] = f32(n[i][0] + n[0][j]);          // 5 + 2 = 7
  o[19] = m[0][i];                         // 3
}`,
		bufs: map[string][]byte{"u0.0": fill(96, 0xCD), "t1.0": u32s(2, 1)},
		want: map[string][]byte{"u0.0": f32s(10, 20, 21, 40, 1, 2, 9, 4, 2, 4, 5, 6, 80, 0, 7, 80, 9, 53, 7, 3)},
	})
}

func TestE2E_CompoundAssignment(t *testing.T) {
	runE2E(t, e2eCase{
		name: "compound",
		wgsl: `
struct O { u: u32, k: i32, v: vec2<f32>, w: vec3<i32> }
@group(0) @binding(0) var<storage, read_write> o: O;
@compute @workgroup_size(1)
fn main() {
  // o.u starts at 5
  o.u += 3u;   // 8
  o.u *= 2u;   // 16
  o.u -= 1u;   // 15
  o.u /= 4u;   // 3
  o.u %= 2u;   // 1
  o.u |= 6u;   // 7
  o.u &= 5u;   // 5
  o.u ^= 1u;   // 4
  o.u <<= 2u;  // 16
  o.u >>= 1u;  // 8
  o.u++;       // 9
  o.u--;
  o.u--;       // 7
  var k = -8;
  k >>= 1u;    // -4 (arithmetic shift)
  k /= 3;      // -1
  k -= 6;      // -7
  k %= 4;      // -3
  k *= -5;     // 15
  k++;         // 16
  o.k = k;
  var v = vec2<f32>(1.0, 2.0);
  v *= 2.0;                    // (2,4)
  v += vec2<f32>(1.0, 1.0);    // (3,5)
  v.x -= 0.5;                  // (2.5,5)
  v /= vec2<f32>(0.5, 2.0);    // (5,2.5)
  o.v = v;
  o.w += vec3<i32>(1, 2, 3);   // (10,20,30) -> (11,22,33)
  o.w.y -= 2;                  // (11,20,33)
  o.w *= 2;                    // (22,40,66)
}`,
		// O: u@0 k@4 v@8 w@16 ; size 32
		bufs: map[string][]byte{"u0.0": cat(u32s(5), i32s(0), f32s(0, 0), i32s(10, 20, 30), u32s(0xCDCDCDCD))},
		want: map[string][]byte{"u0.0": cat(u32s(7), i32s(16), f32s(5, 2.5), i32s(22, 40, 66), u32s(0xCDCDCDCD))},
	})
}

func TestE2E_StructAndArrayCopies(t *testing.T) {
	// P: a@0 (8) b@8 (3 x 4) c@20 ; size 24 align 8.  dst: array<P,2>, stride 24.
	src := cat(f32s(1.5, -2), u32s(7, 8, 9), i32s(41))
	runE2E(t, e2eCase{
		name: "copies",
		wgsl: `
struct P { a: vec2<f32>, b: array<u32, 3>, c: i32 }
@group(0) @binding(0) var<storage, read_write> dst: array<P, 2>;
@group(0) @binding(1) var<storage, read> src: P;
fn twice(p: P) -> P { var q = p; q.c = q.c * 2; q.b[0] = q.b[2]; return q; }
@compute @workgroup_size(1)
fn main() {
  var tmp = src;
  tmp.c += 1;          // 42
  dst[1] = tmp;
  dst[0].b = tmp.b;
  let t2 = twice(tmp); // c = 84, b = [9,8,9]
  dst[0].c = t2.c;
  dst[0].a = t2.a.yx;  // (-2, 1.5)
  dst[1].b[1] = t2.b[0] + dst[1].b[1]; // 9 + 8 = 17
}`,
		bufs: map[string][]byte{"u0.0": fill(48, 0xCD), "t1.0": src},
		want: map[string][]byte{"u0.0": cat(f32s(-2, 1.5), u32s(7, 8, 9), i32s(84), f32s(1.5, -2), u32s(7, 17, 9), i32s(42))},
	})
}

func TestE2E_FunctionMemoryMatrices(t *testing.T) {
	runE2E(t, e2eCase{
		name: "fnmat",
		wgsl: `
struct O { p: vec3<f32>, q: mat2x2<f32>, r: vec2<f32>, s: mat2x3<f32> }
@group(0) @binding(0) var<storage, read_write> o: O;
@group(0) @binding(1) var<storage, read> k: vec2<f32>;
@compute @workgroup_size(1)
fn main() {
  // k = (1.0, 0.5)
  var m = mat2x3<f32>(vec3<f32>(1.0, 2.0, 3.0), vec3<f32>(4.0, 5.0, 6.0));
  m[0] = m[1] * 2.0;            // (8,10,12)
  m[1].y = 50.0;                // (4,50,6)
  o.p = m * k;                  // (8,10,12) + 0.5*(4,50,6) = (10,35,15)
  var q = mat2x2<f32>(1.0, 2.0, 3.0, 4.0);   // columns (1,2),(3,4)
  q = q * q;                    // col0 = 1*(1,2)+2*(3,4) = (7,10); col1 = 3*(1,2)+4*(3,4) = (15,22)
  o.q = q;
  var r = mat4x2<f32>();
  r[3] = vec2<f32>(1.0, 2.0);
  r[2][1] = 5.0;
  o.r = r[3] + r[2] + r[0];     // (1,2)+(0,5)+(0,0) = (1,7)
  o.s = m - mat2x3<f32>(vec3<f32>(k.x), vec3<f32>(k.y));   // (7,9,11),(3.5,49.5,5.5)
}`,
		// O: p@0 q@16 (size 16) r@32 s@48 (align 16; size 32) ; size 80
		bufs: map[string][]byte{"u0.0": fill(80, 0xCD), "t1.0": f32s(1, 0.5)},
		want: map[string][]byte{"u0.0": cat(f32s(10, 35, 15), u32s(0xCDCDCDCD), f32s(7, 10, 15, 22), f32s(1, 7), u32s(0xCDCDCDCD, 0xCDCDCDCD), f32s(7, 9, 11), u32s(0xCDCDCDCD), f32s(3.5, 49.5, 5.5))},
	})
}

func TestE2E_MixedScalarVectorIntegerOps(t *testing.T) {
	runE2E(t, e2eCase{
		name: "mixed",
		wgsl: `
struct O { a: vec3<i32>, b: vec3<u32>, c: vec2<i32>, d: vec2<u32>, e: vec4<i32> }
@group(0) @binding(0) var<storage, read_write> o: O;
@group(0) @binding(1) var<storage, read> i: vec4<i32>;
@compute @workgroup_size(1)
fn main() {
  // i = (-7, 2, INT_MIN, -1)
  o.a = i.xyz / 2 + 10 * i.yyy;              // (-3,1,INT_MIN/2) + 20 = (17, 21, -1073741824+20)
  o.b = vec3<u32>(i.xyw) >> vec3<u32>(28u, 1u, 31u);  // (0xfffffff9>>28, 1, 1) = (15, 1, 1)
  o.c = i.xz % vec2<i32>(3, -1);             // (-7 % 3, INT_MIN % -1) = (-1, 0)
  o.d = vec2<u32>(7u, 9u) / vec2<u32>(u32(i.y), 0u);  // (3, 9)   [x/0 = x]
  o.e = -i + abs(i) - (i << vec4<u32>(1u));  // x=-7: 7+7+14 = 28 ; y=2: -2+2-4 = -4 ; z=INT_MIN: INT_MIN+INT_MIN-0 = 0 ; w=-1: 1+1+2 = 4
}`,
		// O: a@0 b@16 c@32 d@40 e@48 ; size 64
		bufs: map[string][]byte{"u0.0": fill(64, 0xCD), "t1.0": i32s(-7, 2, intMin, -1)},
		want: map[string][]byte{"u0.0": cat(i32s(17, 21, -1073741804), u32s(0xCDCDCDCD), u32s(15, 1, 1), u32s(0xCDCDCDCD), i32s(-1, 0), u32s(3, 9), i32s(28, -4, 0, 4))},
	})
}

func TestE2E_UniformAlignSizeAttributes(t *testing.T) {
	// In: x@0 y@4 (size 12 -> next 16) z(vec2)@16 ; size 24 -> align 8 = 24; as a uniform struct member it needs align 16: use @align(16)
	// U:  p(f32)@0, q(@align(16) In)@16 (size 32 with align 16), v3(vec3)@48, w(f32)@60, t(@size(32) vec2)@64, last(u32)@96 ; size 112
	ub := fill(112, 0)
	put(ub, 0, f32s(0.5))
	put(ub, 16, u32s(3, 4))
	put(ub, 32, f32s(7, 8))
	put(ub, 48, f32s(1, 2, 3, 4))
	put(ub, 64, f32s(10, 20))
	put(ub, 96, u32s(99))
	runE2E(t, e2eCase{
		name: "unialign",
		wgsl: `
struct In { x: u32, @size(12) y: u32, z: vec2<f32> }
struct U { p: f32, @align(16) q: In, v3: vec3<f32>, w: f32, @size(32) t: vec2<f32>, last: u32 }
@group(0) @binding(0) var<storage, read_write> o: array<f32, 12>;
@group(0) @binding(1) var<uniform> u: U;
@compute @workgroup_size(1)
fn main() {
  o[0] = u.p;                 // 0.5
  o[1] = f32(u.q.x + u.q.y);  // 7
  o[2] = u.q.z.x + u.q.z.y;   // 15
  o[3] = u.v3.z;              // 3
  o[4] = u.w;                 // 4
  o[5] = u.t.y;               // 20
  o[6] = f32(u.last);         // 99
  let q = u.q;
  o[7] = q.z.y - f32(q.y);    // 8 - 4 = 4
}`,
		bufs: map[string][]byte{"u0.0": fill(48, 0xCD), "b1.0": ub},
		want: map[string][]byte{"u0.0": f32s(0.5, 7, 15, 3, 4, 20, 99, 4)},
	})
}

// num_workgroups reaches HLSL through naga's special-constants buffer; only
// the SpecialConstantsBinding option produces it.
func TestE2E_NumWorkgroupsSpecialConstants(t *testing.T) {
	o := hlsl.DefaultOptions()
	o.SpecialConstantsBinding = &hlsl.BindTarget{Space: 7, Register: 3}
	src := compileWGSL(t, `
@group(0) @binding(0) var<storage, read_write> o: array<u32, 4>;
@compute @workgroup_size(1)
fn main(@builtin(num_workgroups) nwg: vec3<u32>, @builtin(workgroup_id) wid: vec3<u32>) {
  o[0] = nwg.x; o[1] = nwg.y; o[2] = nwg.z; o[3] = wid.y;
}`, o)
	u, err := Parse(src)
	if err != nil {
		t.Fatal(err)
	}
	found := false
	for _, r := range u.Resources() {
		if r.Kind == "ConstantBuffer" && r.Slot == "b3.7" {
			found = true
			if len(r.Members) != 3 || r.Members[2].Offset != 8 || r.Size != 16 {
				t.Errorf("NagaConstants layout: %+v", r)
			}
		}
	}
	if !found {
		t.Fatalf("special constants buffer not found in\n%s", src)
	}
	// synthesised from Input.NumWorkgroups when no buffer is bound
	in := xrt.Input{Entry: "main", Buffers: map[string][]byte{"u0.0": fill(16, 0xCD)}, NumWorkgroups: [3]uint32{8, 9, 10}, WorkgroupID: [3]uint32{1, 2, 3}}
	runOK(t, src, in)
	wantU32s(t, "o", in.Buffers["u0.0"], 8, 9, 10, 2)
	// or taken from an explicitly bound buffer
	in = xrt.Input{Entry: "main", Buffers: map[string][]byte{"u0.0": fill(16, 0xCD), "b3.7": u32s(4, 5, 6)}, NumWorkgroups: [3]uint32{8, 9, 10}, WorkgroupID: [3]uint32{1, 2, 3}}
	runOK(t, src, in)
	wantU32s(t, "o", in.Buffers["u0.0"], 4, 5, 6, 2)
}

func TestE2E_RuntimeArrayOfStructsConstsWorkgroupPointers(t *testing.T) {
	// Buf: count@0 items@16 ; Item: pos@0 id@12 m@16 (mat2x2, 16 bytes) ; size 32.  80 bytes -> 2 items
	item1 := cat(f32s(1, 2, 3), u32s(4), f32s(5, 6, 7, 8))
	init := cat(u32s(10, 0xAAAAAAAA, 0xAAAAAAAA, 0xAAAAAAAA), fill(32, 0x11), item1)
	want := cat(u32s(11, 0xAAAAAAAA, 0xAAAAAAAA, 0xAAAAAAAA), f32s(1, 2, 3), u32s(4), f32s(5, 6, 9, 8), item1)
	runE2E(t, e2eCase{
		name: "rtstructs",
		wgsl: `
struct Item { pos: vec3<f32>, id: u32, m: mat2x2<f32> }
struct Buf { count: u32, items: array<Item> }
@group(0) @binding(0) var<storage, read_write> b: Buf;
@group(0) @binding(1) var<storage, read_write> o: array<u32, 8>;
var<workgroup> wcount: array<atomic<u32>, 2>;
var<workgroup> wf: array<f32, 4>;
const K = array<i32, 3>(5, 6, 7);
const SCALE: f32 = 2.0;
fn addw(p: ptr<workgroup, array<f32, 4>>, i: u32, v: f32) { (*p)[i] += v; }
fn sumItem(it: Item) -> f32 { return it.pos.x + it.pos.y + it.pos.z + f32(it.id) + it.m[1][0]; }
@compute @workgroup_size(1)
fn main() {
  let n = arrayLength(&b.items);        // (80 - 16) / 32 = 2
  b.count += 1u;                        // 11
  addw(&wf, 2u, 1.5);
  let old = atomicAdd(&wcount[1], 3u);  // 0
  var idx = 1;
  o[0] = u32(K[idx]) + n;               // 6 + 2
  let it = b.items[1];
  o[1] = u32(sumItem(it) * SCALE);      // (1+2+3+4+7) * 2 = 34
  b.items[0] = it;
  b.items[0].m[1] = vec2<f32>(9.0, 8.0);
  o[2] = old + atomicLoad(&wcount[1]);  // 0 + 3
  o[3] = u32(wf[2] * 2.0);              // 3
}`,
		bufs:         map[string][]byte{"u0.0": init, "u1.0": fill(32, 0xCD)},
		want:         map[string][]byte{"u0.0": want, "u1.0": u32s(8, 34, 3, 3)},
		skipVariants: map[string]bool{"nozeroinit": true},
	})
}
