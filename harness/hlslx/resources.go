package hlslx

import (
	"encoding/binary"
	"fmt"

	"verif/harness/xrt"
)

// Resource is one resource declaration with its register binding.
type Resource struct {
	Name string
	// Kind is the resource type: "ByteAddressBuffer", "RWByteAddressBuffer",
	// "cbuffer", "tbuffer", "ConstantBuffer", "StructuredBuffer", "Texture2D",
	// "SamplerState", ...
	Kind string
	// Type is the full type as written, e.g. "ConstantBuffer<NagaConstants>",
	// "Texture2D<float4>"; for a cbuffer block it is "cbuffer".
	Type string
	// ArrayDims are the dimensions of a resource array (SamplerState s[2048]).
	ArrayDims []int
	Line, Col int
	// Register binding.  HasRegister is false when the declaration carries no
	// register(...) (the compiler would assign one automatically).
	HasRegister bool
	RegLetter   byte
	Reg         int
	Space       int
	HasSpace    bool
	// Slot is the xrt.Input.Buffers key: "<letter><N>.<space>".
	Slot string
	// Size is the byte size of the constant-buffer block (cbuffer /
	// ConstantBuffer<T>), rounded up to a whole 16-byte register.
	Size int
	// Members is the computed layout of a cbuffer / ConstantBuffer<T>.
	Members []CBField
	// LayoutErr is set when the layout could not be computed (unsupported
	// member type).
	LayoutErr string
}

// CBField is the computed placement of one constant-buffer member.
type CBField struct {
	Name   string
	Type   string
	Offset int // byte offset from the start of the buffer
	Size   int // bytes occupied (no tail padding)
	// RowMajor reports the storage orientation of a matrix (or array of
	// matrices).
	RowMajor bool
	// Array: Stride is the distance between elements, Len the element count,
	// Fields describes element 0.
	Stride int
	Len    int
	// Fields are the members of a struct (or of element 0 of an array of
	// structs / arrays), with absolute offsets.
	Fields []CBField
	// Comps lists the absolute byte offset of every scalar of a scalar,
	// vector or matrix in HLSL order (matrices row by row).
	Comps []int
}

func slotKey(letter byte, num, space int) string {
	return fmt.Sprintf("%c%d.%d", letter, num, space)
}

func describeLayout(name string, l *Layout, off int, rowMajor bool) CBField {
	f := CBField{Name: name, Type: l.T.String(), Offset: off, Size: l.Size}
	switch l.T.Kind {
	case TScalar, TVector, TMatrix:
		for _, c := range l.Comps {
			f.Comps = append(f.Comps, off+c)
		}
		if l.T.Kind == TMatrix {
			f.RowMajor = rowMajor
		}
	case TArray:
		f.Stride = l.Stride
		f.Len = l.T.Len
		f.RowMajor = rowMajor
		e := describeLayout(name+"[0]", l.Elem, off, rowMajor)
		f.Fields = []CBField{e}
	case TStruct:
		for i, fl := range l.Fields {
			f.Fields = append(f.Fields, describeLayout(fl.Name, fl.L, off+fl.Off, l.T.S.Fields[i].RowMajor))
		}
	}
	return f
}

// computeResources fills u.resources and the cbuffer layouts of the global
// declarations.
func (u *Unit) computeResources() {
	for _, d := range u.Decls_ {
		switch x := d.(type) {
		case *CBufferDecl:
			r := Resource{Name: x.Name, Kind: "cbuffer", Type: "cbuffer", Line: x.Pos.Line, Col: x.Pos.Col}
			if x.TBuffer {
				r.Kind, r.Type = "tbuffer", "tbuffer"
			}
			setRegister(&r, x.Register)
			off := 0
			for _, v := range x.Members {
				if v.typ == nil {
					r.LayoutErr = "unresolved member type"
					break
				}
				rm := v.hasMod("row_major")
				l, err := layoutOf(v.typ, rm)
				if err != nil {
					r.LayoutErr = fmt.Sprintf("member %s: %v", v.Name, err)
					break
				}
				off = packAt(off, l)
				v.cbLay = l
				v.cbOff = off
				r.Members = append(r.Members, describeLayout(v.Name, l, off, rm))
				off += l.Size
			}
			if r.LayoutErr != "" {
				for _, v := range x.Members {
					v.cbLay = nil
				}
				r.Members = nil
			}
			r.Size = roundUp16(off)
			x.size = r.Size
			u.resources = append(u.resources, r)
		case *VarGroup:
			for _, v := range x.Vars {
				if v.typ == nil || v.Class != VGlobal {
					continue
				}
				bt := v.typ
				var dims []int
				for bt.Kind == TArray {
					dims = append(dims, bt.Len)
					bt = bt.Elem
				}
				if bt.Kind != TResource {
					continue
				}
				r := Resource{Name: v.Name, Kind: bt.Res, Type: typeSpecString(v.Type), ArrayDims: dims, Line: v.Pos.Line, Col: v.Pos.Col}
				setRegister(&r, v.Register)
				if (bt.Res == "ConstantBuffer" || bt.Res == "TextureBuffer") && len(dims) == 0 {
					if bt.ResArg == nil {
						r.LayoutErr = "ConstantBuffer without element type"
					} else if l, err := layoutOf(bt.ResArg, false); err != nil {
						r.LayoutErr = err.Error()
					} else {
						v.cbLay = l
						r.Size = roundUp16(l.Size)
						top := describeLayout(v.Name, l, 0, false)
						if l.T.Kind == TStruct {
							r.Members = top.Fields
						} else {
							r.Members = []CBField{top}
						}
					}
				}
				u.resources = append(u.resources, r)
			}
		}
	}
}

func setRegister(r *Resource, rs *RegisterSpec) {
	if rs == nil {
		return
	}
	r.HasRegister = true
	r.RegLetter = rs.Letter
	r.Reg = rs.Num
	r.Space = rs.Space
	r.HasSpace = rs.HasSpace
	r.Slot = slotKey(rs.Letter, rs.Num, rs.Space)
}

func typeSpecString(ts *TypeSpec) string {
	s := ts.Name
	if ts.HasTmpl {
		s += "<"
		for i, a := range ts.Tmpl {
			if i > 0 {
				s += ", "
			}
			for _, m := range a.Mods {
				s += m + " "
			}
			if a.Type != nil {
				s += typeSpecString(a.Type)
			} else if il, ok := a.Expr.(*IntLit); ok {
				s += fmt.Sprint(il.Val)
			} else if id, ok := a.Expr.(*Ident); ok {
				s += id.Name
			} else {
				s += "?"
			}
		}
		s += ">"
	}
	return s
}

// Resources lists every resource declaration (cbuffer blocks and
// resource-typed globals) in source order.
func (u *Unit) Resources() []Resource {
	return append([]Resource(nil), u.resources...)
}

// ---- run-time bindings ----

type resBinding struct {
	name     string
	kind     string
	slot     string
	buf      []byte
	bound    bool
	declSize int // cbuffer: declared size in bytes
}

type cbRef struct {
	rb    *resBinding
	off   int
	lay   *Layout
	comps []int // selection of components (relative to off) of a numeric leaf
	T     *Type
	oob   bool // index far outside: every read yields 0
}

func (c *cbRef) compList() []int {
	if c.comps != nil {
		return c.comps
	}
	return c.lay.Comps
}

func (m *machine) record(slot string, off, size int, write bool) {
	if m.in.TraceAccesses {
		m.acc = append(m.acc, xrt.Access{Slot: slot, Offset: off, Size: size, Write: write})
	}
}

func (m *machine) needBound(rb *resBinding, pos Pos) {
	if !rb.bound {
		skipf("%s: no buffer supplied for slot %q (resource '%s')", pos, rb.slot, rb.name)
	}
	// two resources on one register are a compile error when the entry point
	// uses both
	if m.slotUse == nil {
		m.slotUse = map[string]*resBinding{}
	}
	if prev := m.slotUse[rb.slot]; prev == nil {
		m.slotUse[rb.slot] = rb
	} else if prev != rb {
		skipf("%s: compile error: resources '%s' and '%s' are both used and both bound to register %s", pos, prev.name, rb.name, rb.slot)
	}
}

// cbReadWord reads one dword of a constant buffer.  D3D: reads beyond the
// bound buffer (or beyond the declared size) return 0.
func (m *machine) cbReadWord(rb *resBinding, off int) word {
	if off < 0 || off+4 > len(rb.buf) {
		return dw(0)
	}
	return dw(binary.LittleEndian.Uint32(rb.buf[off:]))
}

// normBool: a bool read from a constant buffer is "dword != 0".
func normBool(w word, k ScalarKind) word {
	if k == KBool && w.v != 0 {
		w.v = 1
	}
	return w
}

func (m *machine) cbLoad(c *cbRef, pos Pos) Value {
	m.needBound(c.rb, pos)
	if c.oob {
		t := c.T
		if t == nil {
			t = c.lay.T
		}
		m.record(c.rb.slot, 1<<30, 4*t.flat, false)
		return zeroValue(t)
	}
	if c.comps != nil {
		out := make([]word, len(c.comps))
		m.recordComps(c.rb.slot, c.off, c.comps)
		for i, k := range c.comps {
			out[i] = normBool(m.cbReadWord(c.rb, c.off+k), c.T.Scalar)
		}
		return Value{T: c.T, W: out}
	}
	out := make([]word, 0, c.lay.T.flat)
	m.charge(c.lay.T.flat, pos)
	out = m.cbLoadLayout(c.rb, c.off, c.lay, out)
	return Value{T: c.lay.T, W: out}
}

// recordComps records maximal runs of contiguous component offsets.
func (m *machine) recordComps(slot string, base int, comps []int) {
	if !m.in.TraceAccesses {
		return
	}
	i := 0
	for i < len(comps) {
		j := i + 1
		for j < len(comps) && comps[j] == comps[j-1]+4 {
			j++
		}
		m.record(slot, base+comps[i], 4*(j-i), false)
		i = j
	}
}

func (m *machine) cbLoadLayout(rb *resBinding, off int, l *Layout, out []word) []word {
	switch l.T.Kind {
	case TScalar, TVector, TMatrix:
		m.recordComps(rb.slot, off, l.Comps)
		for _, k := range l.Comps {
			out = append(out, normBool(m.cbReadWord(rb, off+k), l.T.Scalar))
		}
	case TArray:
		for i := 0; i < l.T.Len; i++ {
			out = m.cbLoadLayout(rb, off+i*l.Stride, l.Elem, out)
		}
	case TStruct:
		for _, f := range l.Fields {
			out = m.cbLoadLayout(rb, off+f.Off, f.L, out)
		}
	}
	return out
}

// ---- ByteAddressBuffer methods ----

func (m *machine) rawOffset(v Value, pos Pos, what string) uint32 {
	if !v.T.isNumeric() {
		skipf("%s: compile error: %s offset of type %s", pos, what, v.T)
	}
	m.use(v, pos, what+" offset")
	cv := m.convert(v, tUint, convImplicit, pos)
	off := cv.W[0].v
	if off%4 != 0 {
		trapf("%s: %s at byte offset %d: raw buffer address is not a multiple of 4 (undefined)", pos, what, off)
	}
	return off
}

// rawLoad reads n dwords; out-of-bounds dwords read as 0 (D3D raw buffer
// semantics) and are still recorded in the trace with their real offset.
func (m *machine) rawLoad(rb *resBinding, off uint32, n int, pos Pos) []word {
	m.needBound(rb, pos)
	m.record(rb.slot, int(off), 4*n, false)
	out := make([]word, n)
	for i := 0; i < n; i++ {
		o := uint64(off) + uint64(4*i)
		if o+4 <= uint64(len(rb.buf)) {
			out[i] = dw(binary.LittleEndian.Uint32(rb.buf[o:]))
		} else {
			out[i] = dw(0)
		}
	}
	return out
}

// rawStore writes n dwords; out-of-bounds dwords are discarded.
func (m *machine) rawStore(rb *resBinding, off uint32, ws []word, pos Pos) {
	m.needBound(rb, pos)
	m.record(rb.slot, int(off), 4*len(ws), true)
	for i, w := range ws {
		if !w.def {
			trapf("%s: store of an uninitialised value to buffer '%s' at byte offset %d", pos, rb.name, uint64(off)+uint64(4*i))
		}
		o := uint64(off) + uint64(4*i)
		if o+4 <= uint64(len(rb.buf)) {
			binary.LittleEndian.PutUint32(rb.buf[o:], w.v)
		}
	}
}

func atomicOp(name string, signed bool, old, val uint32) (uint32, bool) {
	switch name {
	case "InterlockedAdd":
		return old + val, true
	case "InterlockedAnd":
		return old & val, true
	case "InterlockedOr":
		return old | val, true
	case "InterlockedXor":
		return old ^ val, true
	case "InterlockedMin":
		if signed {
			if int32(val) < int32(old) {
				return val, true
			}
			return old, true
		}
		if val < old {
			return val, true
		}
		return old, true
	case "InterlockedMax":
		if signed {
			if int32(val) > int32(old) {
				return val, true
			}
			return old, true
		}
		if val > old {
			return val, true
		}
		return old, true
	case "InterlockedExchange":
		return val, true
	}
	return 0, false
}

// intArg converts an atomic operand to a 32-bit integer word and reports
// whether it is signed.
func (m *machine) intArg(v Value, pos Pos, what string) (uint32, bool) {
	if !v.T.isNumeric() || v.T.flat != 1 {
		skipf("%s: compile error: %s operand of type %s", pos, what, v.T)
	}
	m.use(v, pos, what)
	switch v.T.Scalar {
	case KInt:
		return v.W[0].v, !v.T.Lit || int32(v.W[0].v) < 0
	case KUint:
		return v.W[0].v, false
	case KBool:
		return v.W[0].v & 1, false
	}
	skipf("%s: %s with a floating-point operand not supported", pos, what)
	return 0, false
}

func (m *machine) outPlace(e Expr, pos Pos, what string) place {
	if !isLvalueSyntax(e) {
		skipf("%s: compile error: %s needs an l-value", pos, what)
	}
	p := m.evalPlace(e)
	if p.ro || p.cb != nil || p.res != nil {
		skipf("%s: compile error: %s output argument is %s", pos, what, p.why)
	}
	if !p.T.isNumeric() {
		skipf("%s: compile error: %s output argument of type %s", pos, what, p.T)
	}
	return p
}

func (m *machine) storeOut(p place, v Value, pos Pos) {
	p.store(m, m.convert(v, p.T, convImplicit, pos), pos)
}

func (m *machine) evalMethod(x *MethodExpr) Value {
	rp := m.evalPlace(x.Recv)
	if rp.res == nil {
		skipf("%s: method '.%s' on %s not supported", x.Pos, x.Name, rp.T)
	}
	rb := rp.res
	kind := rp.T.Res
	if kind != "ByteAddressBuffer" && kind != "RWByteAddressBuffer" {
		skipf("%s: method %s.%s not supported (only raw buffers are executable)", x.Pos, kind, x.Name)
	}
	rw := kind == "RWByteAddressBuffer"
	if len(x.Tmpl) > 0 {
		skipf("%s: templated %s.%s<...> not supported", x.Pos, kind, x.Name)
	}
	nargs := len(x.Args)
	want := func(n ...int) {
		for _, k := range n {
			if k == nargs {
				return
			}
		}
		skipf("%s: compile error: %s.%s called with %d arguments", x.Pos, kind, x.Name, nargs)
	}
	switch x.Name {
	case "Load", "Load2", "Load3", "Load4":
		want(1)
		n := 1
		if len(x.Name) == 5 {
			n = int(x.Name[4] - '0')
		}
		off := m.rawOffset(m.eval(x.Args[0]), x.Pos, kind+"."+x.Name)
		ws := m.rawLoad(rb, off, n, x.Pos)
		if n == 1 {
			return Value{T: tUint, W: ws}
		}
		return Value{T: vecT(KUint, n), W: ws}
	case "Store", "Store2", "Store3", "Store4":
		if !rw {
			skipf("%s: compile error: %s on a read-only ByteAddressBuffer", x.Pos, x.Name)
		}
		want(2)
		n := 1
		if len(x.Name) == 6 {
			n = int(x.Name[5] - '0')
		}
		off := m.rawOffset(m.eval(x.Args[0]), x.Pos, kind+"."+x.Name)
		v := m.eval(x.Args[1])
		if !v.T.isNumeric() {
			skipf("%s: compile error: %s of %s", x.Pos, x.Name, v.T)
		}
		var tt *Type
		if n == 1 {
			tt = tUint
		} else {
			tt = vecT(KUint, n)
		}
		if v.T.flat != n && v.T.flat != 1 {
			skipf("%s: compile error: %s of %s (needs %d components)", x.Pos, x.Name, v.T, n)
		}
		// undefined words are caught by rawStore with a better message
		if v.T.Scalar != KUint {
			m.use(v, x.Pos, x.Name)
		}
		cv := m.convert(v, tt, convImplicit, x.Pos)
		m.rawStore(rb, off, cv.W, x.Pos)
		return Value{T: tVoid}
	case "GetDimensions":
		want(1)
		m.needBound(rb, x.Pos)
		p := m.outPlace(x.Args[0], x.Pos, "GetDimensions")
		m.storeOut(p, uintValue(uint32(len(rb.buf))), x.Pos)
		return Value{T: tVoid}
	case "InterlockedAdd", "InterlockedAnd", "InterlockedOr", "InterlockedXor", "InterlockedMin", "InterlockedMax", "InterlockedExchange":
		if !rw {
			skipf("%s: compile error: %s on a read-only ByteAddressBuffer", x.Pos, x.Name)
		}
		if x.Name == "InterlockedExchange" {
			want(3)
		} else {
			want(2, 3)
		}
		off := m.rawOffset(m.eval(x.Args[0]), x.Pos, kind+"."+x.Name)
		val, signed := m.intArg(m.eval(x.Args[1]), x.Pos, x.Name)
		var outp *place
		if nargs == 3 {
			p := m.outPlace(x.Args[2], x.Pos, x.Name)
			outp = &p
			if p.T.Scalar == KInt && m.isLitExpr(x.Args[1]) {
				signed = true
			}
		}
		m.rawAtomic(rb, off, x.Pos, outp, func(old uint32) (uint32, bool) {
			nv, _ := atomicOp(x.Name, signed, old, val)
			return nv, true
		})
		return Value{T: tVoid}
	case "InterlockedCompareExchange", "InterlockedCompareStore":
		if !rw {
			skipf("%s: compile error: %s on a read-only ByteAddressBuffer", x.Pos, x.Name)
		}
		if x.Name == "InterlockedCompareExchange" {
			want(4)
		} else {
			want(3)
		}
		off := m.rawOffset(m.eval(x.Args[0]), x.Pos, kind+"."+x.Name)
		cmp, _ := m.intArg(m.eval(x.Args[1]), x.Pos, x.Name)
		val, _ := m.intArg(m.eval(x.Args[2]), x.Pos, x.Name)
		var outp *place
		if nargs == 4 {
			p := m.outPlace(x.Args[3], x.Pos, x.Name)
			outp = &p
		}
		m.rawAtomic(rb, off, x.Pos, outp, func(old uint32) (uint32, bool) {
			if old == cmp {
				return val, true
			}
			return old, false
		})
		return Value{T: tVoid}
	}
	skipf("%s: method %s.%s not supported", x.Pos, kind, x.Name)
	return Value{}
}

func (m *machine) isLitExpr(e Expr) bool {
	switch x := e.(type) {
	case *IntLit:
		return x.Suffix == ""
	case *ParenExpr:
		return m.isLitExpr(x.X)
	case *UnaryExpr:
		return (x.Op == "-" || x.Op == "+") && m.isLitExpr(x.X)
	}
	return false
}

// rawAtomic performs a read-modify-write of one dword.  D3D: an atomic on an
// out-of-bounds UAV address writes nothing and returns an undefined value.
func (m *machine) rawAtomic(rb *resBinding, off uint32, pos Pos, outp *place, f func(old uint32) (uint32, bool)) {
	m.needBound(rb, pos)
	m.record(rb.slot, int(off), 4, false)
	m.record(rb.slot, int(off), 4, true)
	if uint64(off)+4 > uint64(len(rb.buf)) {
		if outp != nil {
			// undefined original value
			outp.store(m, undefValue(outp.T), pos)
		}
		return
	}
	old := binary.LittleEndian.Uint32(rb.buf[off:])
	nv, write := f(old)
	if write {
		binary.LittleEndian.PutUint32(rb.buf[off:], nv)
	}
	if outp != nil {
		m.storeOut(*outp, uintValue(old), pos)
	}
}
