package hlslx

import (
	"fmt"

	"verif/harness/xrt"
)

// Decl is one declaration in the translation unit.
type Decl struct {
	ID   int
	Kind string // struct, member, function, param, global, static, groupshared, local, static-local, cbuffer, cbuffer-member, typedef
	Name string
	Type string // declared type as resolved (return type for functions)
	Line int
	Col  int
	// Depth is the scope depth: 0 = translation unit; 1 = function scope
	// (parameters and the statements directly in the body) or the member scope
	// of a struct; +1 for every nested block / for-init scope.
	Depth int
	// Parent is the ID of the enclosing function (params, locals), struct
	// (members) or cbuffer (cbuffer members); -1 at the top level.
	Parent int
	// Scope identifies the lexical scope instance; two declarations with equal
	// Scope and Name are a redefinition (functions excepted: overloads).
	Scope int
}

// Ref is one use of an identifier.
type Ref struct {
	Name string
	Kind string // var, func, type, member
	Line int
	Col  int
	// Decl is the ID of the declaration the identifier resolves to by the HLSL
	// lookup rules (innermost scope first), or -1.
	Decl int
	// Builtin is set for intrinsic functions and builtin types (Decl == -1).
	Builtin bool
	// Unknown is set for a member reference whose object type could not be
	// determined statically (Decl == -1); it is not an error.
	Unknown bool
	Depth   int
	// InFunc is the ID of the function the reference occurs in, or -1.
	InFunc int
}

type scope struct {
	id    int
	vars  map[string]*VarDecl
	depth int
}

type checker struct {
	u            *Unit
	scopes       []*scope
	nscope       int
	curFn        *FuncDecl
	nslots       int
	errs         []string
	userTypeDecl map[string]int
}

func (c *checker) errorf(pos Pos, format string, a ...interface{}) {
	c.errs = append(c.errs, fmt.Sprintf("%s: %s", pos, fmt.Sprintf(format, a...)))
}

func (c *checker) push() *scope {
	d := 0
	if len(c.scopes) > 0 {
		d = c.scopes[len(c.scopes)-1].depth + 1
	}
	s := &scope{id: c.nscope, vars: map[string]*VarDecl{}, depth: d}
	c.nscope++
	c.scopes = append(c.scopes, s)
	c.u.sev = append(c.u.sev, xrt.ScopeEv{Op: "open", Kind: "body"})
	return s
}
func (c *checker) pop() {
	c.scopes = c.scopes[:len(c.scopes)-1]
	c.u.sev = append(c.u.sev, xrt.ScopeEv{Op: "close"})
}
func (c *checker) top() *scope { return c.scopes[len(c.scopes)-1] }

func (c *checker) lookupVar(name string) *VarDecl {
	for i := len(c.scopes) - 1; i >= 0; i-- {
		if v, ok := c.scopes[i].vars[name]; ok {
			return v
		}
	}
	return nil
}

func (c *checker) addDecl(kind, name, typ string, pos Pos, parent int) int {
	s := c.top()
	id := len(c.u.decls)
	c.u.decls = append(c.u.decls, Decl{ID: id, Kind: kind, Name: name, Type: typ, Line: pos.Line, Col: pos.Col, Depth: s.depth, Parent: parent, Scope: s.id})
	c.u.sev = append(c.u.sev, xrt.ScopeEv{Op: "decl", Kind: kind, Name: name, Line: pos.Line, Col: pos.Col, Decl: id})
	return id
}

func (c *checker) addRef(kind, name string, pos Pos, decl int, builtin bool) *Ref {
	fn := -1
	if c.curFn != nil {
		fn = c.curFn.declID
	}
	c.u.refs = append(c.u.refs, Ref{Name: name, Kind: kind, Line: pos.Line, Col: pos.Col, Decl: decl, Builtin: builtin, Depth: c.top().depth, InFunc: fn})
	c.u.sev = append(c.u.sev, xrt.ScopeEv{Op: "ref", Kind: kind, Name: name, Line: pos.Line, Col: pos.Col, Decl: decl, Builtin: builtin, Member: kind == "member"})
	return &c.u.refs[len(c.u.refs)-1]
}

// constInt evaluates an integer constant expression (array sizes, numthreads).
func (c *checker) constInt(e Expr) (int64, bool) {
	switch x := e.(type) {
	case *IntLit:
		return int64(x.Val), true
	case *ParenExpr:
		return c.constInt(x.X)
	case *UnaryExpr:
		v, ok := c.constInt(x.X)
		if !ok {
			return 0, false
		}
		switch x.Op {
		case "-":
			return -v, true
		case "+":
			return v, true
		}
	case *BinaryExpr:
		a, ok1 := c.constInt(x.L)
		b, ok2 := c.constInt(x.R)
		if !ok1 || !ok2 {
			return 0, false
		}
		switch x.Op {
		case "+":
			return a + b, true
		case "-":
			return a - b, true
		case "*":
			return a * b, true
		case "/":
			if b != 0 {
				return a / b, true
			}
		case "<<":
			if b >= 0 && b < 32 {
				return a << uint(b), true
			}
		}
	case *CtorExpr:
		if len(x.Args) == 1 && (x.Type.Name == "int" || x.Type.Name == "uint") {
			return c.constInt(x.Args[0])
		}
	case *Ident:
		if v := c.lookupVar(x.Name); v != nil && v.hasMod("const") && v.Init != nil && len(v.Dims) == 0 {
			return c.constInt(v.Init)
		}
	}
	return 0, false
}

// resolveTypeSpec turns a syntactic type into a *Type.
func (c *checker) resolveTypeSpec(ts *TypeSpec) *Type {
	if ts.Struct != nil {
		if ts.Struct.info == nil {
			c.declareStruct(ts.Struct)
		}
		return &Type{Kind: TStruct, S: ts.Struct.info, flat: structFlat(ts.Struct.info)}
	}
	var t *Type
	if ts.Name == "void" {
		t = tVoid
	} else if ts.Name == "vector" || ts.Name == "matrix" {
		t = c.resolveVectorTemplate(ts)
		c.addRef("type", ts.Name, ts.Pos, -1, true)
	} else if nt, ok := numericTypeByName(ts.Name); ok {
		t = nt
		c.addRef("type", ts.Name, ts.Pos, -1, true)
	} else if ut, ok := c.u.userTypes[ts.Name]; ok {
		t = ut
		id := -1
		if d, ok := c.userTypeDecl[ts.Name]; ok {
			id = d
		}
		c.addRef("type", ts.Name, ts.Pos, id, false)
	} else if resourceTypeNames[ts.Name] {
		c.addRef("type", ts.Name, ts.Pos, -1, true)
		if ts.Name == "RayDesc" || ts.Name == "CANDIDATE_TYPE" || ts.Name == "COMMITTED_STATUS" {
			t = opaqueT(ts.Name)
		} else {
			rt := &Type{Kind: TResource, Res: ts.Name}
			for _, a := range ts.Tmpl {
				if a.Type != nil {
					at := c.resolveTypeSpec(a.Type)
					if rt.ResArg == nil {
						rt.ResArg = at
					}
				} else if a.Expr != nil {
					c.checkExpr(a.Expr)
				}
			}
			t = rt
		}
	} else {
		c.errorf(ts.Pos, "unknown type '%s'", ts.Name)
		t = opaqueT(ts.Name)
	}
	if len(ts.ArrayPre) > 0 {
		t = c.wrapDims(t, ts.ArrayPre, ts.Pos)
	}
	return t
}

func (c *checker) resolveVectorTemplate(ts *TypeSpec) *Type {
	bad := func() *Type {
		c.errorf(ts.Pos, "unsupported %s<...> type", ts.Name)
		return opaqueT(ts.Name)
	}
	if len(ts.Tmpl) < 2 || ts.Tmpl[0].Type == nil {
		return bad()
	}
	bt := c.resolveTypeSpec(ts.Tmpl[0].Type)
	if bt.Kind == TOpaque {
		return opaqueT(ts.Name + "<" + bt.name + ">")
	}
	if bt.Kind != TScalar {
		return bad()
	}
	var dims []int
	for _, a := range ts.Tmpl[1:] {
		if a.Expr == nil {
			return bad()
		}
		v, ok := c.constInt(a.Expr)
		if !ok || v < 1 || v > 4 {
			return bad()
		}
		dims = append(dims, int(v))
	}
	if ts.Name == "vector" && len(dims) == 1 {
		return vecT(bt.Scalar, dims[0])
	}
	if ts.Name == "matrix" && len(dims) == 2 {
		return matT(bt.Scalar, dims[0], dims[1])
	}
	return bad()
}

const maxFlatWords = 1 << 22

func (c *checker) wrapDims(t *Type, dims []Expr, pos Pos) *Type {
	for i := len(dims) - 1; i >= 0; i-- {
		if dims[i] == nil {
			t = arrayT(t, -1)
			continue
		}
		c.checkExpr(dims[i])
		n, ok := c.constInt(dims[i])
		if !ok || n <= 0 || n > 1<<24 {
			c.errorf(pos, "array dimension is not a positive integer constant")
			return opaqueT("<bad array>")
		}
		t = arrayT(t, int(n))
		if t.flat > maxFlatWords {
			c.errorf(pos, "array too large")
			return opaqueT("<huge array>")
		}
	}
	return t
}

func structFlat(si *StructInfo) int {
	n := 0
	for _, f := range si.Fields {
		n += f.T.flat
	}
	return n
}

func (c *checker) declareStruct(sd *StructDecl) {
	si := &StructInfo{Name: sd.Name, Decl: sd}
	sd.info = si
	parent := -1
	if sd.Name != "" {
		if _, dup := c.u.userTypes[sd.Name]; dup {
			c.errorf(sd.Pos, "redefinition of type '%s'", sd.Name)
		}
		sd.declID = c.addDecl("struct", sd.Name, "struct", sd.Pos, -1)
		parent = sd.declID
	} else {
		sd.declID = c.addDecl("struct", "", "struct", sd.Pos, -1)
		parent = sd.declID
	}
	c.push()
	off := 0
	seen := map[string]bool{}
	for _, m := range sd.Members {
		bt := c.resolveTypeSpec(m.Type)
		m.typ = c.wrapDims(bt, m.Dims, m.Pos)
		if seen[m.Name] {
			c.errorf(m.Pos, "duplicate member '%s' in struct '%s'", m.Name, sd.Name)
		}
		seen[m.Name] = true
		m.declID = c.addDecl("member", m.Name, m.typ.String(), m.Pos, parent)
		si.Fields = append(si.Fields, StructField{Name: m.Name, T: m.typ, RowMajor: m.hasMod("row_major"), off: off, Decl: m})
		off += m.typ.flat
		if off > maxFlatWords {
			c.errorf(m.Pos, "struct '%s' is too large", sd.Name)
			si.Fields[len(si.Fields)-1].T = opaqueT("<huge>")
			off = 0
		}
	}
	c.pop()
	if sd.Name != "" {
		c.u.userTypes[sd.Name] = &Type{Kind: TStruct, S: si, flat: off}
		c.userTypeDecl[sd.Name] = sd.declID
	}
}

func classKind(v *VarDecl) string {
	switch v.Class {
	case VLocal:
		return "local"
	case VStaticLocal:
		return "static-local"
	case VParam:
		return "param"
	case VGlobal:
		return "global"
	case VStatic:
		return "static"
	case VGroupShared:
		return "groupshared"
	case VCBMember:
		return "cbuffer-member"
	case VMember:
		return "member"
	}
	return "?"
}

func (c *checker) declareVar(v *VarDecl, parent int) {
	bt := c.resolveTypeSpec(v.Type)
	v.typ = c.wrapDims(bt, v.Dims, v.Pos)
	if v.Init != nil {
		// the initializer is checked before the name becomes visible?  In C
		// the declarator is in scope in its own initializer; HLSL follows C.
		// naga never relies on it; check first so that "T x = x_outer" style
		// code resolves to the outer variable like FXC does.
		c.checkInit(v.Init)
	}
	s := c.top()
	if prev, dup := s.vars[v.Name]; dup {
		c.errorf(v.Pos, "redefinition of '%s' (previous declaration at %s)", v.Name, prev.Pos)
	}
	s.vars[v.Name] = v
	v.declID = c.addDecl(classKind(v), v.Name, v.typ.String(), v.Pos, parent)
	if c.curFn != nil && (v.Class == VLocal || v.Class == VParam || v.Class == VStaticLocal) {
		v.slot = c.nslots
		c.nslots++
	}
}

func (c *checker) checkInit(e Expr) {
	if il, ok := e.(*InitList); ok {
		for _, x := range il.Elems {
			c.checkInit(x)
		}
		return
	}
	c.checkExpr(e)
}

func (c *checker) run() {
	u := c.u
	u.userTypes = map[string]*Type{}
	u.funcsByName = map[string][]*FuncDecl{}
	c.userTypeDecl = map[string]int{}
	c.push() // global scope
	for _, d := range u.Decls_ {
		switch x := d.(type) {
		case *StructDecl:
			if x.info == nil {
				c.declareStruct(x)
			}
		case *TypedefDecl:
			bt := c.resolveTypeSpec(x.Type)
			t := c.wrapDims(bt, x.Dims, x.Pos)
			if _, dup := u.userTypes[x.Name]; dup {
				c.errorf(x.Pos, "redefinition of type '%s'", x.Name)
			}
			if t.Kind == TStruct && t.S.Name == "" {
				t.S.Name = x.Name
			}
			u.userTypes[x.Name] = t
			x.declID = c.addDecl("typedef", x.Name, t.String(), x.Pos, -1)
			c.userTypeDecl[x.Name] = x.declID
		case *VarGroup:
			for _, v := range x.Vars {
				c.declareVar(v, -1)
			}
		case *CBufferDecl:
			x.declID = c.addDecl("cbuffer", x.Name, "cbuffer", x.Pos, -1)
			for _, v := range x.Members {
				c.declareVar(v, x.declID)
			}
		case *FuncDecl:
			c.checkFunc(x)
		}
	}
	c.pop()
}

func sameParamTypes(a, b *FuncDecl) bool {
	if len(a.Params) != len(b.Params) {
		return false
	}
	for i := range a.Params {
		if !sameType(a.Params[i].typ, b.Params[i].typ) {
			return false
		}
	}
	return true
}

func (c *checker) checkFunc(fn *FuncDecl) {
	u := c.u
	rt := c.resolveTypeSpec(fn.Ret)
	fn.ret = c.wrapDims(rt, fn.RetDims, fn.Pos)
	fn.declID = c.addDecl("function", fn.Name, fn.ret.String(), fn.Pos, -1)
	fnEv := len(c.u.sev) - 1
	if v := c.scopes[0].vars[fn.Name]; v != nil {
		c.errorf(fn.Pos, "function '%s' redeclares a global variable", fn.Name)
	}
	c.curFn = fn
	c.nslots = 0
	c.push()
	for _, p := range fn.Params {
		c.declareVar(p, fn.declID)
	}
	c.u.sev[fnEv].Sig = "(" + paramTypeList(fn) + ")"
	for _, o := range u.funcsByName[fn.Name] {
		if sameParamTypes(o, fn) && o.Body != nil && fn.Body != nil {
			c.errorf(fn.Pos, "redefinition of function '%s(%s)'", fn.Name, paramTypeList(fn))
		}
	}
	// visible to its own body (recursion is rejected at run time by fuel /
	// depth; HLSL forbids it)
	u.funcsByName[fn.Name] = append(u.funcsByName[fn.Name], fn)
	for _, a := range fn.Attrs {
		for _, e := range a.Args {
			c.checkExpr(e)
		}
		if a.Name == "numthreads" {
			if len(a.Args) != 3 {
				c.errorf(a.Pos, "numthreads needs 3 arguments")
				continue
			}
			fn.isEntry = true
			for i, e := range a.Args {
				n, ok := c.constInt(e)
				if !ok || n < 1 || n > 1024 {
					c.errorf(a.Pos, "numthreads argument %d is not a constant in 1..1024", i)
					n = 1
				}
				fn.numthreads[i] = int(n)
			}
		}
	}
	if fn.Body != nil {
		// the body's outermost block shares the parameter scope
		for _, s := range fn.Body.Stmts {
			c.checkStmt(s)
		}
	}
	c.pop()
	fn.nslots = c.nslots
	c.curFn = nil
}

func paramTypeList(fn *FuncDecl) string {
	var ts []*Type
	for _, p := range fn.Params {
		ts = append(ts, p.typ)
	}
	return typeList(ts)
}

func (c *checker) checkStmt(s Stmt) {
	switch x := s.(type) {
	case *BlockStmt:
		c.push()
		for _, y := range x.Stmts {
			c.checkStmt(y)
		}
		c.pop()
	case *DeclStmt:
		for _, v := range x.Vars {
			c.declareVar(v, c.curFn.declID)
		}
	case *ExprStmt:
		c.checkExpr(x.X)
	case *IfStmt:
		c.checkExpr(x.Cond)
		c.checkSub(x.Then)
		if x.Else != nil {
			c.checkSub(x.Else)
		}
	case *SwitchStmt:
		c.checkExpr(x.Tag)
		c.push()
		for _, sec := range x.Sections {
			for _, l := range sec.Labels {
				c.checkExpr(l)
			}
			for _, y := range sec.Body {
				c.checkStmt(y)
			}
		}
		c.pop()
	case *ForStmt:
		c.push()
		if x.Init != nil {
			c.checkStmt(x.Init)
		}
		if x.Cond != nil {
			c.checkExpr(x.Cond)
		}
		if x.Post != nil {
			c.checkExpr(x.Post)
		}
		c.checkSub(x.Body)
		c.pop()
	case *WhileStmt:
		c.checkExpr(x.Cond)
		c.checkSub(x.Body)
	case *DoWhileStmt:
		c.checkSub(x.Body)
		c.checkExpr(x.Cond)
	case *ReturnStmt:
		if x.X != nil {
			c.checkInit(x.X)
		}
	}
}

// checkSub checks a sub-statement that introduces its own scope when it is
// not already a block.
func (c *checker) checkSub(s Stmt) {
	if _, ok := s.(*BlockStmt); ok {
		c.checkStmt(s)
		return
	}
	c.push()
	c.checkStmt(s)
	c.pop()
}

// checkExpr resolves identifiers and returns the static type when it can be
// determined cheaply (nil otherwise).
func (c *checker) checkExpr(e Expr) *Type {
	switch x := e.(type) {
	case nil:
		return nil
	case *Ident:
		if v := c.lookupVar(x.Name); v != nil {
			x.v = v
			x.ref = c.addRef("var", x.Name, x.Pos, v.declID, false)
			return v.typ
		}
		if fs := c.u.funcsByName[x.Name]; len(fs) > 0 {
			x.funcs = fs
			x.ref = c.addRef("func", x.Name, x.Pos, fs[0].declID, false)
			return nil
		}
		if isKnownConstant(x.Name) {
			x.ref = c.addRef("var", x.Name, x.Pos, -1, true)
			return nil
		}
		c.errorf(x.Pos, "undeclared identifier '%s'", x.Name)
		x.ref = c.addRef("var", x.Name, x.Pos, -1, false)
		return nil
	case *IntLit:
		if x.Suffix == "u" {
			return tUint
		}
		return tLitInt
	case *FloatLit:
		return tLitFloat
	case *BoolLit:
		return tBool
	case *StringLit:
		return nil
	case *ParenExpr:
		return c.checkExpr(x.X)
	case *UnaryExpr:
		t := c.checkExpr(x.X)
		if x.Op == "!" && t != nil && t.isNumeric() {
			return t.withScalar(KBool)
		}
		return t
	case *BinaryExpr:
		a := c.checkExpr(x.L)
		b := c.checkExpr(x.R)
		if a == nil || b == nil || !a.isNumeric() || !b.isNumeric() {
			return nil
		}
		rt, _, err := binaryResultType(x.Op, a, b)
		if err != nil {
			return nil
		}
		return rt
	case *AssignExpr:
		t := c.checkExpr(x.L)
		c.checkInit(x.R)
		return t
	case *TernaryExpr:
		c.checkExpr(x.Cond)
		a := c.checkExpr(x.A)
		c.checkExpr(x.B)
		if a != nil && !a.Lit {
			return a
		}
		return nil
	case *CommaExpr:
		c.checkExpr(x.L)
		return c.checkExpr(x.R)
	case *CallExpr:
		var ats []*Type
		known := true
		for _, a := range x.Args {
			t := c.checkExpr(a)
			if t == nil {
				known = false
			}
			ats = append(ats, t)
		}
		name := x.Fun.Name
		if v := c.lookupVar(name); v != nil {
			c.errorf(x.Pos, "'%s' is a variable, not a function", name)
			x.Fun.ref = c.addRef("var", name, x.Fun.Pos, v.declID, false)
			return nil
		}
		if fs := c.u.funcsByName[name]; len(fs) > 0 {
			x.Fun.funcs = fs
			pick := (*FuncDecl)(nil)
			if known {
				if f, err := pickOverload(fs, ats); err == nil {
					pick = f
				}
			}
			if pick == nil {
				for _, f := range fs {
					if len(f.Params) == len(x.Args) {
						pick = f
						break
					}
				}
			}
			if pick == nil {
				c.errorf(x.Pos, "no overload of '%s' takes %d arguments", name, len(x.Args))
				x.Fun.ref = c.addRef("func", name, x.Fun.Pos, fs[0].declID, false)
				return nil
			}
			x.Fun.ref = c.addRef("func", name, x.Fun.Pos, pick.declID, false)
			// the static type is only reliable when all overloads with this
			// arity agree on it or the overload was resolved
			return pick.ret
		}
		if isKnownIntrinsic(name) {
			x.Fun.ref = c.addRef("func", name, x.Fun.Pos, -1, true)
			if known {
				return intrinsicStaticType(name, ats)
			}
			return nil
		}
		c.errorf(x.Pos, "call to undeclared function '%s'", name)
		x.Fun.ref = c.addRef("func", name, x.Fun.Pos, -1, false)
		return nil
	case *CtorExpr:
		t := c.resolveTypeSpec(x.Type)
		x.typ = t
		for _, a := range x.Args {
			c.checkExpr(a)
		}
		return t
	case *MethodExpr:
		c.checkExpr(x.Recv)
		for _, a := range x.Tmpl {
			if a.Type != nil {
				c.resolveTypeSpec(a.Type)
			}
		}
		for _, a := range x.Args {
			c.checkExpr(a)
		}
		return nil
	case *MemberExpr:
		t := c.checkExpr(x.X)
		if t == nil {
			r := c.addRef("member", x.Name, x.NamePos, -1, false)
			r.Unknown = true
			x.ref = r
			return nil
		}
		bt := t
		if bt.Kind == TResource && bt.Res == "ConstantBuffer" && bt.ResArg != nil {
			bt = bt.ResArg
		}
		switch bt.Kind {
		case TStruct:
			f := bt.S.field(x.Name)
			if f == nil {
				c.errorf(x.NamePos, "struct '%s' has no member '%s'", bt.S.Name, x.Name)
				x.ref = c.addRef("member", x.Name, x.NamePos, -1, false)
				return nil
			}
			x.ref = c.addRef("member", x.Name, x.NamePos, f.Decl.declID, false)
			return f.T
		case TScalar, TVector:
			n := 1
			if bt.Kind == TVector {
				n = bt.N
			}
			if idx, ok := parseSwizzle(x.Name, n); ok {
				if len(idx) == 1 {
					return scalarT(bt.Scalar)
				}
				return vecT(bt.Scalar, len(idx))
			}
			c.errorf(x.NamePos, "invalid swizzle '%s' on %s", x.Name, bt)
			return nil
		case TMatrix:
			return nil
		case TOpaque, TResource:
			r := c.addRef("member", x.Name, x.NamePos, -1, false)
			r.Unknown = true
			x.ref = r
			return nil
		}
		c.errorf(x.NamePos, "member access '.%s' on %s", x.Name, bt)
		return nil
	case *IndexExpr:
		t := c.checkExpr(x.X)
		c.checkExpr(x.I)
		if t == nil {
			return nil
		}
		switch t.Kind {
		case TArray:
			return t.Elem
		case TVector:
			return scalarT(t.Scalar)
		case TMatrix:
			return vecT(t.Scalar, t.C)
		}
		return nil
	case *CastExpr:
		bt := c.resolveTypeSpec(x.Type)
		x.typ = c.wrapDims(bt, x.Dims, x.Pos)
		c.checkExpr(x.X)
		return x.typ
	case *InitList:
		c.checkInit(x)
		return nil
	}
	return nil
}

// parseSwizzle decodes an xyzw / rgba swizzle on a value with n components.
func parseSwizzle(s string, n int) ([]int, bool) {
	if len(s) == 0 || len(s) > 4 {
		return nil, false
	}
	set := 0
	idx := make([]int, len(s))
	for i := 0; i < len(s); i++ {
		var k, st int
		switch s[i] {
		case 'x':
			k, st = 0, 1
		case 'y':
			k, st = 1, 1
		case 'z':
			k, st = 2, 1
		case 'w':
			k, st = 3, 1
		case 'r':
			k, st = 0, 2
		case 'g':
			k, st = 1, 2
		case 'b':
			k, st = 2, 2
		case 'a':
			k, st = 3, 2
		default:
			return nil, false
		}
		if set != 0 && set != st {
			return nil, false
		}
		set = st
		if k >= n {
			return nil, false
		}
		idx[i] = k
	}
	return idx, true
}

// ---- public accessors ----

// Decls returns every declaration of the unit in source order.
func (u *Unit) Decls() []Decl { return append([]Decl(nil), u.decls...) }

// Refs returns every identifier reference in source order.
func (u *Unit) Refs() []Ref { return append([]Ref(nil), u.refs...) }

// ScopeEvents is the declaration / reference event stream recorded by the
// checker (consumed by spec/Scopes.tla, property C16).
func (u *Unit) ScopeEvents() []xrt.ScopeEv { return append([]xrt.ScopeEv(nil), u.sev...) }

// StaticErrors returns the static (compile-time) errors found while resolving
// names and types: undeclared identifiers, unknown types, redefinitions,
// unknown struct members, non-constant array sizes.  Run refuses (Skip) to
// execute a unit that has any.
func (u *Unit) StaticErrors() []string { return append([]string(nil), u.staticErrs...) }
