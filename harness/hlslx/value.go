package hlslx

import (
	"fmt"
	"math"
)

// word is one 32-bit scalar with its "defined" bit.
type word struct {
	v   uint32
	def bool
}

// Value is an rvalue: a type and its scalars in flatten order (struct members
// in declaration order, array elements in index order, matrices row by row).
type Value struct {
	T   *Type
	W   []word
	Res *resBinding // TResource values
}

func dw(v uint32) word { return word{v, true} }

func boolWord(b bool) word {
	if b {
		return word{1, true}
	}
	return word{0, true}
}

func scalarValue(t *Type, bits uint32) Value { return Value{T: t, W: []word{dw(bits)}} }
func floatValue(f float32) Value             { return scalarValue(tFloat, math.Float32bits(f)) }
func uintValue(u uint32) Value               { return scalarValue(tUint, u) }
func intValue(i int32) Value                 { return scalarValue(tInt, uint32(i)) }
func boolValue(b bool) Value                 { return Value{T: tBool, W: []word{boolWord(b)}} }

func zeroValue(t *Type) Value {
	w := make([]word, t.flat)
	for i := range w {
		w[i].def = true
	}
	return Value{T: t, W: w}
}

func undefValue(t *Type) Value { return Value{T: t, W: make([]word, t.flat)} }

func (v Value) clone() Value {
	w := make([]word, len(v.W))
	copy(w, v.W)
	return Value{T: v.T, W: w, Res: v.Res}
}

func f32(w word) float32 { return math.Float32frombits(w.v) }
func fw(f float32) word  { return word{math.Float32bits(f), true} }

// scalarKinds lists the component kind of every flat word of t.
func scalarKinds(t *Type, out []ScalarKind) []ScalarKind {
	switch t.Kind {
	case TScalar, TVector, TMatrix:
		for i := 0; i < t.flat; i++ {
			out = append(out, t.Scalar)
		}
	case TArray:
		if t.Len > 0 {
			start := len(out)
			out = scalarKinds(t.Elem, out)
			one := out[start:]
			n := len(one)
			for i := 1; i < t.Len; i++ {
				out = append(out, out[start:start+n]...)
			}
		}
	case TStruct:
		for _, f := range t.S.Fields {
			out = scalarKinds(f.T, out)
		}
	}
	return out
}

// hasOpaque reports whether t contains a component the interpreter cannot
// represent.
func hasOpaque(t *Type) bool {
	switch t.Kind {
	case TOpaque, TResource:
		return true
	case TArray:
		return t.Len < 0 || hasOpaque(t.Elem)
	case TStruct:
		for _, f := range t.S.Fields {
			if hasOpaque(f.T) {
				return true
			}
		}
	}
	return false
}

// ---- scalar conversions (D3D semantics) ----

// ftoi: round toward zero, saturate, NaN -> 0.
func ftoi(f float32) int32 {
	if f != f {
		return 0
	}
	if f >= 2147483648.0 {
		return math.MaxInt32
	}
	if f <= -2147483648.0 {
		return math.MinInt32
	}
	return int32(f)
}

// ftou: round toward zero, saturate, NaN -> 0.
func ftou(f float32) uint32 {
	if f != f {
		return 0
	}
	if f >= 4294967296.0 {
		return math.MaxUint32
	}
	if f <= 0 {
		return 0
	}
	return uint32(f)
}

// convScalar converts one defined word between kinds.
func convScalar(w word, from, to ScalarKind) word {
	if from == to {
		return w
	}
	switch to {
	case KBool:
		switch from {
		case KFloat:
			f := f32(w)
			return boolWord(f != 0) // NaN != 0 is true
		default:
			return boolWord(w.v != 0)
		}
	case KInt:
		switch from {
		case KFloat:
			return dw(uint32(ftoi(f32(w))))
		case KBool:
			return dw(w.v & 1)
		default:
			return w
		}
	case KUint:
		switch from {
		case KFloat:
			return dw(ftou(f32(w)))
		case KBool:
			return dw(w.v & 1)
		default:
			return w
		}
	case KFloat:
		switch from {
		case KInt:
			return fw(float32(int32(w.v)))
		case KUint:
			return fw(float32(w.v))
		case KBool:
			if w.v != 0 {
				return fw(1)
			}
			return fw(0)
		}
	}
	return w
}

type convMode uint8

const (
	convImplicit convMode = iota
	convExplicit          // C-style cast or constructor with one argument
)

// typeError is a static type error found at run time (the interpreter is
// dynamically typed); reported as Skip "compile error".
type typeError struct{ msg string }

func (e *typeError) Error() string { return e.msg }

func typeErrf(format string, a ...interface{}) error {
	return &typeError{fmt.Sprintf(format, a...)}
}

// convertible reports whether HLSL converts from -> to and how the words map.
// It returns the list of source word indices for each destination word (-1
// for "splat word 0").
func conversionPlan(from, to *Type, mode convMode) ([]int, error) {
	if sameType(from, to) {
		return nil, nil
	}
	if hasOpaque(from) || hasOpaque(to) {
		return nil, typeErrf("cannot convert %s to %s", from, to)
	}
	ident := func(n int) []int {
		p := make([]int, n)
		for i := range p {
			p[i] = i
		}
		return p
	}
	splat := func(n int) []int {
		p := make([]int, n)
		return p
	}
	switch from.Kind {
	case TScalar:
		switch to.Kind {
		case TScalar:
			return ident(1), nil
		case TVector, TMatrix:
			return splat(to.flat), nil
		case TArray, TStruct:
			if mode == convExplicit {
				return splat(to.flat), nil
			}
		}
	case TVector:
		switch to.Kind {
		case TScalar:
			// implicit truncation to the first component
			return ident(1), nil
		case TVector:
			if from.N == to.N {
				return ident(to.N), nil
			}
			if from.N == 1 {
				return splat(to.N), nil
			}
			if from.N > to.N {
				return ident(to.N), nil // truncation (warning in HLSL)
			}
		case TMatrix:
			if from.N == 1 {
				return splat(to.flat), nil
			}
			if from.N == to.flat {
				return ident(to.flat), nil
			}
		case TArray, TStruct:
			if mode == convExplicit && from.flat == to.flat {
				return ident(to.flat), nil
			}
		}
	case TMatrix:
		switch to.Kind {
		case TScalar:
			return ident(1), nil
		case TVector:
			if from.flat == to.N {
				return ident(to.N), nil
			}
		case TMatrix:
			if from.R == to.R && from.C == to.C {
				return ident(to.flat), nil
			}
			if from.R >= to.R && from.C >= to.C {
				// truncation to the upper-left sub-matrix
				p := make([]int, 0, to.flat)
				for r := 0; r < to.R; r++ {
					for c := 0; c < to.C; c++ {
						p = append(p, r*from.C+c)
					}
				}
				return p, nil
			}
		case TArray, TStruct:
			if mode == convExplicit && from.flat == to.flat {
				return ident(to.flat), nil
			}
		}
	case TArray, TStruct:
		if mode == convExplicit && from.flat == to.flat && to.Kind != TVoid {
			return ident(to.flat), nil
		}
	}
	return nil, typeErrf("cannot convert %s to %s", from, to)
}

// ---- integer helpers ----

func clz32(x uint32) int {
	n := 0
	if x == 0 {
		return 32
	}
	for x&0x80000000 == 0 {
		x <<= 1
		n++
	}
	return n
}

func roundHalfEven(f float32) float32 {
	return float32(math.RoundToEven(float64(f)))
}

// f32tof16 converts to IEEE half with round-to-nearest-even (D3D f32tof16
// specifies round-to-zero in the 11.0 functional spec text but hardware and
// DXIL implement RNE; see the package documentation).
func f32tof16bits(f float32) uint32 {
	b := math.Float32bits(f)
	sign := (b >> 16) & 0x8000
	exp := int((b>>23)&0xff) - 127
	man := b & 0x7fffff
	if exp == 128 {
		if man != 0 {
			return sign | 0x7e00 // NaN
		}
		return sign | 0x7c00
	}
	if exp > 15 {
		return sign | 0x7c00 // overflow -> inf (RNE)
	}
	if exp >= -14 {
		// normal half
		h := uint32(exp+15)<<10 | man>>13
		rem := man & 0x1fff
		if rem > 0x1000 || (rem == 0x1000 && h&1 == 1) {
			h++
		}
		return sign | h
	}
	if exp < -25 {
		return sign
	}
	// subnormal half
	man |= 0x800000
	shift := uint(-14 - exp + 13)
	h := man >> shift
	rem := man & ((1 << shift) - 1)
	half := uint32(1) << (shift - 1)
	if rem > half || (rem == half && h&1 == 1) {
		h++
	}
	return sign | h
}

func f16tof32bits(h uint32) float32 {
	sign := (h & 0x8000) << 16
	exp := (h >> 10) & 0x1f
	man := h & 0x3ff
	switch {
	case exp == 0:
		if man == 0 {
			return math.Float32frombits(sign)
		}
		f := float32(man) / 1024.0 / 16384.0 // man * 2^-24
		if sign != 0 {
			f = -f
		}
		return f
	case exp == 31:
		if man == 0 {
			return math.Float32frombits(sign | 0x7f800000)
		}
		return math.Float32frombits(sign | 0x7fc00000 | man<<13)
	}
	return math.Float32frombits(sign | (exp+112)<<23 | man<<13)
}
