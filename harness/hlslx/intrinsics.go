package hlslx

import (
	"math"
	"math/bits"
	"strings"
)

// knownUnimplemented are intrinsics the checker recognises (so that they are
// not reported as undeclared) but the interpreter skips.
var knownUnimplemented = map[string]bool{
	"ddx": true, "ddy": true, "ddx_coarse": true, "ddy_coarse": true, "ddx_fine": true, "ddy_fine": true, "fwidth": true,
	"clip": true, "abort": true, "printf": true, "errorf": true, "asdouble": true, "D3DCOLORtoUBYTE4": true, "msad4": true,
	"noise": true, "lit": true, "dst": true, "tex2D": true, "EvaluateAttributeAtSample": true, "EvaluateAttributeCentroid": true,
	"EvaluateAttributeSnapped": true, "GetRenderTargetSampleCount": true, "GetRenderTargetSamplePosition": true,
	"CheckAccessFullyMapped": true, "Process2DQuadTessFactorsAvg": true, "SetMeshOutputCounts": true, "DispatchMesh": true,
	"InterlockedAdd64": true, "InterlockedCompareExchangeFloatBitwise": true, "InterlockedCompareStoreFloatBitwise": true,
	"f16tof32_": true, "pack_u8": true, "pack_s8": true, "unpack_u8u32": true, "unpack_s8s32": true, "pack_clamp_u8": true, "pack_clamp_s8": true,
	"unpack_u8u16": true, "unpack_s8s16": true, "IsHelperLane": true,
}

var barrierNames = map[string]bool{
	"GroupMemoryBarrier": true, "GroupMemoryBarrierWithGroupSync": true, "DeviceMemoryBarrier": true,
	"DeviceMemoryBarrierWithGroupSync": true, "AllMemoryBarrier": true, "AllMemoryBarrierWithGroupSync": true,
}

var interlockedNames = map[string]bool{
	"InterlockedAdd": true, "InterlockedAnd": true, "InterlockedOr": true, "InterlockedXor": true, "InterlockedMin": true,
	"InterlockedMax": true, "InterlockedExchange": true, "InterlockedCompareExchange": true, "InterlockedCompareStore": true,
}

var implementedIntrinsics = map[string]bool{}

func init() {
	for _, n := range strings.Fields(`abs sign floor ceil trunc round frac fmod min max clamp lerp step smoothstep saturate
		sqrt rsqrt rcp pow exp exp2 log log2 log10 sin cos tan asin acos atan atan2 sinh cosh tanh mad fma dot cross length distance
		normalize transpose determinant mul any all isnan isinf isfinite countbits reversebits firstbithigh firstbitlow
		f16tof32 f32tof16 ldexp frexp modf sincos asint asuint asfloat select and or degrees radians reflect refract faceforward
		dot4add_u8packed dot4add_i8packed NonUniformResourceIndex`) {
		implementedIntrinsics[n] = true
	}
}

func isKnownIntrinsic(name string) bool {
	return implementedIntrinsics[name] || barrierNames[name] || interlockedNames[name] || knownUnimplemented[name] ||
		strings.HasPrefix(name, "Wave") || strings.HasPrefix(name, "Quad")
}

func isKnownConstant(name string) bool {
	for _, p := range []string{"RAY_FLAG_", "COMMITTED_", "CANDIDATE_", "HIT_KIND_"} {
		if strings.HasPrefix(name, p) {
			return true
		}
	}
	return false
}

// intrinsicStaticType is a best-effort static result type (nil = unknown),
// used only to classify ".member" references.
func intrinsicStaticType(name string, args []*Type) *Type {
	if len(args) == 0 {
		return nil
	}
	a := args[0]
	if a == nil || !a.isNumeric() {
		return nil
	}
	switch name {
	case "dot", "length", "distance", "determinant":
		return scalarT(KFloat)
	case "any", "all":
		return tBool
	case "transpose":
		if a.Kind == TMatrix {
			return matT(a.Scalar, a.C, a.R)
		}
	case "mul":
		if len(args) == 2 && args[1] != nil {
			if t, err := mulResultType(a.nonLit(), args[1].nonLit()); err == nil {
				return t
			}
		}
		return nil
	case "asuint", "countbits", "reversebits", "firstbithigh", "firstbitlow", "f32tof16":
		return a.nonLit().withScalar(KUint)
	case "asint", "sign":
		return a.nonLit().withScalar(KInt)
	case "asfloat", "f16tof32":
		return a.nonLit().withScalar(KFloat)
	case "isnan", "isinf", "isfinite":
		return a.nonLit().withScalar(KBool)
	case "min", "max", "clamp", "lerp", "mad", "step", "smoothstep", "pow", "fmod", "atan2", "ldexp", "select", "cross":
		// widest shape among the arguments
		t := a.nonLit()
		for _, b := range args[1:] {
			if b != nil && b.isNumeric() && b.flat > t.flat {
				t = b.nonLit().withScalar(t.Scalar)
			}
		}
		if name == "select" && len(args) == 3 && args[1] != nil {
			return args[1].nonLit()
		}
		return t
	}
	if implementedIntrinsics[name] {
		return a.nonLit()
	}
	return nil
}

func mulResultType(a, b *Type) (*Type, error) {
	k, _ := arithKind(a, b)
	switch {
	case a.Kind == TScalar:
		return b.withScalar(k), nil
	case b.Kind == TScalar:
		return a.withScalar(k), nil
	case a.Kind == TVector && b.Kind == TVector:
		if a.N != b.N {
			return nil, typeErrf("mul(%s, %s): vector lengths differ", a, b)
		}
		return scalarT(k), nil
	case a.Kind == TVector && b.Kind == TMatrix:
		if a.N != b.R {
			return nil, typeErrf("mul(%s, %s): the vector length must equal the matrix row count", a, b)
		}
		return vecT(k, b.C), nil
	case a.Kind == TMatrix && b.Kind == TVector:
		if a.C != b.N {
			return nil, typeErrf("mul(%s, %s): the matrix column count must equal the vector length", a, b)
		}
		return vecT(k, a.R), nil
	case a.Kind == TMatrix && b.Kind == TMatrix:
		if a.C != b.R {
			return nil, typeErrf("mul(%s, %s): inner dimensions differ", a, b)
		}
		return matT(k, a.R, b.C), nil
	}
	return nil, typeErrf("mul(%s, %s)", a, b)
}

// ---- helpers ----

// unify converts all arguments to one numeric type (usual arithmetic
// conversions over all of them; widest shape).  forceFloat converts to float.
func (m *machine) unify(name string, args []Value, pos Pos, forceFloat bool) ([]Value, *Type) {
	var t *Type
	for i, a := range args {
		if !a.T.isNumeric() {
			skipf("%s: compile error: %s argument %d has type %s", pos, name, i, a.T)
		}
		m.use(a, pos, name)
		if t == nil {
			t = a.T
			continue
		}
		k, lit := arithKind(t, a.T)
		if t.Scalar == KBool && a.T.Scalar == KBool {
			k = KBool
		}
		nt, err := commonShape(t, a.T, k)
		if err != nil {
			skipf("%s: compile error: %s: %v", pos, name, err)
		}
		if lit && nt.Kind == TScalar {
			if k == KFloat {
				nt = tLitFloat
			} else {
				nt = tLitInt
			}
		}
		t = nt
	}
	t = t.nonLit()
	if forceFloat {
		t = t.withScalar(KFloat)
	}
	out := make([]Value, len(args))
	for i, a := range args {
		out[i] = m.convert(a, t, convImplicit, pos)
	}
	return out, t
}

func mapF1(a Value, f func(float32) float32) Value {
	out := make([]word, len(a.W))
	for i, w := range a.W {
		out[i] = fw(f(f32(w)))
	}
	return Value{T: a.T, W: out}
}

func mapF2(a, b Value, f func(x, y float32) float32) Value {
	out := make([]word, len(a.W))
	for i := range a.W {
		out[i] = fw(f(f32(a.W[i]), f32(b.W[i])))
	}
	return Value{T: a.T, W: out}
}

func mapF3(a, b, c Value, f func(x, y, z float32) float32) Value {
	out := make([]word, len(a.W))
	for i := range a.W {
		out[i] = fw(f(f32(a.W[i]), f32(b.W[i]), f32(c.W[i])))
	}
	return Value{T: a.T, W: out}
}

func via64(f func(float64) float64) func(float32) float32 {
	return func(x float32) float32 { return float32(f(float64(x))) }
}

func fmin32(a, b float32) float32 {
	if a != a {
		return b
	}
	if b != b {
		return a
	}
	if a < b {
		return a
	}
	if b < a {
		return b
	}
	// equal (or +-0): prefer -0 for min
	if math.Signbit(float64(a)) {
		return a
	}
	return b
}

func fmax32(a, b float32) float32 {
	if a != a {
		return b
	}
	if b != b {
		return a
	}
	if a > b {
		return a
	}
	if b > a {
		return b
	}
	if math.Signbit(float64(a)) {
		return b
	}
	return a
}

func minmaxWord(k ScalarKind, a, b word, max bool) word {
	switch k {
	case KFloat:
		if max {
			return fw(fmax32(f32(a), f32(b)))
		}
		return fw(fmin32(f32(a), f32(b)))
	case KInt:
		if (int32(a.v) > int32(b.v)) == max {
			return a
		}
		return b
	default:
		if (a.v > b.v) == max {
			return a
		}
		return b
	}
}

func firstBitHighU(x uint32) uint32 {
	if x == 0 {
		return 0xFFFFFFFF
	}
	return uint32(31 - bits.LeadingZeros32(x))
}

func (m *machine) wantArgs(name string, args []Value, pos Pos, n ...int) {
	for _, k := range n {
		if len(args) == k {
			return
		}
	}
	skipf("%s: compile error: %s called with %d arguments", pos, name, len(args))
}

func dotWords(k ScalarKind, a, b []word) word {
	if k == KFloat {
		var s float32
		for i := range a {
			p := float32(f32(a[i]) * f32(b[i]))
			if i == 0 {
				s = p
			} else {
				s = float32(s + p)
			}
		}
		return fw(s)
	}
	var s uint32
	for i := range a {
		s += a[i].v * b[i].v
	}
	return dw(s)
}

// ---- the dispatcher ----

func (m *machine) callIntrinsic(x *CallExpr) Value {
	name := x.Fun.Name
	pos := x.Pos
	if barrierNames[name] {
		if len(x.Args) != 0 {
			skipf("%s: compile error: %s takes no arguments", pos, name)
		}
		return Value{T: tVoid}
	}
	if interlockedNames[name] {
		return m.interlockedGlobal(x)
	}
	switch name {
	case "frexp", "modf", "sincos":
		return m.outIntrinsic(x)
	}
	if !implementedIntrinsics[name] {
		if isKnownIntrinsic(name) {
			skipf("%s: intrinsic '%s' not supported", pos, name)
		}
		skipf("%s: compile error: call to undeclared function '%s'", pos, name)
	}
	args := make([]Value, len(x.Args))
	for i, a := range x.Args {
		args[i] = m.eval(a)
	}
	return m.intrinsic(name, args, pos)
}

func (m *machine) intrinsic(name string, args []Value, pos Pos) Value {
	switch name {
	case "NonUniformResourceIndex":
		m.wantArgs(name, args, pos, 1)
		return args[0]
	case "abs":
		m.wantArgs(name, args, pos, 1)
		u, t := m.unify(name, args, pos, false)
		a := u[0]
		out := make([]word, len(a.W))
		for i, w := range a.W {
			switch t.Scalar {
			case KFloat:
				out[i] = dw(w.v &^ 0x80000000)
			case KInt:
				if int32(w.v) < 0 {
					out[i] = dw(-w.v) // abs(INT_MIN) = INT_MIN (imax(x, -x))
				} else {
					out[i] = w
				}
			default:
				out[i] = w
			}
		}
		return Value{T: t, W: out}
	case "sign":
		m.wantArgs(name, args, pos, 1)
		u, t := m.unify(name, args, pos, false)
		out := make([]word, len(u[0].W))
		for i, w := range u[0].W {
			var s int32
			switch t.Scalar {
			case KFloat:
				f := f32(w)
				if f > 0 {
					s = 1
				} else if f < 0 {
					s = -1
				}
			case KInt:
				if int32(w.v) > 0 {
					s = 1
				} else if int32(w.v) < 0 {
					s = -1
				}
			default:
				if w.v != 0 {
					s = 1
				}
			}
			out[i] = dw(uint32(s))
		}
		return Value{T: t.withScalar(KInt), W: out}
	case "floor", "ceil", "trunc", "round", "frac", "saturate", "sqrt", "rsqrt", "rcp", "exp", "exp2", "log", "log2", "log10",
		"sin", "cos", "tan", "asin", "acos", "atan", "sinh", "cosh", "tanh", "degrees", "radians":
		m.wantArgs(name, args, pos, 1)
		u, _ := m.unify(name, args, pos, true)
		return mapF1(u[0], unaryFloatFn(name))
	case "isnan", "isinf", "isfinite":
		m.wantArgs(name, args, pos, 1)
		u, t := m.unify(name, args, pos, true)
		out := make([]word, len(u[0].W))
		for i, w := range u[0].W {
			f := float64(f32(w))
			switch name {
			case "isnan":
				out[i] = boolWord(math.IsNaN(f))
			case "isinf":
				out[i] = boolWord(math.IsInf(f, 0))
			default:
				out[i] = boolWord(!math.IsNaN(f) && !math.IsInf(f, 0))
			}
		}
		return Value{T: t.withScalar(KBool), W: out}
	case "min", "max":
		m.wantArgs(name, args, pos, 2)
		u, t := m.unify(name, args, pos, false)
		out := make([]word, t.flat)
		for i := range out {
			out[i] = minmaxWord(t.Scalar, u[0].W[i], u[1].W[i], name == "max")
		}
		return Value{T: t, W: out}
	case "clamp":
		// clamp(x, lo, hi) = min(max(x, lo), hi), also when lo > hi
		m.wantArgs(name, args, pos, 3)
		u, t := m.unify(name, args, pos, false)
		out := make([]word, t.flat)
		for i := range out {
			out[i] = minmaxWord(t.Scalar, minmaxWord(t.Scalar, u[0].W[i], u[1].W[i], true), u[2].W[i], false)
		}
		return Value{T: t, W: out}
	case "pow", "fmod", "atan2", "step", "ldexp":
		m.wantArgs(name, args, pos, 2)
		u, _ := m.unify(name, args, pos, true)
		return mapF2(u[0], u[1], binaryFloatFn(name))
	case "lerp", "smoothstep":
		m.wantArgs(name, args, pos, 3)
		u, _ := m.unify(name, args, pos, true)
		if name == "lerp" {
			return mapF3(u[0], u[1], u[2], func(a, b, s float32) float32 {
				return float32(a + float32(s*float32(b-a)))
			})
		}
		return mapF3(u[0], u[1], u[2], func(lo, hi, v float32) float32 {
			t := float32(float32(v-lo) / float32(hi-lo))
			t = fmin32(fmax32(t, 0), 1)
			return float32(float32(t*t) * float32(3-float32(2*t)))
		})
	case "mad", "fma":
		m.wantArgs(name, args, pos, 3)
		u, t := m.unify(name, args, pos, false)
		out := make([]word, t.flat)
		for i := range out {
			a, b, c := u[0].W[i], u[1].W[i], u[2].W[i]
			if t.Scalar == KFloat {
				out[i] = fw(float32(float32(f32(a)*f32(b)) + f32(c)))
			} else {
				out[i] = dw(a.v*b.v + c.v)
			}
		}
		if t.Scalar == KBool {
			skipf("%s: compile error: %s on bool", pos, name)
		}
		return Value{T: t, W: out}
	case "dot":
		m.wantArgs(name, args, pos, 2)
		u, t := m.unify(name, args, pos, false)
		if t.Kind == TMatrix || t.Scalar == KBool {
			skipf("%s: compile error: dot on %s", pos, t)
		}
		return Value{T: scalarT(t.Scalar), W: []word{dotWords(t.Scalar, u[0].W, u[1].W)}}
	case "cross":
		m.wantArgs(name, args, pos, 2)
		u, t := m.unify(name, args, pos, true)
		if t.Kind != TVector || t.N != 3 {
			skipf("%s: compile error: cross on %s", pos, t)
		}
		a := [3]float32{f32(u[0].W[0]), f32(u[0].W[1]), f32(u[0].W[2])}
		b := [3]float32{f32(u[1].W[0]), f32(u[1].W[1]), f32(u[1].W[2])}
		c := func(i, j int) word { return fw(float32(float32(a[i]*b[j]) - float32(a[j]*b[i]))) }
		return Value{T: t, W: []word{c(1, 2), c(2, 0), c(0, 1)}}
	case "length", "distance", "normalize":
		var v Value
		var t *Type
		if name == "distance" {
			m.wantArgs(name, args, pos, 2)
			u, tt := m.unify(name, args, pos, true)
			v, t = mapF2(u[0], u[1], func(a, b float32) float32 { return float32(a - b) }), tt
		} else {
			m.wantArgs(name, args, pos, 1)
			u, tt := m.unify(name, args, pos, true)
			v, t = u[0], tt
		}
		if t.Kind == TMatrix {
			skipf("%s: compile error: %s on %s", pos, name, t)
		}
		d := f32(dotWords(KFloat, v.W, v.W))
		l := float32(math.Sqrt(float64(d)))
		if name == "normalize" {
			return mapF1(v, func(c float32) float32 { return float32(c / l) })
		}
		return floatValue(l)
	case "reflect":
		m.wantArgs(name, args, pos, 2)
		u, _ := m.unify(name, args, pos, true)
		d := f32(dotWords(KFloat, u[0].W, u[1].W))
		return mapF2(u[0], u[1], func(i, n float32) float32 { return float32(i - float32(float32(2*d)*n)) })
	case "faceforward":
		m.wantArgs(name, args, pos, 3)
		u, _ := m.unify(name, args, pos, true)
		d := f32(dotWords(KFloat, u[1].W, u[2].W))
		return mapF1(u[0], func(n float32) float32 {
			if d < 0 {
				return n
			}
			return -n
		})
	case "refract":
		skipf("%s: intrinsic 'refract' not supported", pos)
	case "transpose":
		m.wantArgs(name, args, pos, 1)
		a := args[0]
		if a.T.Kind != TMatrix {
			skipf("%s: compile error: transpose of %s", pos, a.T)
		}
		rt := matT(a.T.Scalar, a.T.C, a.T.R)
		out := make([]word, rt.flat)
		for r := 0; r < a.T.R; r++ {
			for c := 0; c < a.T.C; c++ {
				out[c*a.T.R+r] = a.W[r*a.T.C+c]
			}
		}
		return Value{T: rt, W: out}
	case "determinant":
		m.wantArgs(name, args, pos, 1)
		a := args[0]
		if a.T.Kind != TMatrix || a.T.R != a.T.C {
			skipf("%s: compile error: determinant of %s", pos, a.T)
		}
		m.use(a, pos, name)
		a = m.convert(a, a.T.withScalar(KFloat), convImplicit, pos)
		n := a.T.R
		e := func(r, c int) float32 { return f32(a.W[r*n+c]) }
		return floatValue(det(n, e))
	case "mul":
		m.wantArgs(name, args, pos, 2)
		return m.mul(args[0], args[1], pos)
	case "any", "all":
		m.wantArgs(name, args, pos, 1)
		a := args[0]
		if !a.T.isNumeric() {
			skipf("%s: compile error: %s of %s", pos, name, a.T)
		}
		m.use(a, pos, name)
		res := name == "all"
		for _, w := range a.W {
			nz := w.v != 0
			if a.T.Scalar == KFloat {
				nz = f32(w) != 0
			}
			if name == "any" && nz {
				res = true
			}
			if name == "all" && !nz {
				res = false
			}
		}
		return boolValue(res)
	case "countbits", "reversebits", "firstbitlow", "firstbithigh":
		m.wantArgs(name, args, pos, 1)
		a := args[0]
		if !a.T.isNumeric() || a.T.Scalar == KFloat || a.T.Kind == TMatrix {
			skipf("%s: compile error: %s of %s", pos, name, a.T)
		}
		m.use(a, pos, name)
		signed := a.T.Scalar == KInt
		out := make([]word, len(a.W))
		for i, w := range a.W {
			switch name {
			case "countbits":
				out[i] = dw(uint32(bits.OnesCount32(w.v)))
			case "reversebits":
				out[i] = dw(bits.Reverse32(w.v))
			case "firstbitlow":
				if w.v == 0 {
					out[i] = dw(0xFFFFFFFF)
				} else {
					out[i] = dw(uint32(bits.TrailingZeros32(w.v)))
				}
			case "firstbithigh":
				v := w.v
				if signed && int32(v) < 0 {
					v = ^v
				}
				out[i] = dw(firstBitHighU(v))
			}
		}
		return Value{T: a.T.nonLit().withScalar(KUint), W: out}
	case "f16tof32":
		m.wantArgs(name, args, pos, 1)
		a := args[0]
		if !a.T.isNumeric() || a.T.Scalar == KFloat {
			skipf("%s: compile error: f16tof32 of %s", pos, a.T)
		}
		m.use(a, pos, name)
		out := make([]word, len(a.W))
		for i, w := range a.W {
			out[i] = fw(f16tof32bits(w.v & 0xFFFF))
		}
		return Value{T: a.T.nonLit().withScalar(KFloat), W: out}
	case "f32tof16":
		m.wantArgs(name, args, pos, 1)
		u, t := m.unify(name, args, pos, true)
		out := make([]word, len(u[0].W))
		for i, w := range u[0].W {
			out[i] = dw(f32tof16bits(f32(w)))
		}
		return Value{T: t.withScalar(KUint), W: out}
	case "asint", "asuint", "asfloat":
		m.wantArgs(name, args, pos, 1)
		a := args[0]
		if !a.T.isNumeric() {
			skipf("%s: compile error: %s of %s", pos, name, a.T)
		}
		if a.T.Scalar == KBool {
			skipf("%s: compile error: %s of %s", pos, name, a.T)
		}
		k := KInt
		switch name {
		case "asuint":
			k = KUint
		case "asfloat":
			k = KFloat
		}
		// a bit-cast is pure data movement: definedness travels with the bits
		return Value{T: a.T.nonLit().withScalar(k), W: a.W}
	case "select":
		m.wantArgs(name, args, pos, 3)
		return m.selectValues(args[0], args[1], args[2], pos)
	case "and", "or":
		m.wantArgs(name, args, pos, 2)
		op := "&&"
		if name == "or" {
			op = "||"
		}
		return m.binary(op, args[0], args[1], pos)
	case "dot4add_u8packed", "dot4add_i8packed":
		m.wantArgs(name, args, pos, 3)
		for i, a := range args {
			if a.T.Kind != TScalar || a.T.Scalar == KFloat {
				skipf("%s: compile error: %s argument %d of type %s", pos, name, i, a.T)
			}
			m.use(a, pos, name)
		}
		a, b, acc := args[0].W[0].v, args[1].W[0].v, args[2].W[0].v
		for i := uint(0); i < 4; i++ {
			if name == "dot4add_u8packed" {
				acc += ((a >> (8 * i)) & 0xFF) * ((b >> (8 * i)) & 0xFF)
			} else {
				acc += uint32(int32(int8(a>>(8*i))) * int32(int8(b>>(8*i))))
			}
		}
		if name == "dot4add_u8packed" {
			return uintValue(acc)
		}
		return intValue(int32(acc))
	}
	skipf("%s: intrinsic '%s' not supported", pos, name)
	return Value{}
}

func (m *machine) selectValues(c, a, b Value, pos Pos) Value {
	if !c.T.isNumeric() {
		skipf("%s: compile error: select condition of type %s", pos, c.T)
	}
	m.use(c, pos, "select")
	if !a.T.isNumeric() || !b.T.isNumeric() {
		skipf("%s: select on %s / %s not supported", pos, a.T, b.T)
	}
	var k ScalarKind
	if a.T.Scalar == KBool && b.T.Scalar == KBool {
		k = KBool
	} else {
		k, _ = arithKind(a.T, b.T)
	}
	rt, err := commonShape(a.T, b.T, k)
	if err == nil && c.T.Kind != TScalar {
		rt, err = commonShape(rt, c.T, k)
	}
	if err != nil {
		skipf("%s: compile error: select: %v", pos, err)
	}
	ca := m.convert(a, rt, convImplicit, pos)
	cb := m.convert(b, rt, convImplicit, pos)
	cc := m.convert(c, c.T.nonLit().withScalar(KBool), convImplicit, pos)
	out := make([]word, rt.flat)
	for i := range out {
		ci := 0
		if len(cc.W) > 1 {
			ci = i
		}
		if cc.W[ci].v != 0 {
			out[i] = ca.W[i]
		} else {
			out[i] = cb.W[i]
		}
	}
	return Value{T: rt, W: out}
}

func unaryFloatFn(name string) func(float32) float32 {
	switch name {
	case "floor":
		return via64(math.Floor)
	case "ceil":
		return via64(math.Ceil)
	case "trunc":
		return via64(math.Trunc)
	case "round":
		return roundHalfEven
	case "frac":
		return func(x float32) float32 { return float32(x - float32(math.Floor(float64(x)))) }
	case "saturate":
		return func(x float32) float32 { return fmin32(fmax32(x, 0), 1) }
	case "sqrt":
		return via64(math.Sqrt)
	case "rsqrt":
		return func(x float32) float32 { return float32(1 / math.Sqrt(float64(x))) }
	case "rcp":
		return func(x float32) float32 { return float32(1 / x) }
	case "exp":
		return via64(math.Exp)
	case "exp2":
		return via64(math.Exp2)
	case "log":
		return via64(math.Log)
	case "log2":
		return via64(math.Log2)
	case "log10":
		return via64(math.Log10)
	case "sin":
		return via64(math.Sin)
	case "cos":
		return via64(math.Cos)
	case "tan":
		return via64(math.Tan)
	case "asin":
		return via64(math.Asin)
	case "acos":
		return via64(math.Acos)
	case "atan":
		return via64(math.Atan)
	case "sinh":
		return via64(math.Sinh)
	case "cosh":
		return via64(math.Cosh)
	case "tanh":
		return via64(math.Tanh)
	case "degrees":
		return func(x float32) float32 { return float32(x * float32(180/math.Pi)) }
	case "radians":
		return func(x float32) float32 { return float32(x * float32(math.Pi/180)) }
	}
	return nil
}

func binaryFloatFn(name string) func(a, b float32) float32 {
	switch name {
	case "pow":
		return func(x, y float32) float32 {
			if x < 0 {
				return float32(math.NaN()) // exp2(y*log2(x)) with log2 of a negative number
			}
			return float32(math.Pow(float64(x), float64(y)))
		}
	case "fmod":
		return fmod32
	case "atan2":
		return func(y, x float32) float32 { return float32(math.Atan2(float64(y), float64(x))) }
	case "step":
		return func(y, x float32) float32 {
			if x >= y {
				return 1
			}
			return 0
		}
	case "ldexp":
		// HLSL defines ldexp(x, e) as x * 2^e
		return func(x, e float32) float32 { return float32(x * float32(math.Exp2(float64(e)))) }
	}
	return nil
}

// det computes a determinant by cofactor expansion along the first row in
// float32.
func det(n int, e func(r, c int) float32) float32 {
	switch n {
	case 1:
		return e(0, 0)
	case 2:
		return float32(float32(e(0, 0)*e(1, 1)) - float32(e(0, 1)*e(1, 0)))
	}
	var s float32
	for c := 0; c < n; c++ {
		minor := det(n-1, func(r, cc int) float32 {
			if cc >= c {
				cc++
			}
			return e(r+1, cc)
		})
		t := float32(e(0, c) * minor)
		if c%2 == 1 {
			t = -t
		}
		if c == 0 {
			s = t
		} else {
			s = float32(s + t)
		}
	}
	return s
}

// mul implements the HLSL mul intrinsic: a vector on the left is a row
// vector, a vector on the right a column vector; matrices are HLSL RxC.
func (m *machine) mul(a, b Value, pos Pos) Value {
	if !a.T.isNumeric() || !b.T.isNumeric() {
		skipf("%s: compile error: mul(%s, %s)", pos, a.T, b.T)
	}
	m.use(a, pos, "mul")
	m.use(b, pos, "mul")
	rt, err := mulResultType(a.T.nonLit(), b.T.nonLit())
	if err != nil {
		skipf("%s: compile error: %v", pos, err)
	}
	k := rt.Scalar
	if k == KBool {
		skipf("%s: compile error: mul on bool", pos)
	}
	a = m.convert(a, a.T.nonLit().withScalar(k), convImplicit, pos)
	b = m.convert(b, b.T.nonLit().withScalar(k), convImplicit, pos)
	mulw := func(x, y word) word {
		if k == KFloat {
			return fw(float32(f32(x) * f32(y)))
		}
		return dw(x.v * y.v)
	}
	switch {
	case a.T.Kind == TScalar:
		out := make([]word, len(b.W))
		for i := range b.W {
			out[i] = mulw(a.W[0], b.W[i])
		}
		return Value{T: rt, W: out}
	case b.T.Kind == TScalar:
		out := make([]word, len(a.W))
		for i := range a.W {
			out[i] = mulw(a.W[i], b.W[0])
		}
		return Value{T: rt, W: out}
	case a.T.Kind == TVector && b.T.Kind == TVector:
		return Value{T: rt, W: []word{dotWords(k, a.W, b.W)}}
	}
	// general matrix product: A is RxK, B is KxC
	var R, K, C int
	switch {
	case a.T.Kind == TVector:
		R, K, C = 1, a.T.N, b.T.C
	case b.T.Kind == TVector:
		R, K, C = a.T.R, a.T.C, 1
	default:
		R, K, C = a.T.R, a.T.C, b.T.C
	}
	out := make([]word, R*C)
	row := make([]word, K)
	col := make([]word, K)
	for r := 0; r < R; r++ {
		for c := 0; c < C; c++ {
			for i := 0; i < K; i++ {
				row[i] = a.W[r*K+i]
				col[i] = b.W[i*C+c]
			}
			out[r*C+c] = dotWords(k, row, col)
		}
	}
	return Value{T: rt, W: out}
}

// outIntrinsic handles intrinsics with out parameters.
func (m *machine) outIntrinsic(x *CallExpr) Value {
	name := x.Fun.Name
	pos := x.Pos
	switch name {
	case "frexp", "modf":
		if len(x.Args) != 2 {
			skipf("%s: compile error: %s called with %d arguments", pos, name, len(x.Args))
		}
		a := m.eval(x.Args[0])
		u, t := m.unify(name, []Value{a}, pos, true)
		p := m.outPlace(x.Args[1], pos, name)
		res := make([]word, t.flat)
		second := make([]word, t.flat)
		for i, w := range u[0].W {
			f := f32(w)
			if name == "modf" {
				ip := float32(math.Trunc(float64(f)))
				fr := float32(f - ip)
				if math.IsInf(float64(f), 0) {
					fr = float32(math.Copysign(0, float64(f)))
				}
				res[i], second[i] = fw(fr), fw(ip)
			} else {
				if f == 0 || f != f || math.IsInf(float64(f), 0) {
					res[i], second[i] = fw(f), fw(0)
					if f != 0 {
						// frexp of NaN/Inf: result unspecified; keep the input and exponent 0
						res[i] = fw(f)
					}
				} else {
					mant, e := math.Frexp(float64(f))
					res[i], second[i] = fw(float32(mant)), fw(float32(e))
				}
			}
		}
		if p.T.flat != t.flat {
			skipf("%s: compile error: %s output argument %s does not match %s", pos, name, p.T, t)
		}
		m.storeOut(p, Value{T: t, W: second}, pos)
		return Value{T: t, W: res}
	case "sincos":
		if len(x.Args) != 3 {
			skipf("%s: compile error: sincos called with %d arguments", pos, len(x.Args))
		}
		a := m.eval(x.Args[0])
		u, t := m.unify(name, []Value{a}, pos, true)
		ps := m.outPlace(x.Args[1], pos, name)
		pc := m.outPlace(x.Args[2], pos, name)
		if ps.T.flat != t.flat || pc.T.flat != t.flat {
			skipf("%s: compile error: sincos output arguments do not match %s", pos, t)
		}
		m.storeOut(ps, mapF1(u[0], via64(math.Sin)), pos)
		m.storeOut(pc, mapF1(u[0], via64(math.Cos)), pos)
		return Value{T: tVoid}
	}
	skipf("%s: intrinsic '%s' not supported", pos, name)
	return Value{}
}

// interlockedGlobal implements InterlockedXxx(dest, ...) on groupshared (or
// any interpreter-memory) integer scalars.
func (m *machine) interlockedGlobal(x *CallExpr) Value {
	name := x.Fun.Name
	pos := x.Pos
	n := len(x.Args)
	ok := false
	switch name {
	case "InterlockedCompareExchange":
		ok = n == 4
	case "InterlockedCompareStore", "InterlockedExchange":
		ok = n == 3
	default:
		ok = n == 2 || n == 3
	}
	if !ok {
		skipf("%s: compile error: %s called with %d arguments", pos, name, n)
	}
	if !isLvalueSyntax(x.Args[0]) {
		skipf("%s: compile error: %s destination is not an l-value", pos, name)
	}
	dp := m.evalPlace(x.Args[0])
	if dp.res != nil || dp.cb != nil {
		skipf("%s: %s on a resource element (texture/structured buffer) not supported", pos, name)
	}
	if dp.ro {
		skipf("%s: compile error: %s destination is %s", pos, name, dp.why)
	}
	if dp.T.Kind != TScalar || (dp.T.Scalar != KInt && dp.T.Scalar != KUint) {
		skipf("%s: compile error: %s destination of type %s", pos, name, dp.T)
	}
	signed := dp.T.Scalar == KInt
	oldv := dp.load(m, pos)
	m.use(oldv, pos, name+" destination")
	old := oldv.W[0].v
	switch name {
	case "InterlockedCompareExchange", "InterlockedCompareStore":
		cmp, _ := m.intArg(m.eval(x.Args[1]), pos, name)
		val, _ := m.intArg(m.eval(x.Args[2]), pos, name)
		var outp *place
		if n == 4 {
			p := m.outPlace(x.Args[3], pos, name)
			outp = &p
		}
		if old == cmp {
			dp.store(m, Value{T: dp.T, W: []word{dw(val)}}, pos)
		}
		if outp != nil {
			m.storeOut(*outp, Value{T: dp.T, W: []word{dw(old)}}, pos)
		}
		return Value{T: tVoid}
	}
	val, _ := m.intArg(m.eval(x.Args[1]), pos, name)
	var outp *place
	if n == 3 {
		p := m.outPlace(x.Args[2], pos, name)
		outp = &p
	}
	nv, _ := atomicOp(name, signed, old, val)
	dp.store(m, Value{T: dp.T, W: []word{dw(nv)}}, pos)
	if outp != nil {
		m.storeOut(*outp, Value{T: dp.T, W: []word{dw(old)}}, pos)
	}
	return Value{T: tVoid}
}
