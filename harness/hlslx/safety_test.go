package hlslx

import (
	"strings"
	"testing"

	"github.com/gogpu/naga/hlsl"

	"verif/harness/xrt"
)

// The executor as a safety oracle: what naga's bounds-check and
// zero-initialisation options buy becomes visible as trap / out-of-bounds
// trace entries when they are switched off.

func TestSafety_LocalArrayIndex(t *testing.T) {
	wgsl := `
@group(0) @binding(0) var<storage, read_write> o: array<i32, 4>;
@group(0) @binding(1) var<storage, read> idx: u32;
@compute @workgroup_size(1)
fn main() {
  var a = array<i32, 4>(1, 2, 3, 4);
  a[idx] = 7;                       // idx = 9: out of range
  o[0] = a[0] + a[1] + a[2] + a[3];
}`
	bufs := func() map[string][]byte { return map[string][]byte{"u0.0": fill(16, 0), "t1.0": u32s(9)} }
	// RestrictIndexing on: the index is clamped, some element becomes 7
	src := compileWGSL(t, wgsl, hlsl.DefaultOptions())
	b := bufs()
	out := RunWith(src, xrt.Input{Entry: "main", Buffers: b}, lenient)
	if !out.OK() {
		t.Fatalf("restrict on: %+v\n%s", out, src)
	}
	if s := getI32(b["u0.0"], 0); s != 13 && s != 15 && s != 14 && s != 16 {
		t.Errorf("sum %d is not 10 - a[k] + 7 for any k", s)
	}
	// RestrictIndexing off: HLSL leaves the access undefined
	o := hlsl.DefaultOptions()
	o.RestrictIndexing = false
	src = compileWGSL(t, wgsl, o)
	out = RunWith(src, xrt.Input{Entry: "main", Buffers: bufs()}, lenient)
	if !strings.Contains(out.Trap, "out-of-range index 9 into array int[4]") {
		t.Errorf("restrict off: want trap, got %+v\n%s", out, src)
	}
}

func TestSafety_StorageBufferIndex(t *testing.T) {
	wgsl := `
@group(0) @binding(0) var<storage, read_write> o: array<u32>;
@group(0) @binding(1) var<storage, read> idx: u32;
@compute @workgroup_size(1)
fn main() { o[idx] = 7u; }`
	check := func(restrict bool) (xrt.Outcome, []byte, string) {
		op := hlsl.DefaultOptions()
		op.RestrictIndexing = restrict
		src := compileWGSL(t, wgsl, op)
		b := map[string][]byte{"u0.0": fill(16, 0), "t1.0": u32s(100)}
		out := RunWith(src, xrt.Input{Entry: "main", Buffers: b, TraceAccesses: true}, lenient)
		return out, b["u0.0"], src
	}
	oob := func(out xrt.Outcome) int {
		n := 0
		for _, a := range out.Accesses {
			if a.Slot == "u0.0" && a.Offset+a.Size > 16 {
				n++
			}
		}
		return n
	}
	out, buf, src := check(true)
	if !out.OK() {
		t.Errorf("restrict on: %+v\n%s", out, src)
	}
	if oob(out) != 0 {
		// naga does not clamp indices into storage buffers even with
		// RestrictIndexing: it relies on D3D dropping the store
		t.Logf("restrict on: naga relies on D3D's defined out-of-bounds behaviour (trace: %+v)", out.Accesses)
	}
	_ = buf
	out, buf, src = check(false)
	// D3D drops the store: no trap, but the trace shows the access at byte 400
	if !out.OK() || oob(out) != 1 {
		t.Errorf("restrict off: want one out-of-bounds access in the trace, got %+v\n%s", out, src)
	}
	for i := 0; i < 4; i++ {
		if getU32(buf, i) != 0 {
			t.Errorf("restrict off: buffer modified: %v", buf)
		}
	}
}

func TestSafety_WorkgroupZeroInit(t *testing.T) {
	wgsl := `
@group(0) @binding(0) var<storage, read_write> o: array<u32, 2>;
var<workgroup> w: array<u32, 4>;
@compute @workgroup_size(1)
fn main() { w[1] = 5u; o[0] = w[1] + w[2]; }`
	src := compileWGSL(t, wgsl, hlsl.DefaultOptions())
	b := map[string][]byte{"u0.0": fill(8, 0xCD)}
	out := RunWith(src, xrt.Input{Entry: "main", Buffers: b}, lenient)
	if !out.OK() || getU32(b["u0.0"], 0) != 5 {
		t.Errorf("zero-init on: %+v %v\n%s", out, b, src)
	}
	op := hlsl.DefaultOptions()
	op.ZeroInitializeWorkgroupMemory = false
	src = compileWGSL(t, wgsl, op)
	out = RunWith(src, xrt.Input{Entry: "main", Buffers: map[string][]byte{"u0.0": fill(8, 0xCD)}}, lenient)
	if !strings.Contains(out.Trap, "uninitialised") {
		t.Errorf("zero-init off: want trap, got %+v\n%s", out, src)
	}
}

func TestAccessTrace(t *testing.T) {
	src := `
cbuffer c : register(b2) { float4 a; row_major float2x3 m; }
RWByteAddressBuffer o : register(u0, space1);
ByteAddressBuffer i : register(t1);
[numthreads(1,1,1)]
void main() {
    uint2 v = i.Load2(8);
    o.Store3(4, uint3(v, asuint(a.z)));
    float3 r = m[1];
    uint orig;
    o.InterlockedOr(0, asuint(r.y) & 1u, orig);
}`
	b := map[string][]byte{"u0.1": fill(16, 0), "t1.0": u32s(1, 2, 3, 4), "b2.0": fill(48, 0)}
	out := Run(src, xrt.Input{Entry: "main", Buffers: b, TraceAccesses: true})
	if !out.OK() {
		t.Fatal(out)
	}
	want := []xrt.Access{
		{Slot: "t1.0", Offset: 8, Size: 8},
		{Slot: "b2.0", Offset: 8, Size: 4},
		{Slot: "u0.1", Offset: 4, Size: 12, Write: true},
		{Slot: "b2.0", Offset: 32, Size: 12},
		{Slot: "u0.1", Offset: 0, Size: 4},
		{Slot: "u0.1", Offset: 0, Size: 4, Write: true},
	}
	if len(out.Accesses) != len(want) {
		t.Fatalf("trace %+v", out.Accesses)
	}
	for k := range want {
		if out.Accesses[k] != want[k] {
			t.Errorf("access %d = %+v, want %+v", k, out.Accesses[k], want[k])
		}
	}
	out = Run(src, xrt.Input{Entry: "main", Buffers: b})
	if out.Accesses != nil {
		t.Errorf("trace without TraceAccesses: %+v", out.Accesses)
	}
	if out.Steps == 0 {
		t.Errorf("no steps counted")
	}
}
