package hlslx

import (
	"bytes"
	"math"
	"testing"

	"github.com/gogpu/naga/hlsl"

	"verif/harness/xrt"
)

// End-to-end tests: WGSL -> real naga -> HLSL text -> hlslx.  All expected
// values are computed by hand from WGSL semantics (the arithmetic is shown in
// the comments of each shader).

type optVariant struct {
	name string
	mk   func() *hlsl.Options
}

var optVariants = []optVariant{
	{"default", func() *hlsl.Options { return hlsl.DefaultOptions() }},
	{"sm50", func() *hlsl.Options { o := hlsl.DefaultOptions(); o.ShaderModel = hlsl.ShaderModel5_0; return o }},
	{"sm60", func() *hlsl.Options { o := hlsl.DefaultOptions(); o.ShaderModel = hlsl.ShaderModel6_0; return o }},
	{"sm66", func() *hlsl.Options { o := hlsl.DefaultOptions(); o.ShaderModel = hlsl.ShaderModel6_6; return o }},
	{"norestrict", func() *hlsl.Options { o := hlsl.DefaultOptions(); o.RestrictIndexing = false; return o }},
	{"nozeroinit", func() *hlsl.Options { o := hlsl.DefaultOptions(); o.ZeroInitializeWorkgroupMemory = false; return o }},
	{"noloopbound", func() *hlsl.Options { o := hlsl.DefaultOptions(); o.ForceLoopBounding = false; return o }},
	{"special", func() *hlsl.Options {
		o := hlsl.DefaultOptions()
		o.SpecialConstantsBinding = &hlsl.BindTarget{Space: 7, Register: 3}
		return o
	}},
}

type e2eCase struct {
	name  string
	wgsl  string
	entry string
	bufs  map[string][]byte // initial contents
	want  map[string][]byte // expected final contents (compared over len(want[slot]))
	lid   [3]uint32
	wid   [3]uint32
	nwg   [3]uint32
	// skipVariants lists option variants under which the program's behaviour
	// legitimately differs (e.g. it relies on workgroup zero-initialisation).
	skipVariants map[string]bool
	// check is an optional extra check of the final buffers.
	check func(t *testing.T, bufs map[string][]byte)
}

func cat(bs ...[]byte) []byte { return bytes.Join(bs, nil) }

func zeros(n int) []byte { return make([]byte, n) }

func fill(n int, v byte) []byte { return bytes.Repeat([]byte{v}, n) }

func cloneBufs(m map[string][]byte) map[string][]byte {
	out := map[string][]byte{}
	for k, v := range m {
		out[k] = append([]byte(nil), v...)
	}
	return out
}

func diffWords(t *testing.T, slot string, got, want []byte) {
	t.Helper()
	if len(got) < len(want) {
		t.Errorf("%s: buffer has %d bytes, want at least %d", slot, len(got), len(want))
		return
	}
	for i := 0; i+4 <= len(want); i += 4 {
		g, w := getU32(got, i/4), getU32(want, i/4)
		if g != w {
			t.Errorf("%s @%d: got 0x%08x (i32 %d, f32 %v), want 0x%08x (i32 %d, f32 %v)", slot, i, g, int32(g), math.Float32frombits(g), w, int32(w), math.Float32frombits(w))
		}
	}
}

func runE2E(t *testing.T, c e2eCase) {
	t.Helper()
	for _, ov := range optVariants {
		if c.skipVariants[ov.name] {
			continue
		}
		ov := ov
		t.Run(c.name+"/"+ov.name, func(t *testing.T) {
			src := compileWGSL(t, c.wgsl, ov.mk())
			entry := c.entry
			if entry == "" {
				entry = "main"
			}
			in := xrt.Input{Entry: entry, Buffers: cloneBufs(c.bufs), LocalID: c.lid, WorkgroupID: c.wid, NumWorkgroups: c.nwg, TraceAccesses: true}
			if in.NumWorkgroups == [3]uint32{} {
				in.NumWorkgroups = [3]uint32{1, 1, 1}
			}
			out := RunWith(src, in, lenient)
			if !out.OK() {
				t.Fatalf("trap=%q skip=%q\n--- HLSL ---\n%s", out.Trap, out.Skip, src)
			}
			for slot, w := range c.want {
				diffWords(t, slot, in.Buffers[slot], w)
			}
			for _, a := range out.Accesses {
				if b, ok := in.Buffers[a.Slot]; ok && a.Offset+a.Size > len(b) {
					t.Errorf("out-of-bounds access recorded: %+v (buffer %d bytes)", a, len(b))
				}
			}
			if c.check != nil {
				c.check(t, in.Buffers)
			}
			if t.Failed() {
				t.Logf("--- HLSL ---\n%s", src)
			}
		})
	}
}

const (
	intMin = math.MinInt32
	intMax = math.MaxInt32
)

func TestE2E_IntArithmeticBoundaries(t *testing.T) {
	runE2E(t, e2eCase{
		name: "i32",
		wgsl: `
@group(0) @binding(0) var<storage, read_write> o: array<i32, 16>;
@group(0) @binding(1) var<storage, read> a: array<i32, 8>;
@compute @workgroup_size(1)
fn main() {
  // a = [INT_MAX, 1, INT_MIN, 2, -7, 2, -1, 0]
  o[0] = a[0] + a[1];   // wraps to INT_MIN
  o[1] = a[2] - a[1];   // wraps to INT_MAX
  o[2] = a[0] * a[3];   // 0x7fffffff*2 = 0xfffffffe = -2
  o[3] = a[4] / a[5];   // -7/2 truncates to -3
  o[4] = a[4] % a[5];   // -7 - (-3*2) = -1
  o[5] = a[2] / a[6];   // INT_MIN / -1 = INT_MIN (WGSL: e1)
  o[6] = a[4] / a[7];   // x / 0 = x = -7
  o[7] = a[4] % a[7];   // x % 0 = 0
  o[8] = a[2] % a[6];   // INT_MIN % -1 = 0
  o[9] = -a[2];         // -INT_MIN wraps to INT_MIN
  o[10] = abs(a[2]);    // abs(INT_MIN) = INT_MIN
  o[11] = a[5] / a[4];  // 2 / -7 = 0
  o[12] = a[5] % a[4];  // 2 % -7 = 2
  o[13] = (a[4] >> 1u) + (a[1] << 31u); // -4 + INT_MIN = 0x7ffffffc
  o[14] = min(a[2], a[0]) + max(a[6], a[7]); // INT_MIN + 0
  o[15] = clamp(a[4], a[6], a[3]); // clamp(-7,-1,2) = -1
}`,
		bufs: map[string][]byte{"u0.0": fill(64, 0xCD), "t1.0": i32s(intMax, 1, intMin, 2, -7, 2, -1, 0)},
		want: map[string][]byte{"u0.0": i32s(intMin, intMax, -2, -3, -1, intMin, -7, 0, 0, intMin, intMin, 0, 2, 0x7ffffffc, intMin, -1)},
	})
}

func TestE2E_UintArithmeticAndShifts(t *testing.T) {
	runE2E(t, e2eCase{
		name: "u32",
		wgsl: `
@group(0) @binding(0) var<storage, read_write> o: array<u32, 16>;
@group(0) @binding(1) var<storage, read> u: array<u32, 6>;
@compute @workgroup_size(1)
fn main() {
  // u = [0xffffffff, 1, 31, 0, 7, 33]
  o[0] = u[0] + u[1];   // wraps to 0
  o[1] = u[3] - u[1];   // 0 - 1 = 0xffffffff
  o[2] = u[0] * u[0];   // (2^32-1)^2 mod 2^32 = 1
  o[3] = u[4] / u[3];   // x / 0 = x = 7
  o[4] = u[4] % u[3];   // x % 0 = 0
  o[5] = u[1] << u[2];  // 1 << 31 = 0x80000000
  o[6] = u[0] >> u[2];  // 0xffffffff >> 31 = 1
  o[7] = u[1] << u[5];  // shift count taken mod 32: 1 << 1 = 2
  o[8] = u[0] / u[4];   // 4294967295 / 7 = 613566756
  o[9] = u[0] % u[4];   // 4294967295 - 613566756*7 = 3
  o[10] = u[0] ^ u[4];  // 0xfffffff8
  o[11] = ~u[4];        // 0xfffffff8
  o[12] = u[4] & 5u;    // 5
  o[13] = u[4] | 8u;    // 15
  o[14] = min(u[0], u[4]) + max(u[3], u[1]); // 7 + 1
  o[15] = clamp(u[5], u[1], u[2]); // clamp(33, 1, 31) = 31
}`,
		bufs: map[string][]byte{"u0.0": fill(64, 0xCD), "t1.0": u32s(0xffffffff, 1, 31, 0, 7, 33)},
		want: map[string][]byte{"u0.0": u32s(0, 0xffffffff, 1, 7, 0, 0x80000000, 1, 2, 613566756, 3, 0xfffffff8, 0xfffffff8, 5, 15, 8, 31)},
	})
}

func TestE2E_FloatArithmetic(t *testing.T) {
	runE2E(t, e2eCase{
		name: "f32",
		wgsl: `
@group(0) @binding(0) var<storage, read_write> o: array<f32, 12>;
@group(0) @binding(1) var<storage, read> f: array<f32, 6>;
@compute @workgroup_size(1)
fn main() {
  // f = [1.5, 2.25, -0.5, 1.0, 3.0, 16777216.0]
  o[0] = f[0] + f[1];  // 3.75
  o[1] = f[0] * f[1];  // 3.375
  o[2] = f[0] / f[2];  // -3
  o[3] = f[1] - f[0];  // 0.75
  o[4] = f[1] % f[0];  // 2.25 - 1.5*trunc(1.5) = 0.75
  o[5] = -f[0];        // -1.5
  o[6] = f[2] % f[0];  // -0.5 - 1.5*trunc(-0.333) = -0.5
  o[7] = f[3] / f[4];  // 1/3 rounded to nearest: 0x3eaaaaab
  o[8] = f[5] + f[3];  // 2^24 + 1 is a tie, rounds to even: 2^24
  o[9] = f[5] + f[4];  // 2^24 + 3 = 16777219 is a tie between ..218 and ..220, even mantissa: 16777220
  o[10] = f[0] * f[0] - f[1]; // 2.25 - 2.25 = 0
  o[11] = f[2] * f[4] + f[0]; // -1.5 + 1.5 = 0
}`,
		bufs: map[string][]byte{"u0.0": fill(48, 0xCD), "t1.0": f32s(1.5, 2.25, -0.5, 1.0, 3.0, 16777216.0)},
		want: map[string][]byte{"u0.0": cat(f32s(3.75, 3.375, -3, 0.75, 0.75, -1.5, -0.5), u32s(0x3eaaaaab), f32s(16777216, 16777220, 0, 0))},
	})
}

func TestE2E_Conversions(t *testing.T) {
	runE2E(t, e2eCase{
		name: "conv",
		wgsl: `
@group(0) @binding(0) var<storage, read_write> o: array<u32, 20>;
@group(0) @binding(1) var<storage, read> f: array<f32, 6>;
@group(0) @binding(2) var<storage, read> u: array<u32, 4>;
@compute @workgroup_size(1)
fn main() {
  // f = [1.9, -1.9, 3e9, -3e9, 5e9, 0.0]   u = [0xffffffff, 16777217, 0x3f800000, 2]
  o[0] = bitcast<u32>(i32(f[0]));   // 1
  o[1] = bitcast<u32>(i32(f[1]));   // -1
  o[2] = bitcast<u32>(i32(f[2]));   // saturates: 2147483520 (largest f32 below 2^31)
  o[3] = bitcast<u32>(i32(f[3]));   // saturates: INT_MIN
  o[4] = u32(f[1]);                 // negative saturates to 0
  o[5] = u32(f[0]);                 // 1
  o[6] = u32(f[4]);                 // saturates: 4294967040 (largest f32 below 2^32)
  o[7] = bitcast<u32>(f32(bitcast<i32>(u[0])));  // f32(-1) = 0xbf800000
  o[8] = bitcast<u32>(f32(u[0]));   // 4294967295 rounds to 2^32 = 0x4f800000
  o[9] = bitcast<u32>(f32(u[1]));   // 16777217 is a tie, rounds to even 16777216 = 0x4b800000
  o[10] = bitcast<u32>(bitcast<f32>(u[2]) + 1.0); // 1.0 + 1.0 = 2.0 = 0x40000000
  o[11] = u32(bool(u[3]));          // bool(2) = true -> 1
  o[12] = u32(bool(f[5]));          // bool(0.0) = false -> 0
  o[13] = bitcast<u32>(f32(bool(u[3]))); // 1.0
  o[14] = bitcast<u32>(i32(u[0]));  // reinterpretation: 0xffffffff
  o[15] = u32(bitcast<i32>(u[0]));  // reinterpretation: 0xffffffff
  o[16] = select(10u, 20u, u[3] == 2u); // true selects the second: 20
  o[17] = bitcast<u32>(vec2<i32>(vec2<f32>(f[0], f[1])).y); // -1
  o[18] = vec3<u32>(vec3<f32>(f[0], f[4], f[1])).y; // 4294967040
  o[19] = u32(f[2]);                // 3e9 is exactly representable: 3000000000
}`,
		bufs: map[string][]byte{"u0.0": fill(80, 0xCD), "t1.0": f32s(1.9, -1.9, 3e9, -3e9, 5e9, 0), "t2.0": u32s(0xffffffff, 16777217, 0x3f800000, 2)},
		want: map[string][]byte{"u0.0": u32s(1, 0xffffffff, 2147483520, 0x80000000, 0, 1, 4294967040, 0xbf800000, 0x4f800000, 0x4b800000,
			0x40000000, 1, 0, 0x3f800000, 0xffffffff, 0xffffffff, 20, 0xffffffff, 4294967040, 3000000000)},
	})
}

func TestE2E_Vec3PaddingAndSwizzles(t *testing.T) {
	// struct S: a@0 (12) b@12 c@16 (stride 16, 2 elements) d@48 (align 8); size 64
	init := cat(f32s(1, 2, 3), f32s(100), i32s(4, 5, 6), u32s(0xDEADBEEF), i32s(0, 0, 0), u32s(0xDEADBEEF), u32s(1, 2), u32s(0xAAAAAAAA, 0xBBBBBBBB))
	want := cat(f32s(3, 2, 1), f32s(7), i32s(4, 5, 6), u32s(0xDEADBEEF), i32s(9, 10, 11), u32s(0xDEADBEEF), u32s(12, 21), u32s(0xAAAAAAAA, 0xBBBBBBBB))
	runE2E(t, e2eCase{
		name: "vec3pad",
		wgsl: `
struct S { a: vec3<f32>, b: f32, c: array<vec3<i32>, 2>, d: vec2<u32> }
@group(0) @binding(0) var<storage, read_write> s: S;
@compute @workgroup_size(1)
fn main() {
  s.b = s.a.x + s.a.y * s.a.z;              // 1 + 2*3 = 7
  s.c[1] = s.c[0] * 2 + vec3<i32>(1, 0, -1); // (8,10,12)+(1,0,-1) = (9,10,11)
  s.d = s.d.yx + vec2<u32>(10u, 20u);        // (2,1)+(10,20) = (12,21)
  s.a = s.a.zyx;                             // (3,2,1)
}`,
		bufs: map[string][]byte{"u0.0": init},
		want: map[string][]byte{"u0.0": want},
	})
}

func TestE2E_NestedStructOffsets(t *testing.T) {
	// In:  x@0 y@4(size 16) z@24 ; size 32, align 8
	// Out: p@0 q@32 r@64 (stride 32) s@128 ; size 160
	init := make([]byte, 160)
	for i := range init {
		init[i] = 0xEE
	}
	put := func(b []byte, off int, v []byte) { copy(b[off:], v) }
	put(init, 0, u32s(41))       // p
	put(init, 56, f32s(1.5, -2)) // q.z
	put(init, 64, u32s(3))       // r[0].x
	put(init, 100, u32s(77))     // r[1].y
	want := append([]byte(nil), init...)
	put(want, 36, u32s(42))     // q.y = p + 1
	put(want, 120, f32s(3, -4)) // r[1].z = q.z * 2
	put(want, 128, i32s(-2))    // s = i32(r[0].x) - 5
	put(want, 96, u32s(77))     // r[1].x = r[1].y
	runE2E(t, e2eCase{
		name: "nested",
		wgsl: `
struct In { x: u32, @size(16) y: u32, z: vec2<f32> }
struct Out { p: u32, @align(32) q: In, r: array<In, 2>, s: i32 }
@group(0) @binding(0) var<storage, read_write> o: Out;
@compute @workgroup_size(1)
fn main() {
  o.q.y = o.p + 1u;
  o.r[1].z = o.q.z * 2.0;
  o.s = i32(o.r[0].x) - 5;
  o.r[1].x = o.r[1].y;
}`,
		bufs: map[string][]byte{"u0.0": init},
		want: map[string][]byte{"u0.0": want},
	})
}

func TestE2E_RuntimeArrays(t *testing.T) {
	// h: n@0 pad@4 data@8 stride 8; 32 bytes -> 3 elements.  r: 20 bytes -> 5 elements.
	runE2E(t, e2eCase{
		name: "rtarray",
		wgsl: `
struct H { n: u32, pad: u32, data: array<vec2<u32>> }
@group(0) @binding(0) var<storage, read_write> h: H;
@group(0) @binding(1) var<storage, read> r: array<u32>;
@compute @workgroup_size(1)
fn main() {
  h.n = arrayLength(&h.data) * 100u + arrayLength(&r);  // 3*100 + 5 = 305
  let i = arrayLength(&h.data) - 1u;                     // 2
  h.data[i] = vec2<u32>(r[1], r[4]);                     // (11, 14) at byte 8 + 2*8 = 24
  h.data[0].y = r[i];                                    // 12 at byte 12
}`,
		bufs: map[string][]byte{"u0.0": fill(32, 0x11), "t1.0": u32s(10, 11, 12, 13, 14)},
		want: map[string][]byte{"u0.0": u32s(305, 0x11111111, 0x11111111, 12, 0x11111111, 0x11111111, 11, 14)},
	})
}

func put(b []byte, off int, v []byte) { copy(b[off:], v) }

func TestE2E_StorageMatrixLoadStore(t *testing.T) {
	// M: a(mat2x3)@0 [col stride 16] b(mat3x3)@32 c(mat4x2)@80 [col stride 8] v3@112 f@124 v2@128 v4@144; size 160
	init := fill(160, 0x77)
	put(init, 0, f32s(1, 2, 3))
	put(init, 16, f32s(4, 5, 6))
	put(init, 32, f32s(1, 2, 3))
	put(init, 48, f32s(4, 5, 6))
	put(init, 64, f32s(7, 8, 9))
	put(init, 80, f32s(1, 2, 3, 4, 5, 6, 7, 8))
	want := append([]byte(nil), init...)
	put(want, 112, f32s(4, 5, 6))    // v3 = a[1]
	put(want, 124, f32s(8))          // f = b[2][1]
	put(want, 80+24, f32s(4, 6))     // c[3] = c[0] + c[1] = (1+3, 2+4)
	put(want, 80+16+4, f32s(60))     // c[2][1] = 60
	put(want, 0, f32s(10, 20, 30))   // a[0]
	put(want, 128, f32s(5, 60))      // v2 = c[2]
	put(want, 144, f32s(3, 6, 9, 2)) // v4 = (b[0].z, b[1].z, b[2].z, a[0].y (old a[0].y = 2, read before the a[0] store))
	runE2E(t, e2eCase{
		name: "stomat",
		wgsl: `
struct M { a: mat2x3<f32>, b: mat3x3<f32>, c: mat4x2<f32>, v3: vec3<f32>, f: f32, v2: vec2<f32>, v4: vec4<f32> }
@group(0) @binding(0) var<storage, read_write> m: M;
@compute @workgroup_size(1)
fn main() {
  let col = m.a[1];
  m.v3 = col;
  m.f = m.b[2][1];
  m.c[3] = m.c[0] + m.c[1];
  m.c[2][1] = 60.0;
  let t = transpose(m.b);            // t[2] = third row of b = (3,6,9)
  m.v4 = vec4<f32>(t[2], m.a[0].y);
  m.a[0] = vec3<f32>(10.0, 20.0, 30.0);
  m.v2 = m.c[2];
}`,
		bufs: map[string][]byte{"u0.0": init},
		want: map[string][]byte{"u0.0": want},
	})
}

func TestE2E_MatrixArithmetic(t *testing.T) {
	// In:  A(mat2x3)@0 B(mat3x3)@32 C(mat4x2)@80 v2@112 v3@128 ; size 144
	in := fill(144, 0)
	put(in, 0, f32s(1, 2, 3))
	put(in, 16, f32s(4, 5, 6))
	put(in, 32, f32s(2, 0, 0))
	put(in, 48, f32s(0, 3, 0))
	put(in, 64, f32s(1, 0, 4))
	put(in, 80, f32s(1, 2, 3, 4, 5, 6, 7, 8))
	put(in, 112, f32s(1, 10))
	put(in, 128, f32s(1, 2, 3))
	// Out: r1(vec3)@0 r2(vec2)@16 r3(vec3)@32 r4(vec3)@48 m43(mat4x3)@64 t(mat3x2)@128 bb(mat3x3)@160 det@208 sm(mat2x3)@224; size 256
	want := fill(256, 0x55)
	put(want, 0, f32s(41, 52, 63)) // A*v2 = 1*(1,2,3) + 10*(4,5,6)
	put(want, 16, f32s(14, 32))    // v3*A = (dot(v3,A[0]), dot(v3,A[1])) = (1+4+9, 4+10+18)
	put(want, 32, f32s(5, 6, 12))  // B*v3 = 1*(2,0,0)+2*(0,3,0)+3*(1,0,4)
	put(want, 48, f32s(2, 6, 13))  // v3*B = (dot(v3,B[0]), dot(v3,B[1]), dot(v3,B[2])) = (2, 6, 1+12)
	// A*C: column j = A*C[j]
	put(want, 64, f32s(9, 12, 15))   // A*(1,2) = (1+8, 2+10, 3+12)
	put(want, 80, f32s(19, 26, 33))  // A*(3,4)
	put(want, 96, f32s(29, 40, 51))  // A*(5,6)
	put(want, 112, f32s(39, 54, 69)) // A*(7,8)
	put(want, 128, f32s(14, 32, 2, 5, 2, 0))
	// B*B: col0 = B*(2,0,0) = (4,0,0); col1 = B*(0,3,0) = (0,9,0); col2 = B*(1,0,4) = (2,0,0)+(4,0,16) = (6,0,16)
	put(want, 160, f32s(4, 0, 0))
	put(want, 176, f32s(0, 9, 0))
	put(want, 192, f32s(6, 0, 16))
	put(want, 208, f32s(24)) // det(B) = 2*3*4
	// A*2 + A = 3A
	put(want, 224, f32s(3, 6, 9))
	put(want, 240, f32s(12, 15, 18))
	runE2E(t, e2eCase{
		name: "matarith",
		wgsl: `
struct In { A: mat2x3<f32>, B: mat3x3<f32>, C: mat4x2<f32>, v2: vec2<f32>, v3: vec3<f32> }
struct Out { r1: vec3<f32>, r2: vec2<f32>, r3: vec3<f32>, r4: vec3<f32>, m43: mat4x3<f32>, t: mat3x2<f32>, bb: mat3x3<f32>, det: f32, sm: mat2x3<f32> }
@group(0) @binding(0) var<storage, read_write> o: Out;
@group(0) @binding(1) var<storage, read> i: In;
@compute @workgroup_size(1)
fn main() {
  o.r1 = i.A * i.v2;
  o.r2 = i.v3 * i.A;
  o.r3 = i.B * i.v3;
  o.r4 = i.v3 * i.B;
  o.m43 = i.A * i.C;
  // (naga mistypes transpose()/determinant() results when they are stored or
  // bound directly - see TestNagaDefect_*; the forms below avoid that)
  // mat3x2 * vec3 = (dot(A[0],v3), dot(A[1],v3)) = (14, 32)
  o.t[0] = vec2<f32>((transpose(i.A) * i.v3).x, (transpose(i.A) * i.v3).y);
  o.t[1] = vec2<f32>(transpose(i.A)[1][0], transpose(i.A)[1][1]);  // (2, 5)
  o.t[2] = i.v2 * transpose(i.B)[0].xy; // (1,10) * (2,0) = (2, 0)
  o.bb = i.B * i.B;
  o.det = vec2<f32>(determinant(i.B), 1.0).x;
  o.sm = i.A * 2.0 + i.A;
}`,
		bufs: map[string][]byte{"u0.0": fill(256, 0x55), "t1.0": in},
		want: map[string][]byte{"u0.0": want},
	})
}

func TestE2E_UniformMatricesAndLayout(t *testing.T) {
	// U: m23@0 m33@32 m42@80 m22@112 v(vec3<u32>)@128 k@140 arr@144 (2 x vec4) in@176 {a: vec3 @0, b: f32 @12}; size 192
	ub := fill(192, 0)
	put(ub, 0, f32s(1, 2, 3))
	put(ub, 16, f32s(4, 5, 6))
	put(ub, 32, f32s(2, 0, 0))
	put(ub, 48, f32s(0, 3, 0))
	put(ub, 64, f32s(1, 0, 4))
	put(ub, 80, f32s(1, 2, 3, 4, 5, 6, 7, 8))
	put(ub, 112, f32s(11, 12, 13, 14))
	put(ub, 128, u32s(100, 200, 300))
	put(ub, 140, i32s(-7))
	put(ub, 144, f32s(0.5, 1.5, 2.5, 3.5, 4.5, 5.5, 6.5, 7.5))
	put(ub, 176, f32s(1, 2, 3, 9.25))
	// Out (storage): a(vec3)@0 b(vec3)@16 c(vec2)@32 d(vec2)@40 e(f32)@48 f(vec3)@64 g(vec4)@80 k(i32)@96 h(f32)@100 m(mat4x2)@104 n(mat2x2)@136 t(mat2x4)@160; size 192
	want := fill(192, 0x33)
	put(want, 0, f32s(4, 5, 6))                  // u.m23[1]
	put(want, 16, f32s(1, 0, 4))                 // u.m33[2]
	put(want, 32, f32s(7, 8))                    // u.m42[3]
	put(want, 40, f32s(13, 14))                  // u.m22[1]
	put(want, 48, f32s(6))                       // u.m42[i][1] with i = 2 (from id): (5,6)[1]
	put(want, 64, f32s(5, 6, 12))                // u.m33 * u.in.a = 1*(2,0,0)+2*(0,3,0)+3*(1,0,4)
	put(want, 80, f32s(4.5, 5.5, 6.5, 7.5))      // u.arr[1]
	put(want, 96, i32s(293))                     // u.k + i32(u.v.z) = -7 + 300
	put(want, 100, f32s(9.25))                   // u.in.b
	put(want, 104, f32s(1, 2, 3, 4, 5, 6, 7, 8)) // whole mat4x2 copy
	put(want, 136, f32s(22, 24, 26, 28))         // u.m22 * 2.0
	put(want, 160, f32s(1, 3, 5, 7))             // transpose(u.m42): 2 columns of 4: rows of m42
	put(want, 176, f32s(2, 4, 0, 0))
	runE2E(t, e2eCase{
		name: "unimat",
		wgsl: `
struct Inner { a: vec3<f32>, b: f32 }
struct U { m23: mat2x3<f32>, m33: mat3x3<f32>, m42: mat4x2<f32>, m22: mat2x2<f32>, v: vec3<u32>, k: i32, arr: array<vec4<f32>, 2>, in: Inner }
struct Out { a: vec3<f32>, b: vec3<f32>, c: vec2<f32>, d: vec2<f32>, e: f32, f: vec3<f32>, g: vec4<f32>, k: i32, h: f32, m: mat4x2<f32>, n: mat2x2<f32>, t: mat2x4<f32> }
@group(0) @binding(0) var<storage, read_write> o: Out;
@group(0) @binding(1) var<uniform> u: U;
@compute @workgroup_size(4)
fn main(@builtin(local_invocation_id) lid: vec3<u32>) {
  let i = lid.x;  // 2
  o.a = u.m23[1];
  o.b = u.m33[2];
  o.c = u.m42[3];
  o.d = u.m22[1];
  o.e = u.m42[i][1];
  o.f = u.m33 * u.in.a;
  o.g = u.arr[1];
  o.k = u.k + i32(u.v.z);
  o.h = u.in.b;
  o.m = u.m42;
  o.n = u.m22 * 2.0;
  // (naga mistypes transpose() of non-square matrices, see TestNagaDefect_*; transpose by hand)
  o.t[0] = vec4<f32>(u.m42[0].x, u.m42[1].x, u.m42[2].x, u.m42[3].x); // (1,3,5,7)
  o.t[1] = vec4<f32>(u.m42[0].y, u.m42[1].y, 0.0, 0.0);               // (2,4,0,0)
}`,
		lid:  [3]uint32{2, 0, 0},
		bufs: map[string][]byte{"u0.0": fill(192, 0x33), "b1.0": ub},
		want: map[string][]byte{"u0.0": want},
	})
}

func TestE2E_UniformArraysOfStructsAndMatrices(t *testing.T) {
	// E: a(vec2)@0 b(f32)@8 ; size 16
	// U: es(array<E,2>)@0 (stride 16) ms(array<mat2x2,2>)@32 (stride 16) m4(array<mat4x2,2>)@64 (stride 32) n(u32)@128 ; size 144 (align 16)
	ub := fill(144, 0)
	put(ub, 0, f32s(1, 2, 3))
	put(ub, 16, f32s(4, 5, 6))
	put(ub, 32, f32s(1, 2, 3, 4))
	put(ub, 48, f32s(5, 6, 7, 8))
	put(ub, 64, f32s(1, 2, 3, 4, 5, 6, 7, 8))
	put(ub, 96, f32s(10, 20, 30, 40, 50, 60, 70, 80))
	put(ub, 128, u32s(1))
	want := fill(64, 0x99)
	put(want, 0, f32s(4, 5))    // u.es[n].a
	put(want, 8, f32s(3))       // u.es[0].b
	put(want, 12, f32s(7))      // u.ms[n][1].x
	put(want, 16, f32s(50, 60)) // u.m4[n][2]
	put(want, 24, f32s(4))      // u.m4[0][n][n] = (3,4)[1]
	put(want, 28, f32s(23))     // (u.ms[1] * vec2(1,2)).x = 5*1 + 7*2 = 19 ; .y = 6 + 16 = 22 ; stored x+? see shader: x + 4
	runE2E(t, e2eCase{
		name: "uniarr",
		wgsl: `
struct E { a: vec2<f32>, b: f32 }
struct U { es: array<E, 2>, ms: array<mat2x2<f32>, 2>, m4: array<mat4x2<f32>, 2>, n: u32 }
@group(0) @binding(0) var<storage, read_write> o: array<f32, 16>;
@group(0) @binding(1) var<uniform> u: U;
@compute @workgroup_size(1)
fn main() {
  let n = u.n; // 1
  let a = u.es[n].a;
  o[0] = a.x; o[1] = a.y;
  o[2] = u.es[0].b;
  o[3] = u.ms[1][1].x;   // (a dynamic array index here hits a naga defect, see TestNagaDefect_*)
  let c = u.m4[1][2];
  o[4] = c.x; o[5] = c.y;
  o[6] = u.m4[0][n][n];
  let mv = u.ms[1] * vec2<f32>(1.0, 2.0); // (5,6)*1 + (7,8)*2 = (19, 22)
  o[7] = mv.x + 4.0;
}`,
		bufs: map[string][]byte{"u0.0": fill(64, 0x99), "b1.0": ub},
		want: map[string][]byte{"u0.0": want},
	})
}
