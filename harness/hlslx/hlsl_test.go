package hlslx

import (
	"strings"
	"testing"

	"verif/harness/xrt"
)

// Hand-written HLSL: language semantics and trap rules.

func runHLSL(src string, bufs map[string][]byte) xrt.Outcome {
	return Run(src, xrt.Input{Entry: "main", Buffers: bufs, TraceAccesses: true})
}

func mustOK(t *testing.T, src string, bufs map[string][]byte) xrt.Outcome {
	t.Helper()
	out := runHLSL(src, bufs)
	if !out.OK() {
		t.Fatalf("trap=%q skip=%q", out.Trap, out.Skip)
	}
	return out
}

func mustTrap(t *testing.T, src string, bufs map[string][]byte, substr string) {
	t.Helper()
	out := runHLSL(src, bufs)
	if out.Trap == "" || !strings.Contains(out.Trap, substr) {
		t.Fatalf("want trap containing %q, got trap=%q skip=%q", substr, out.Trap, out.Skip)
	}
}

func mustSkip(t *testing.T, src string, bufs map[string][]byte, substr string) {
	t.Helper()
	out := runHLSL(src, bufs)
	if out.Skip == "" || !strings.Contains(out.Skip, substr) {
		t.Fatalf("want skip containing %q, got trap=%q skip=%q", substr, out.Trap, out.Skip)
	}
}

const hdr = "RWByteAddressBuffer o : register(u0);\nByteAddressBuffer i : register(t1);\n"

func body(s string) string {
	return hdr + "[numthreads(1,1,1)]\nvoid main() {\n" + s + "\n}\n"
}

func TestHLSL_MatrixRowsAndMul(t *testing.T) {
	// floatRxC has R rows and C columns; m[i] is row i; the constructor fills rows.
	b := map[string][]byte{"u0.0": fill(64, 0xCD)}
	mustOK(t, body(`
    float2x3 m = float2x3(1.0, 2.0, 3.0, 4.0, 5.0, 6.0);   // rows (1,2,3) and (4,5,6)
    o.Store3(0, asuint(m[1]));                              // (4,5,6)
    o.Store(12, asuint(m[0][2] + m._m10 + m._22));          // 3 + 4 + 5 = 12
    float3 rv = mul(float2(1.0, 10.0), m);                  // row vector x 2x3: (1+40, 2+50, 3+60)
    o.Store3(16, asuint(rv));
    float2 cv = mul(m, float3(1.0, 2.0, 3.0));              // 2x3 x column vector: (1+4+9, 4+10+18)
    o.Store2(32, asuint(cv));
    float3x2 tm = transpose(m);                             // rows (1,4),(2,5),(3,6)
    o.Store2(40, asuint(tm[2]));                            // (3,6)
    float2x2 mm = mul(m, tm);                               // [[14,32],[32,77]]
    o.Store4(48, asuint(float4(mm[0], mm[1])));`), b)
	wantF32s(t, "o", b["u0.0"], 4, 5, 6, 12, 41, 52, 63)
	wantF32s(t, "o@32", b["u0.0"][32:], 14, 32, 3, 6, 14, 32, 32, 77)
}

func TestHLSL_OperatorTyping(t *testing.T) {
	b := map[string][]byte{"u0.0": fill(64, 0xCD), "t1.0": i32s(-8, 3, 0, 0)}
	mustOK(t, body(`
    int a = asint(i.Load(0));          // -8
    uint u = i.Load(4);                // 3
    o.Store(0, asuint(a >> 1u));       // shift keeps the left operand's type: arithmetic, -4
    o.Store(4, asuint(a) >> 1u);       // logical: 0x7ffffffc
    o.Store(8, a + u);                 // int + uint is uint: 0xfffffffb
    o.Store(12, asuint(a / 3));        // literal adopts int: -2
    o.Store(16, (a < 0 ? 1 : 2) + (u > 5u ? 10u : 20u));   // 1 + 20
    o.Store(20, asuint(float(a) * 0.5));                    // -4.0
    o.Store(24, u << 33u);             // shift counts use the low 5 bits: 3 << 1 = 6
    o.Store(28, asuint(int(-2147483647 - 1) >> 31u));       // -1
    int2 v = int2(a, 5);
    bool2 c = v == int2(-8, 4) & v < 0;                     // == binds tighter than &: (true&true, false&false)
    o.Store2(32, uint2(c));            // (1, 0)
    o.Store(40, asuint((1.0).xxx.y + (2).x));               // swizzle on scalars: 3.0
    o.Store(44, u / 0u);               // udiv by zero: 0xffffffff
    o.Store(48, u % 0u);               // 0xffffffff
    o.Store(52, asuint(-a));           // 8
    o.Store(56, (uint)-1.5 + (uint)3.99 + (uint)(int)-1.5); // ftou saturates: 0 + 3 + 0xffffffff = 2
    o.Store(60, asuint((int)2147483648.0 + (int)(0.0/0.0)));// ftoi saturates, NaN -> 0: INT_MAX`), b)
	wantU32s(t, "o", b["u0.0"], 0xfffffffc, 0x7ffffffc, 0xfffffffb, 0xfffffffe, 21, 0xc0800000, 6, 0xffffffff, 1, 0, 0x40400000, 0xffffffff, 0xffffffff, 8, 2, 0x7fffffff)
}

func TestHLSL_BothSidesEvaluated(t *testing.T) {
	// && || and ?: evaluate both operands (no short-circuit before HLSL 2021).
	src := hdr + `
static uint calls = 0u;
bool side(bool v) { calls += 1u; return v; }
int pick(int v) { calls += 16u; return v; }
[numthreads(1,1,1)]
void main() {
    bool a = side(false) && side(true);
    bool b = side(true) || side(true);
    int c = side(true) ? pick(1) : pick(2);
    o.Store(0, calls);         // 4 + 1 + 32 = 37
    o.Store(4, uint(a) + 2u * uint(b) + 4u * uint(c));   // 0 + 2 + 4
}`
	b := map[string][]byte{"u0.0": fill(8, 0xCD)}
	mustOK(t, src, b)
	wantU32s(t, "o", b["u0.0"], 37, 6)
	// consequently an undefined operation in the unselected arm is still reached
	mustTrap(t, body(`int z = asint(i.Load(0)); int r = (z == 0) ? 7 : (10 / z); o.Store(0, asuint(r));`),
		map[string][]byte{"u0.0": fill(8, 0), "t1.0": i32s(0)}, "by zero")
}

func TestHLSL_OutParamsCopyInCopyOut(t *testing.T) {
	src := hdr + `
static int g = 1;
void f(inout int p, out int q) { p = p + 10; q = g; g = 100; }
void h(inout int a, inout int b) { a = 1; b = 2; }
struct S { int x; float2 v; };
void setv(inout float2 v, int k) { v[k] = 9.0; }
[numthreads(1,1,1)]
void main() {
    int r;
    f(g, r);                 // p is a copy of g (1): p = 11; q = g = 1; g = 100; copy-out: g = 11, r = 1
    o.Store(0, asuint(g));   // 11
    o.Store(4, asuint(r));   // 1
    int z = 0;
    h(z, z);                 // copy-out in parameter order: z = 2
    o.Store(8, asuint(z));
    S s = (S)0;
    setv(s.v, 1);
    s.v.x += 1.5;
    o.Store2(12, asuint(s.v));   // (1.5, 9)
    float4 w = float4(1.0, 2.0, 3.0, 4.0);
    setv(w.zy, 0);               // swizzled l-value: w.z = 9
    o.Store4(20, asuint(w));
}`
	b := map[string][]byte{"u0.0": fill(36, 0xCD)}
	mustOK(t, src, b)
	wantI32s(t, "o", b["u0.0"], 11, 1, 2)
	wantF32s(t, "o@12", b["u0.0"][12:], 1.5, 9, 1, 2, 9, 4)
}

func TestHLSL_SwitchFallthroughAndLoops(t *testing.T) {
	b := map[string][]byte{"u0.0": fill(16, 0xCD)}
	mustOK(t, body(`
    uint acc = 0u;
    [loop] for (uint k = 0u; k < 5u; k++) {
        [branch] switch (k) {
            case 0u: acc += 1u;           // falls through
            case 1u: { acc += 10u; break; }
            default: acc += 100u;         // falls through into case 3
            case 3u: { acc += 1000u; break; }
        }
    }
    // k=0: 11; k=1: 10; k=2: 1100; k=3: 1000; k=4: 1100
    o.Store(0, acc);
    uint n = 0u;
    do { n++; if (n == 2u) continue; if (n > 3u) break; } while (true);
    o.Store(4, n);
    uint2 lb = uint2(4294967295u, 4294967295u);
    lb -= uint2(lb.y == 0u, 1u);          // bool -> uint in a constructor
    o.Store2(8, lb);`), b)
	wantU32s(t, "o", b["u0.0"], 3221, 4, 0xffffffff, 0xfffffffe)
}

func TestHLSL_CastsAndInitializers(t *testing.T) {
	src := hdr + `
typedef struct { float2 _0; float2 _1; } __mat2x2;
struct T { int a; float3 b; uint c[2]; };
typedef float ret_arr[3];
ret_arr mk(float x) { float r[3] = { x, x + 1.0, x + 2.0 }; return r; }
[numthreads(1,1,1)]
void main() {
    __mat2x2 w = { float2(1.0, 2.0), float2(3.0, 4.0) };
    float2x2 m = (float2x2)w;                   // rows (1,2),(3,4)
    o.Store2(0, asuint(m[1]));
    __mat2x2 back = (__mat2x2)mul(2.0, m);
    o.Store2(8, asuint(back._0 + back._1));      // (2,4)+(6,8)
    T t = (T)0;
    t.c[1] = 7u;
    T t2 = { 1, float3(2.0, 3.0, 4.0), 5u, 6u };
    o.Store(16, asuint(t.a) + t.c[1] + t2.c[0] + uint(t2.b.z));   // 0+7+5+4
    float arr[3] = mk(10.0);
    float arr2[2][2] = (float[2][2])float4(arr[0], arr[1], arr[2], 1.0);
    o.Store(20, asuint(arr2[1][0] + arr2[0][1]));   // 12 + 11
    int3 iv = (int3)2.9;                           // scalar splat with conversion
    o.Store(24, asuint(iv.x + iv.z));
    float2 tr = float4(1.0, 2.0, 3.0, 4.0);        // implicit truncation
    o.Store(28, asuint(tr.y));
}`
	b := map[string][]byte{"u0.0": fill(32, 0xCD)}
	mustOK(t, src, b)
	wantF32s(t, "o", b["u0.0"], 3, 4, 8, 12)
	wantU32s(t, "o@16", b["u0.0"][16:], 16)
	wantF32s(t, "o@20", b["u0.0"][20:], 23)
	wantU32s(t, "o@24", b["u0.0"][24:], 4)
	wantF32s(t, "o@28", b["u0.0"][28:], 2)
}

func TestHLSL_Overloads(t *testing.T) {
	src := hdr + `
int f(int a) { return 1; }
int f(uint a) { return 2; }
int f(float a) { return 3; }
int f(int2 a) { return 4; }
int f(uint3 a) { return 5; }
[numthreads(1,1,1)]
void main() {
    o.Store(0, uint(f(int(1)) + 10 * f(1u) + 100 * f(1.0) + 1000 * f(int2(1, 2)) + 10000 * f((1u).xxx) + 100000 * f(7)));
}`
	b := map[string][]byte{"u0.0": fill(4, 0)}
	mustOK(t, src, b)
	wantU32s(t, "o", b["u0.0"], 154321)
}

func TestHLSL_RawBufferSemantics(t *testing.T) {
	// out-of-bounds loads give 0, stores are dropped; both are traced
	b := map[string][]byte{"u0.0": u32s(1, 2, 3, 4), "t1.0": u32s(5, 6)}
	out := mustOK(t, body(`
    uint4 v = i.Load4(4);           // (6, 0, 0, 0): only the first dword is in bounds
    o.Store4(8, v + 1u);            // writes 7, 1 at 8 and 12; the rest is dropped
    o.Store(400, 9u);               // dropped
    uint n; o.GetDimensions(n);
    uint m; i.GetDimensions(m);
    o.Store(0, n * 100u + m);       // 1608
    uint orig;
    o.InterlockedAdd(4, 40u, orig); // 2 -> 42
    o.InterlockedMax(4, int(-1));   // signed: stays 42
    o.InterlockedMax(4, 50u, orig); // 50`), b)
	wantU32s(t, "o", b["u0.0"], 1608, 50, 7, 1)
	oob := 0
	for _, a := range out.Accesses {
		if a.Offset+a.Size > len(b[a.Slot]) {
			oob++
		}
	}
	if oob != 3 {
		t.Errorf("want 3 out-of-bounds accesses in the trace, got %d: %+v", oob, out.Accesses)
	}
}

func TestHLSL_Traps(t *testing.T) {
	in := func() map[string][]byte {
		return map[string][]byte{"u0.0": fill(16, 0), "t1.0": i32s(0, -1, intMin, 7)}
	}
	t.Run("sdiv0", func(t *testing.T) {
		mustTrap(t, body(`int a = asint(i.Load(12)); int z = asint(i.Load(0)); o.Store(0, asuint(a / z));`), in(), "division by zero")
	})
	t.Run("srem0", func(t *testing.T) {
		mustTrap(t, body(`int a = asint(i.Load(12)); int z = asint(i.Load(0)); o.Store(0, asuint(a % z));`), in(), "remainder by zero")
	})
	t.Run("vector sdiv0 in one lane", func(t *testing.T) {
		mustTrap(t, body(`int2 a = int2(4, 4); int2 z = asint(i.Load2(0)); o.Store2(0, asuint(a / z));`), in(), "by zero")
	})
	t.Run("intmin/-1", func(t *testing.T) {
		mustTrap(t, body(`int a = asint(i.Load(8)); int z = asint(i.Load(4)); o.Store(0, asuint(a / z));`), in(), "overflow")
	})
	t.Run("udiv0 is defined", func(t *testing.T) {
		b := in()
		mustOK(t, body(`uint a = i.Load(12); uint z = i.Load(0); o.Store(0, a / z); o.Store(4, a % z);`), b)
		wantU32s(t, "o", b["u0.0"], 0xffffffff, 0xffffffff)
	})
	t.Run("array index", func(t *testing.T) {
		mustTrap(t, body(`int a[4] = (int[4])0; uint k = i.Load(12); o.Store(0, asuint(a[k]));`), in(), "out-of-range index 7 into array int[4]")
	})
	t.Run("negative array index", func(t *testing.T) {
		mustTrap(t, body(`int a[4] = (int[4])0; int k = asint(i.Load(4)); a[k] = 1;`), in(), "out-of-range index -1")
	})
	t.Run("vector index", func(t *testing.T) {
		mustTrap(t, body(`float3 v = (float3)0; uint k = i.Load(12); v[k] = 1.0;`), in(), "into vector float3")
	})
	t.Run("matrix row index", func(t *testing.T) {
		mustTrap(t, body(`float2x3 m = (float2x3)0; uint k = 2u; o.Store3(0, asuint(m[k]));`), in(), "row index 2 into matrix float2x3")
	})
	t.Run("groupshared index", func(t *testing.T) {
		mustTrap(t, "groupshared uint g[2];\n"+body(`g[0] = 1u; g[i.Load(12)] = 1u;`), in(), "index 7")
	})
	t.Run("uninitialised local", func(t *testing.T) {
		mustTrap(t, body(`int a; o.Store(0, asuint(a + 1));`), in(), "uninitialised")
	})
	t.Run("uninitialised element", func(t *testing.T) {
		mustTrap(t, body(`int a[2]; a[0] = 1; o.Store(0, asuint(a[1]));`), in(), "uninitialised")
	})
	t.Run("uninitialised groupshared", func(t *testing.T) {
		mustTrap(t, "groupshared float g;\n"+body(`o.Store(0, asuint(g));`), in(), "uninitialised")
	})
	t.Run("uninitialised via copy", func(t *testing.T) {
		mustTrap(t, body(`float2 a; a.x = 1.0; float2 b = a; if (b.y > 0.0) { o.Store(0, 1u); }`), in(), "uninitialised")
	})
	t.Run("copy of partly initialised struct is fine", func(t *testing.T) {
		b := in()
		mustOK(t, "struct S { int a; int b; };\n"+body(`S s; s.a = 3; S t = s; o.Store(0, asuint(t.a));`), b)
		wantU32s(t, "o", b["u0.0"], 3)
	})
	t.Run("out parameter never written", func(t *testing.T) {
		mustTrap(t, hdr+"void f(out int q) { }\n[numthreads(1,1,1)] void main() { int r = 5; f(r); o.Store(0, asuint(r)); }", in(), "uninitialised")
	})
	t.Run("missing return value", func(t *testing.T) {
		mustTrap(t, hdr+"int f(int q) { if (q > 0) { return 1; } }\n[numthreads(1,1,1)] void main() { o.Store(0, asuint(f(0))); }", in(), "uninitialised")
	})
	t.Run("misaligned raw offset", func(t *testing.T) {
		mustTrap(t, body(`o.Store(2, 1u);`), in(), "not a multiple of 4")
	})
	t.Run("oob atomic original value is undefined", func(t *testing.T) {
		mustTrap(t, body(`uint orig; o.InterlockedAdd(64, 1u, orig); o.Store(0, orig);`), in(), "uninitialised")
	})
	t.Run("static without initializer is zero", func(t *testing.T) {
		b := in()
		mustOK(t, "static int sg;\n"+body(`o.Store(0, asuint(sg + 5));`), b)
		wantU32s(t, "o", b["u0.0"], 5)
	})
	t.Run("fuel", func(t *testing.T) {
		out := Run(body(`while (true) { }`), xrt.Input{Entry: "main", Buffers: in(), MaxSteps: 1000})
		if !strings.HasPrefix(out.Skip, "fuel") {
			t.Fatalf("got %+v", out)
		}
	})
	t.Run("recursion", func(t *testing.T) {
		mustSkip(t, hdr+"int f(int q) { return f(q + 1); }\n[numthreads(1,1,1)] void main() { o.Store(0, asuint(f(0))); }", in(), "call depth")
	})
}

func TestHLSL_SkipsAreReasoned(t *testing.T) {
	b := func() map[string][]byte { return map[string][]byte{"u0.0": fill(16, 0), "t1.0": fill(16, 0)} }
	mustSkip(t, body(`float2x3 m = (float2x3)0; float3x2 n = m;`), b(), "cannot convert float2x3 to float3x2")
	mustSkip(t, body(`float3 v = float2(1.0, 2.0);`), b(), "cannot convert float2 to float3")
	mustSkip(t, body(`o.Store3(0, uint2(1u, 2u));`), b(), "Store3 of uint2")
	mustSkip(t, body(`int a[4] pv;`), b(), "parse error")
	mustSkip(t, hdr+"static int[4] pv = (int[4])0;\n[numthreads(1,1,1)] void main() { }", b(), "is not HLSL syntax")
	mustSkip(t, body(`o.Store(0, undeclared);`), b(), "undeclared identifier 'undeclared'")
	mustSkip(t, body(`i.Store(0, 1u);`), b(), "read-only")
	mustSkip(t, body(`discard;`), b(), "discard")
	mustSkip(t, body(`double d = 1.0; o.Store(0, uint(d));`), b(), "unsupported type double")
	mustSkip(t, body(`o.Store(0, WaveGetLaneIndex());`), b(), "WaveGetLaneIndex")
	mustSkip(t, hdr+"[numthreads(1,1,1)] void main(uint3 p : SV_Position) { }", b(), "semantic 'SV_Position'")
	mustSkip(t, hdr+"void main() { }", b(), "no [numthreads]")
	mustSkip(t, hdr+"[numthreads(1,1,1)] void other() { }", b(), "not found")
	mustSkip(t, "cbuffer c : register(b0) { float4 x; }\n"+body(`o.Store(0, asuint(x.y));`), b(), "no buffer supplied for slot \"b0.0\"")
	mustSkip(t, body(`float4 v = (float4)0; v.xx = float2(1.0, 2.0);`), b(), "repeated components")
	mustSkip(t, hdr+"int f(int a) { return 1; }\nint f(uint a) { return 2; }\n[numthreads(1,1,1)] void main() { o.Store(0, asuint(f(true))); }", b(), "ambiguous")
	// lenient mode reads naga's "T[N] name"
	out := RunWith(hdr+"static int[4] pv = (int[4])0;\n[numthreads(1,1,1)] void main() { pv[2] = 5; o.Store(0, asuint(pv[2] + pv[1])); }",
		xrt.Input{Entry: "main", Buffers: b()}, lenient)
	if !out.OK() {
		t.Fatalf("lenient: %+v", out)
	}
}

func TestHLSL_CBufferReads(t *testing.T) {
	src := `
struct In { float3 a; float b; row_major float2x3 m; int _end_pad_0; };
cbuffer u : register(b2, space1) { float k; In s[2]; float tail; }
RWByteAddressBuffer o : register(u0);
[numthreads(1,1,1)]
void main() {
    o.Store(0, asuint(k));            // @0
    o.Store(4, asuint(s[1].b));       // s@16, element stride 48: 64 + 12 = @76
    o.Store3(8, asuint(s[1].m[1]));   // 64 + 16 + 16 = @96
    o.Store(20, asuint(tail));        // packs after s[1]._end_pad_0 (@108): @112? no: s[1] ends at 64+48 = 112 -> tail @112
    o.Store(24, asuint(s[0].m[0].z + s[0].m._m12)); // @40 and @56
    o.Store(28, asuint(s[3].b));      // beyond the buffer: 0
}`
	cb := make([]byte, 128)
	for k := 0; k < 32; k++ {
		put(cb, 4*k, f32s(float32(k)))
	}
	b := map[string][]byte{"u0.0": fill(32, 0xCD), "b2.1": cb}
	out := mustOK(t, src, b)
	wantF32s(t, "o", b["u0.0"], 0, 19, 24, 25, 26, 28, 10+14, 0)
	sawOOB := false
	for _, a := range out.Accesses {
		if a.Slot == "b2.1" && a.Offset+a.Size > len(cb) {
			sawOOB = true
		}
	}
	if !sawOOB {
		t.Errorf("out-of-bounds cbuffer read not traced: %+v", out.Accesses)
	}
}
