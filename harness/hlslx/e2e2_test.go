package hlslx

import (
	"os"
	"testing"
)

func TestE2E_PrivateAndFunctionMemoryPointers(t *testing.T) {
	runE2E(t, e2eCase{
		name: "ptrs",
		wgsl: `
@group(0) @binding(0) var<storage, read_write> o: array<i32, 8>;
var<private> pv: array<i32, 4>;
var<private> ps: i32 = 5;
fn bump(p: ptr<function, i32>, q: ptr<private, array<i32, 4>>, i: u32) -> i32 {
  *p = *p + 1;
  (*q)[i] = *p * 10;
  return *p * 2;
}
@compute @workgroup_size(1)
fn main() {
  var x = 3;
  let r = bump(&x, &pv, 2u);     // x = 4, pv[2] = 40, r = 8
  var arr = array<u32, 3>(1u, 2u, 3u);
  arr[1] += 5u;                  // 7
  let r2 = bump(&x, &pv, 0u);    // x = 5, pv[0] = 50, r2 = 10
  o[0] = x;                      // 5
  o[1] = r;                      // 8
  o[2] = pv[2];                  // 40
  o[3] = pv[0];                  // 50
  o[4] = pv[1];                  // private memory is zero-initialised: 0
  o[5] = ps + r2;                // 15
  o[6] = i32(arr[0] + arr[1] + arr[2]); // 1 + 7 + 3 = 11
}`,
		bufs: map[string][]byte{"u0.0": fill(32, 0xCD)},
		want: map[string][]byte{"u0.0": i32s(5, 8, 40, 50, 0, 15, 11)},
	})
}

func TestE2E_WorkgroupMemoryAndAtomics(t *testing.T) {
	runE2E(t, e2eCase{
		name: "workgroup",
		wgsl: `
struct S { a: vec2<f32>, b: u32 }
@group(0) @binding(0) var<storage, read_write> o: array<i32, 12>;
var<workgroup> wg: array<u32, 4>;
var<workgroup> wa: atomic<i32>;
var<workgroup> ws: S;
@compute @workgroup_size(4)
fn main(@builtin(local_invocation_id) lid: vec3<u32>) {
  wg[lid.x] = lid.x + 10u;          // invocation 0: wg[0] = 10
  workgroupBarrier();
  atomicAdd(&wa, 5);                // 0 -> 5
  let old = atomicSub(&wa, 7);      // returns 5, wa = -2
  let m = atomicMax(&wa, 3);        // returns -2, wa = 3
  let e = atomicExchange(&wa, -9);  // returns 3, wa = -9
  let c = atomicCompareExchangeWeak(&wa, -9, 12); // old -9, exchanged, wa = 12
  let mn = atomicMin(&wa, -100);    // returns 12, wa = -100
  o[0] = i32(wg[0]);                // 10
  o[1] = i32(wg[1]);                // zero-initialised: 0
  o[2] = old;                       // 5
  o[3] = m;                         // -2
  o[4] = e;                         // 3
  o[5] = c.old_value;               // -9
  o[6] = i32(c.exchanged);          // 1
  o[7] = atomicLoad(&wa);           // -100
  o[8] = i32(ws.b);                 // 0
  o[9] = i32(ws.a.y);               // 0
  o[10] = mn;                       // 12
  atomicStore(&wa, 44);
  o[11] = atomicLoad(&wa);          // 44
}`,
		bufs:         map[string][]byte{"u0.0": fill(48, 0xCD)},
		want:         map[string][]byte{"u0.0": i32s(10, 0, 5, -2, 3, -9, 1, -100, 0, 0, 12, 44)},
		skipVariants: map[string]bool{"nozeroinit": true},
	})
}

func TestE2E_StorageAtomics(t *testing.T) {
	// A: u@0 i@4 arr@8 (3 x 4); size 20
	runE2E(t, e2eCase{
		name: "atomics",
		wgsl: `
struct A { u: atomic<u32>, i: atomic<i32>, arr: array<atomic<u32>, 3> }
@group(0) @binding(0) var<storage, read_write> o: array<u32, 16>;
@group(0) @binding(1) var<storage, read_write> a: A;
@compute @workgroup_size(1)
fn main() {
  // a = { u: 10, i: -5, arr: [0xF0, 0x0F, 7] }
  o[0] = atomicAdd(&a.u, 5u);                 // 10 (u = 15)
  o[1] = atomicSub(&a.u, 20u);                // 15 (u = 0xfffffffb)
  o[2] = atomicMax(&a.u, 3u);                 // 0xfffffffb (unchanged)
  o[3] = atomicMin(&a.u, 3u);                 // 0xfffffffb (u = 3)
  o[4] = bitcast<u32>(atomicMin(&a.i, -10));  // -5 (i = -10)
  o[5] = bitcast<u32>(atomicMax(&a.i, 2));    // -10 (i = 2; a signed comparison)
  o[6] = atomicAnd(&a.arr[0], 0x3Cu);         // 0xF0 (-> 0x30)
  o[7] = atomicOr(&a.arr[1], 0xF0u);          // 0x0F (-> 0xFF)
  o[8] = atomicXor(&a.arr[2], 5u);            // 7 (-> 2)
  o[9] = atomicExchange(&a.arr[2], 99u);      // 2 (-> 99)
  let r = atomicCompareExchangeWeak(&a.u, 3u, 77u);
  o[10] = r.old_value;                        // 3
  o[11] = u32(r.exchanged);                   // 1 (u = 77)
  let r2 = atomicCompareExchangeWeak(&a.u, 3u, 88u);
  o[12] = r2.old_value;                       // 77
  o[13] = u32(r2.exchanged);                  // 0
  atomicStore(&a.i, -1);
  o[14] = bitcast<u32>(atomicLoad(&a.i));     // 0xffffffff
  o[15] = atomicLoad(&a.u);                   // 77
}`,
		bufs: map[string][]byte{"u0.0": fill(64, 0xCD), "u1.0": cat(u32s(10), i32s(-5), u32s(0xF0, 0x0F, 7))},
		want: map[string][]byte{
			"u0.0": u32s(10, 15, 0xfffffffb, 0xfffffffb, 0xfffffffb, 0xfffffff6, 0xF0, 0x0F, 7, 2, 3, 1, 77, 0, 0xffffffff, 77),
			"u1.0": cat(u32s(77), i32s(-1), u32s(0x30, 0xFF, 99)),
		},
	})
}

func TestE2E_BuiltinInputs(t *testing.T) {
	// workgroup_size (2,3,4), local (1,2,3), workgroup (5,6,7):
	// global = (5*2+1, 6*3+2, 7*4+3) = (11,20,31); index = 3*(2*3) + 2*2 + 1 = 23
	runE2E(t, e2eCase{
		name: "builtins",
		wgsl: `
@group(0) @binding(0) var<storage, read_write> o: array<u32, 12>;
@compute @workgroup_size(2, 3, 4)
fn main(@builtin(local_invocation_id) lid: vec3<u32>, @builtin(local_invocation_index) li: u32,
        @builtin(global_invocation_id) gid: vec3<u32>, @builtin(workgroup_id) wid: vec3<u32>) {
  o[0] = lid.x; o[1] = lid.y; o[2] = lid.z;
  o[3] = li;
  o[4] = gid.x; o[5] = gid.y; o[6] = gid.z;
  o[7] = wid.x; o[8] = wid.y; o[9] = wid.z;
}`,
		lid:  [3]uint32{1, 2, 3},
		wid:  [3]uint32{5, 6, 7},
		bufs: map[string][]byte{"u0.0": fill(48, 0xCD)},
		want: map[string][]byte{"u0.0": u32s(1, 2, 3, 23, 11, 20, 31, 5, 6, 7)},
	})
}

func TestE2E_ControlFlow(t *testing.T) {
	runE2E(t, e2eCase{
		name: "cf",
		wgsl: `
@group(0) @binding(0) var<storage, read_write> o: array<u32, 8>;
fn find(limit: u32) -> u32 {
  var i = 0u;
  loop {
    if i * i >= limit { return i; }
    i++;
  }
}
@compute @workgroup_size(1)
fn main() {
  var acc = 0u;
  for (var i = 0u; i < 10u; i++) {
    if i == 3u { continue; }
    if i == 7u { break; }
    acc += i;                       // 0+1+2+4+5+6 = 18
  }
  var j = 0u; var w = 0u;
  while j < 5u { j++; if j % 2u == 0u { continue; } w += j; }   // 1+3+5 = 9
  var k = 0u; var n = 0u;
  loop { n += k; continuing { k++; break if k > 4u; } }          // 0+1+2+3+4 = 10
  var s = 0u;
  for (var a = 0u; a < 3u; a++) {
    for (var b = 0u; b < 3u; b++) {
      if b == 2u { break; }
      if a == 1u { continue; }
      s += a * 10u + b;             // a=0: 0+1 ; a=2: 20+21 => 42
    }
  }
  var sw = 0u;
  for (var c = 0u; c < 6u; c++) {
    switch c {
      case 0u: { sw += 1u; }
      case 1u, 2u: { sw += 10u; }
      default: { sw += 100u; }
      case 4u: { sw += 1000u; }
    }
  }                                 // 1 + 10 + 10 + 100 + 1000 + 100 = 1221
  var t = 0u;
  for (var d = 0u; d < 4u; d++) {
    switch d {
      case 1u: { continue; }
      case 2u: { break; }
      default: { t += 1u; }
    }
    t += 10u;
  }                                 // d=0: 11 ; d=1: skipped ; d=2: 21 ; d=3: 22, 32
  o[0] = acc; o[1] = w; o[2] = n; o[3] = s; o[4] = sw; o[5] = t;
  o[6] = find(50u);                 // 7*7 = 49 < 50 <= 64: 8
}`,
		bufs: map[string][]byte{"u0.0": fill(32, 0xCD)},
		want: map[string][]byte{"u0.0": u32s(18, 9, 10, 42, 1221, 32, 8)},
	})
}

func TestE2E_CallsAndShortCircuit(t *testing.T) {
	runE2E(t, e2eCase{
		name: "calls",
		wgsl: `
@group(0) @binding(0) var<storage, read_write> o: array<u32, 8>;
var<private> calls: u32;
fn c3(x: i32) -> i32 { return x * 3 + 1; }
fn c2(x: i32) -> i32 { return c3(x + 1) - 2; }
fn c1(x: i32) -> i32 { return c2(x) * c2(x - 1); }  // c1(2) = (c3(3)-2) * (c3(2)-2) = 8 * 5 = 40
fn side(v: bool) -> bool { calls += 1u; return v; }
@compute @workgroup_size(1)
fn main() {
  let a = side(false) && side(true);   // 1 call
  let b = side(true) || side(false);   // 1 call
  let c = side(true) && side(false);   // 2 calls
  let d = side(false) || side(true);   // 2 calls
  o[5] = 0u;
  if c1(2) > 39 && side(true) { o[5] = 1u; }  // 1 call
  if c1(2) > 40 && side(true) { o[5] = 2u; }  // not taken, no call
  o[0] = u32(a); o[1] = u32(b); o[2] = u32(c); o[3] = u32(d);
  o[4] = calls;                        // 7
  o[6] = u32(c1(2));                   // 40
}`,
		bufs: map[string][]byte{"u0.0": fill(32, 0xCD)},
		want: map[string][]byte{"u0.0": u32s(0, 1, 0, 1, 7, 1, 40)},
	})
}

func TestE2E_SelectAndVectorComparisons(t *testing.T) {
	runE2E(t, e2eCase{
		name: "select",
		wgsl: `
struct O { s: vec4<i32>, eq: vec4<u32>, nt: vec2<u32>, any_: u32, all_: u32, ne: u32, f: f32, bv: vec3<u32> }
@group(0) @binding(0) var<storage, read_write> o: O;
@group(0) @binding(1) var<storage, read> i: array<vec4<i32>, 2>;
@compute @workgroup_size(1)
fn main() {
  let a = i[0];                 // (1,-2,3,-4)
  let b = i[1];                 // (0,0,5,-4)
  let lt = a < b;               // (f,t,t,f)
  o.s = select(a, b, lt);       // (1,0,5,-4)
  o.eq = select(vec4<u32>(0u), vec4<u32>(1u), a == b);  // (0,0,0,1)
  o.nt = select(vec2<u32>(7u), vec2<u32>(9u), !vec2<bool>(lt.x, lt.y)); // (9,7)
  o.any_ = u32(any(lt));        // 1
  o.all_ = u32(all(lt));        // 0
  o.ne = u32(all(a != b));      // a.w == b.w: 0
  o.f = select(3.0, 4.0, a.x > 0);  // 4.0
  o.bv = vec3<u32>(vec3<bool>(lt.y, lt.x, a.z >= 3) & vec3<bool>(true, true, lt.z)) + vec3<u32>(a.xyz >= b.xyz); // (1,0,1)+(1,0,0) = (2,0,1)
}`,
		// O: s@0 eq@16 nt@32 any@40 all@44 ne@48 f@52 bv@64 ; size 80
		bufs: map[string][]byte{"u0.0": fill(80, 0xCD), "t1.0": i32s(1, -2, 3, -4, 0, 0, 5, -4)},
		want: map[string][]byte{"u0.0": cat(i32s(1, 0, 5, -4), u32s(0, 0, 0, 1), u32s(9, 7), u32s(1, 0, 0), f32s(4), u32s(0xCDCDCDCD, 0xCDCDCDCD), u32s(2, 0, 1))},
	})
}

func TestE2E_BitBuiltins(t *testing.T) {
	runE2E(t, e2eCase{
		name: "bits",
		wgsl: `
@group(0) @binding(0) var<storage, read_write> o: array<u32, 24>;
@group(0) @binding(1) var<storage, read> u: array<u32, 8>;
@group(0) @binding(2) var<storage, read> i: array<i32, 4>;
@compute @workgroup_size(1)
fn main() {
  // u = [0xF0, 0, 0x80000000, 0xffffffff, 4, 8, 28, 32]   i = [-1, 0, 16, -17]
  o[0] = countOneBits(u[0]);           // 4
  // (countLeadingZeros / countTrailingZeros are mistranslated by naga, see TestNagaDefect_CountLeadingTrailingZeros)
  o[1] = countOneBits(u[2]);           // 1
  o[2] = reverseBits(u[2]);            // 1
  o[3] = countTrailingZeros(u[0]);     // 4 (non-zero input)
  o[4] = reverseBits(u[3]);            // 0xffffffff
  o[5] = reverseBits(u[0]);            // 0x0f000000
  o[6] = firstLeadingBit(u[0]);        // 7
  o[7] = firstLeadingBit(u[1]);        // 0xffffffff
  o[8] = firstTrailingBit(u[0]);       // 4
  o[9] = firstTrailingBit(u[1]);       // 0xffffffff
  o[10] = bitcast<u32>(firstLeadingBit(i[0]));  // -1 has no bit differing from the sign: -1
  o[11] = bitcast<u32>(firstLeadingBit(i[1]));  // 0: -1
  o[12] = bitcast<u32>(firstLeadingBit(i[2]));  // 16: 4
  o[13] = bitcast<u32>(firstLeadingBit(i[3]));  // -17 = ...11101111: highest 0 bit is 4
  o[14] = bitcast<u32>(countOneBits(i[3]));     // 0xffffffef has 31 bits set
  o[15] = bitcast<u32>(reverseBits(i[2]));      // 16 = bit 4 -> bit 27: 0x08000000
  o[16] = extractBits(u[0], u[4], u[4]);        // bits 4..7 of 0xF0 = 0xF
  o[17] = bitcast<u32>(extractBits(bitcast<i32>(u[0]), u[4], u[4]));  // sign-extended 0xF = -1
  o[18] = extractBits(u[3], u[1], u[7]);        // offset 0 count 32: 0xffffffff
  o[19] = extractBits(u[3], u[7], u[4]);        // offset 32: count clamps to 0: 0
  o[20] = insertBits(u[3], u[1], u[5], u[5]);   // clear bits 8..15: 0xffff00ff
  o[21] = insertBits(u[1], 0xABu, u[6], u[5]);  // offset 28, count clamps to 4: 0xB0000000
  o[22] = countOneBits(u[3]);          // 32
  o[23] = firstLeadingBit(u[2]);       // 31
}`,
		bufs: map[string][]byte{"u0.0": fill(96, 0xCD), "t1.0": u32s(0xF0, 0, 0x80000000, 0xffffffff, 4, 8, 28, 32), "t2.0": i32s(-1, 0, 16, -17)},
		want: map[string][]byte{"u0.0": u32s(4, 1, 1, 4, 0xffffffff, 0x0f000000, 7, 0xffffffff, 4, 0xffffffff, 0xffffffff, 0xffffffff, 4, 4, 31, 0x08000000,
			0xF, 0xffffffff, 0xffffffff, 0, 0xffff00ff, 0xB0000000, 32, 31)},
	})
}

func TestE2E_PackUnpack(t *testing.T) {
	q := float32(-32) / float32(127) // unpack4x8snorm of 0xE0: -32/127, one correctly rounded division
	fifth := float32(51) / float32(255)
	runE2E(t, e2eCase{
		name: "pack",
		wgsl: `
struct O { p: array<u32, 8>, a: vec4<f32>, b: vec4<f32>, c: vec2<f32>, d: vec2<f32>, e: vec2<f32> }
@group(0) @binding(0) var<storage, read_write> o: O;
@group(0) @binding(1) var<storage, read> f: array<vec4<f32>, 3>;
@group(0) @binding(2) var<storage, read> u: array<u32, 6>;
@compute @workgroup_size(1)
fn main() {
  // f[0] = (0, 1, 0.2, 2)  f[1] = (-1, 1, 0, -0.25)  f[2] = (1, -2, -1, 0)
  o.p[0] = pack4x8unorm(f[0]);      // bytes 0, 255, 51, 255(clamped): 0xff33ff00
  o.p[1] = pack4x8snorm(f[1]);      // bytes -127, 127, 0, round(-31.75) = -32: 0xe0007f81
  o.p[2] = pack2x16unorm(f[0].yx);  // 65535, 0: 0x0000ffff
  o.p[3] = pack2x16snorm(f[1].xy);  // -32767, 32767: 0x7fff8001
  o.p[4] = pack2x16float(f[2].xy);  // 0x3c00, 0xc000: 0xc0003c00
  o.a = unpack4x8unorm(u[0]);       // 0xff33ff00: (0, 1, 51/255, 1)
  o.b = unpack4x8snorm(u[1]);       // 0xe0007f81: (-1, 1, 0, -32/127)
  o.c = unpack2x16float(u[2]);      // 0xc0003c00: (1, -2)
  o.d = unpack2x16unorm(u[3]);      // 0x0000ffff: (1, 0)
  o.e = unpack2x16snorm(u[4]);      // 0x7fff8001: (-1, 1)
}`,
		bufs: map[string][]byte{"u0.0": fill(96, 0xCD), "t1.0": f32s(0, 1, 0.2, 2, -1, 1, 0, -0.25, 1, -2, -1, 0), "t2.0": u32s(0xff33ff00, 0xe0007f81, 0xc0003c00, 0x0000ffff, 0x7fff8001, 0)},
		want: map[string][]byte{"u0.0": cat(u32s(0xff33ff00, 0xe0007f81, 0x0000ffff, 0x7fff8001, 0xc0003c00, 0xCDCDCDCD, 0xCDCDCDCD, 0xCDCDCDCD),
			f32s(0, 1, fifth, 1), f32s(-1, 1, 0, q), f32s(1, -2), f32s(1, 0), f32s(-1, 1))},
	})
}

func TestE2E_MathBuiltins(t *testing.T) {
	runE2E(t, e2eCase{
		name: "math",
		wgsl: `
@group(0) @binding(0) var<storage, read_write> o: array<f32, 32>;
@group(0) @binding(1) var<storage, read> x: array<f32, 8>;
@compute @workgroup_size(1)
fn main() {
  // x = [-2.5, 2.5, 0.75, 3.5, 0.25, 2.0, 8.0, 0.5]
  o[0] = abs(x[0]);            // 2.5
  o[1] = -abs(x[2]);           // -0.75 (sign() of a float is mistranslated by naga, see TestNagaDefect_FloatSign)
  o[2] = floor(x[0]);          // -3
  o[3] = ceil(x[0]);           // -2
  o[4] = trunc(x[0]);          // -2
  o[5] = round(x[1]);          // 2.5 ties to even: 2
  o[6] = round(x[0]);          // -2
  o[7] = round(x[3]);          // 3.5 ties to even: 4
  o[8] = fract(x[0]);          // -2.5 - (-3) = 0.5
  o[9] = fract(x[2]);          // 0.75
  o[10] = saturate(x[1]);      // 1
  o[11] = saturate(x[0]);      // 0
  o[12] = sqrt(x[1] * x[1]);   // sqrt(6.25) = 2.5
  o[13] = inverseSqrt(x[4]);   // 1/0.5 = 2
  o[14] = exp2(x[5] + 1.0);    // 8
  o[15] = log2(x[6]);          // 3
  o[16] = pow(x[1], x[5]);     // 6.25
  o[17] = fma(x[1], x[5], x[2]);  // 5 + 0.75 = 5.75 (exact either fused or not)
  o[18] = mix(x[5], 4.0, x[4]);   // 2 + 0.25*2 = 2.5
  o[19] = step(x[7], x[2]);    // 0.75 >= 0.5: 1
  o[20] = step(x[2], x[7]);    // 0
  o[21] = smoothstep(0.0, 1.0, x[7]);  // 0.25 * (3 - 1) = 0.5
  o[22] = min(x[0], x[1]);     // -2.5
  o[23] = max(x[0], x[1]);     // 2.5
  o[24] = clamp(x[1], 0.0, 1.0);  // 1
  o[25] = min(x[6], max(x[4], x[7]));  // min(8, max(0.25, 0.5)) = 0.5
  let v = vec3<f32>(x[0], x[1], x[3]);
  let r = round(v) + floor(v);  // (-2-3, 2+2, 4+3) = (-5, 4, 7)
  o[26] = r.x; o[27] = r.y; o[28] = r.z;
  o[29] = abs(x[0]) * f32(abs(i32(x[0])));  // 2.5 * 2 = 5
  o[30] = f32(sign(i32(x[0])));             // -1
  o[31] = f32(max(i32(x[0]), -3)) + f32(min(u32(x[3]), 2u));   // max(-2,-3) + min(3,2) = 0
}
`,
		bufs: map[string][]byte{"u0.0": fill(128, 0xCD), "t1.0": f32s(-2.5, 2.5, 0.75, 3.5, 0.25, 2.0, 8.0, 0.5)},
		want: map[string][]byte{"u0.0": f32s(2.5, -0.75, -3, -2, -2, 2, -2, 4, 0.5, 0.75, 1, 0, 2.5, 2, 8, 3, 6.25, 5.75, 2.5, 1, 0, 0.5, -2.5, 2.5, 1, 0.5, -5, 4, 7, 5, -1, 0)},
	})
}

func TestE2E_Collatz(t *testing.T) {
	b, err := os.ReadFile(corpusDir + "/collatz.wgsl")
	if err != nil {
		t.Skip(err)
	}
	// 27 needs 111 steps, 7 needs 16 (7 22 11 34 17 52 26 13 40 20 10 5 16 8 4 2 1), 1 needs 0
	for _, c := range []struct{ idx, want uint32 }{{0, 111}, {1, 16}, {2, 0}} {
		want := u32s(27, 7, 1)
		put(want, int(4*c.idx), u32s(c.want))
		runE2E(t, e2eCase{
			name: "collatz",
			wgsl: string(b),
			wid:  [3]uint32{c.idx, 0, 0},
			bufs: map[string][]byte{"u0.0": u32s(27, 7, 1)},
			want: map[string][]byte{"u0.0": want},
		})
	}
}
