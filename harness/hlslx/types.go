package hlslx

import (
	"fmt"
	"strings"
)

// ScalarKind is the component type of a numeric value.  Only the 32-bit kinds
// are executable; 16/64-bit types parse but are TOpaque at run time.
type ScalarKind uint8

const (
	KNone ScalarKind = iota
	KBool
	KInt
	KUint
	KFloat
)

func (k ScalarKind) String() string {
	switch k {
	case KBool:
		return "bool"
	case KInt:
		return "int"
	case KUint:
		return "uint"
	case KFloat:
		return "float"
	}
	return "?"
}

type TKind uint8

const (
	TVoid TKind = iota
	TScalar
	TVector
	TMatrix
	TArray
	TStruct
	TResource
	TOpaque // a type the interpreter cannot execute (64/16-bit scalars, textures, samplers, ...)
)

// Type is a resolved HLSL type.
type Type struct {
	Kind   TKind
	Scalar ScalarKind
	N      int // vector length
	R, C   int // matrix rows x columns (HLSL meaning: floatRxC)
	Elem   *Type
	Len    int // array length; -1 when unsized
	S      *StructInfo
	Res    string // resource kind, e.g. "RWByteAddressBuffer"
	ResArg *Type  // element type of ConstantBuffer<T>, StructuredBuffer<T>, ...
	Lit    bool   // literal int / literal float (scalar only): adapts to the other operand
	name   string
	flat   int // number of scalar words
}

type StructInfo struct {
	Name   string
	Fields []StructField
	Decl   *StructDecl
}

type StructField struct {
	Name     string
	T        *Type
	RowMajor bool // storage orientation of a matrix member (cbuffer layout only)
	off      int  // flat word offset
	Decl     *VarDecl
}

func (s *StructInfo) field(name string) *StructField {
	for i := range s.Fields {
		if s.Fields[i].Name == name {
			return &s.Fields[i]
		}
	}
	return nil
}

func (t *Type) String() string {
	if t == nil {
		return "<nil>"
	}
	switch t.Kind {
	case TVoid:
		return "void"
	case TScalar:
		if t.Lit {
			return "literal " + t.Scalar.String()
		}
		return t.Scalar.String()
	case TVector:
		return fmt.Sprintf("%s%d", t.Scalar, t.N)
	case TMatrix:
		return fmt.Sprintf("%s%dx%d", t.Scalar, t.R, t.C)
	case TArray:
		// print dimensions outermost first, C style: float[5][10]
		dims := ""
		e := t
		for e.Kind == TArray {
			if e.Len < 0 {
				dims += "[]"
			} else {
				dims += fmt.Sprintf("[%d]", e.Len)
			}
			e = e.Elem
		}
		return e.String() + dims
	case TStruct:
		if t.S.Name == "" {
			return "struct <anonymous>"
		}
		return t.S.Name
	case TResource:
		if t.ResArg != nil {
			return t.Res + "<" + t.ResArg.String() + ">"
		}
		return t.Res
	case TOpaque:
		return t.name
	}
	return "?"
}

var (
	tVoid     = &Type{Kind: TVoid}
	scalarTs  [5]*Type
	vectorTs  [5][5]*Type
	matrixTs  [5][5][5]*Type
	tLitInt   = &Type{Kind: TScalar, Scalar: KInt, Lit: true, flat: 1}
	tLitFloat = &Type{Kind: TScalar, Scalar: KFloat, Lit: true, flat: 1}
)

func init() {
	for k := KBool; k <= KFloat; k++ {
		scalarTs[k] = &Type{Kind: TScalar, Scalar: k, flat: 1}
		for n := 1; n <= 4; n++ {
			vectorTs[k][n] = &Type{Kind: TVector, Scalar: k, N: n, flat: n}
			for c := 1; c <= 4; c++ {
				matrixTs[k][n][c] = &Type{Kind: TMatrix, Scalar: k, R: n, C: c, flat: n * c}
			}
		}
	}
}

func scalarT(k ScalarKind) *Type        { return scalarTs[k] }
func vecT(k ScalarKind, n int) *Type    { return vectorTs[k][n] }
func matT(k ScalarKind, r, c int) *Type { return matrixTs[k][r][c] }

var (
	tBool  *Type
	tInt   *Type
	tUint  *Type
	tFloat *Type
)

func init() {
	tBool, tInt, tUint, tFloat = scalarT(KBool), scalarT(KInt), scalarT(KUint), scalarT(KFloat)
}

func arrayT(elem *Type, n int) *Type {
	t := &Type{Kind: TArray, Elem: elem, Len: n}
	if n > 0 {
		t.flat = elem.flat * n
	}
	return t
}

// isNumeric: scalar, vector or matrix.
func (t *Type) isNumeric() bool {
	return t.Kind == TScalar || t.Kind == TVector || t.Kind == TMatrix
}

// withScalar returns the same shape with another component kind.
func (t *Type) withScalar(k ScalarKind) *Type {
	switch t.Kind {
	case TScalar:
		return scalarT(k)
	case TVector:
		return vecT(k, t.N)
	case TMatrix:
		return matT(k, t.R, t.C)
	}
	return t
}

// nonLit strips the literal flag.
func (t *Type) nonLit() *Type {
	if t.Lit {
		return scalarT(t.Scalar)
	}
	return t
}

func sameType(a, b *Type) bool {
	if a == b {
		return true
	}
	if a == nil || b == nil || a.Kind != b.Kind {
		return false
	}
	switch a.Kind {
	case TVoid:
		return true
	case TScalar:
		return a.Scalar == b.Scalar
	case TVector:
		return a.Scalar == b.Scalar && a.N == b.N
	case TMatrix:
		return a.Scalar == b.Scalar && a.R == b.R && a.C == b.C
	case TArray:
		return a.Len == b.Len && sameType(a.Elem, b.Elem)
	case TStruct:
		return a.S == b.S
	case TResource:
		return a.Res == b.Res && ((a.ResArg == nil && b.ResArg == nil) || (a.ResArg != nil && b.ResArg != nil && sameType(a.ResArg, b.ResArg)))
	case TOpaque:
		return a.name == b.name
	}
	return false
}

// ---- constant-buffer packing ----

// Layout is the byte layout of a value inside a constant buffer, computed
// from the HLSL packing rules:
//
//   - storage is a sequence of 16-byte registers; every scalar takes 4 bytes;
//   - a scalar or vector is placed at the next 4-byte slot, unless it would
//     straddle a register boundary, in which case it starts the next register;
//   - an array starts on a register boundary and so does each of its
//     elements (stride = element size rounded up to 16); the LAST element is
//     not padded, so the array size is stride*(n-1) + elementSize;
//   - a struct starts on a register boundary; its members are packed by these
//     same rules; its size ends at its last member (no tail padding), so a
//     following member may be packed into the struct's last register;
//   - a matrix is stored as registers of vectors: column_major (the default)
//     floatRxC takes C registers holding R components each, row_major floatRxC
//     takes R registers holding C components each; the last register is not
//     padded; a matrix that needs more than one register starts on a register
//     boundary, a one-register matrix packs like a vector.
type Layout struct {
	T      *Type
	Size   int
	Comps  []int // scalar/vector/matrix: byte offset of every component (flatten order)
	Stride int   // array
	Elem   *Layout
	Fields []FieldLayout
}

type FieldLayout struct {
	Name string
	Off  int
	L    *Layout
}

func roundUp16(n int) int { return (n + 15) &^ 15 }

// layoutOf computes the layout of t; rowMajor is the orientation for a matrix
// (or array of matrices) declared at this level.
func layoutOf(t *Type, rowMajor bool) (*Layout, error) {
	switch t.Kind {
	case TScalar:
		return &Layout{T: t, Size: 4, Comps: []int{0}}, nil
	case TVector:
		l := &Layout{T: t, Size: 4 * t.N}
		for i := 0; i < t.N; i++ {
			l.Comps = append(l.Comps, 4*i)
		}
		return l, nil
	case TMatrix:
		l := &Layout{T: t, Comps: make([]int, t.R*t.C)}
		if rowMajor {
			l.Size = 16*(t.R-1) + 4*t.C
		} else {
			l.Size = 16*(t.C-1) + 4*t.R
		}
		for r := 0; r < t.R; r++ {
			for c := 0; c < t.C; c++ {
				if rowMajor {
					l.Comps[r*t.C+c] = 16*r + 4*c
				} else {
					l.Comps[r*t.C+c] = 16*c + 4*r
				}
			}
		}
		return l, nil
	case TArray:
		if t.Len <= 0 {
			return nil, fmt.Errorf("unsized or empty array %s in a constant buffer", t)
		}
		el, err := layoutOf(t.Elem, rowMajor)
		if err != nil {
			return nil, err
		}
		l := &Layout{T: t, Elem: el, Stride: roundUp16(el.Size)}
		l.Size = l.Stride*(t.Len-1) + el.Size
		return l, nil
	case TStruct:
		l := &Layout{T: t}
		off := 0
		for _, f := range t.S.Fields {
			fl, err := layoutOf(f.T, f.RowMajor)
			if err != nil {
				return nil, fmt.Errorf("%s.%s: %v", t.S.Name, f.Name, err)
			}
			off = packAt(off, fl)
			l.Fields = append(l.Fields, FieldLayout{Name: f.Name, Off: off, L: fl})
			off += fl.Size
		}
		l.Size = off
		return l, nil
	}
	return nil, fmt.Errorf("type %s cannot be laid out in a constant buffer", t)
}

// packAt returns the offset at which a member with layout l is placed when the
// previous member ended at off.
func packAt(off int, l *Layout) int {
	multiReg := false
	switch l.T.Kind {
	case TArray, TStruct:
		multiReg = true
	case TMatrix:
		multiReg = l.Size > 16 || regSpan(l) > 1
	}
	if multiReg {
		return roundUp16(off)
	}
	if off%16+l.Size > 16 {
		return roundUp16(off)
	}
	return off
}

func regSpan(l *Layout) int {
	max := 0
	for _, c := range l.Comps {
		if c/16 > max {
			max = c / 16
		}
	}
	return max + 1
}

// ---- type resolution from syntax ----

func opaqueT(name string) *Type { return &Type{Kind: TOpaque, name: name} }

var scalar32 = map[string]ScalarKind{
	"bool": KBool, "int": KInt, "uint": KUint, "dword": KUint, "float": KFloat,
	"int32_t": KInt, "uint32_t": KUint, "float32_t": KFloat,
}

// numericTypeByName resolves builtin numeric type names.
func numericTypeByName(name string) (*Type, bool) {
	base, a, b, ok := splitNumericType(name)
	if !ok {
		return nil, false
	}
	k, is32 := scalar32[base]
	if !is32 {
		// half / double / 64-bit / min-precision: parse-only
		return opaqueT(name), true
	}
	switch {
	case a == 0:
		return scalarT(k), true
	case b == 0:
		return vecT(k, a), true
	default:
		return matT(k, a, b), true
	}
}

func typeList(ts []*Type) string {
	var sb strings.Builder
	for i, t := range ts {
		if i > 0 {
			sb.WriteString(", ")
		}
		sb.WriteString(t.String())
	}
	return sb.String()
}
