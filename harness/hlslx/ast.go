package hlslx

// ---- syntactic types ----

// TypeSpec is a type as written: a name with optional template arguments, or
// an anonymous struct body (typedef struct { ... } name;).
type TypeSpec struct {
	Pos      Pos
	Name     string
	Tmpl     []TmplArg   // Texture2D<float4>, ConstantBuffer<T>, vector<float,3>, RayQuery<FLAGS>
	HasTmpl  bool        // "<...>" present
	Struct   *StructDecl // inline struct definition
	ArrayPre []Expr      // NON-HLSL: dimensions written after the type ("int[4] x"); see Unit.Diagnostics
	ref      *Ref
}

// TmplArg is one template argument: a type or a constant expression.
type TmplArg struct {
	Type *TypeSpec
	Mods []string // unorm / snorm
	Expr Expr
}

// RegisterSpec is ": register(u3, space1)".
type RegisterSpec struct {
	Pos      Pos
	Letter   byte
	Num      int
	Space    int
	HasSpace bool
}

// ---- declarations ----

type StructDecl struct {
	Pos     Pos
	Name    string
	Members []*VarDecl
	info    *StructInfo
	declID  int
}

type TypedefDecl struct {
	Pos    Pos
	Name   string
	Type   *TypeSpec
	Dims   []Expr
	declID int
}

// Storage class / kind of a variable declaration.
type VarClass uint8

const (
	VLocal VarClass = iota
	VParam
	VGlobal // non-static global: resource, or uniform in $Globals
	VStatic // static global
	VGroupShared
	VCBMember // member of a cbuffer block (global scope)
	VMember   // struct member
	VStaticLocal
)

type VarDecl struct {
	Pos      Pos
	Name     string
	Type     *TypeSpec
	Dims     []Expr // array dimensions, outermost first; nil expr = unsized []
	Init     Expr
	Mods     []string // all modifier keywords as written, in order
	Semantic string
	Register *RegisterSpec
	Class    VarClass
	CBuffer  *CBufferDecl // for VCBMember

	// parameter direction
	In, Out bool

	// resolved by the checker
	typ    *Type
	slot   int // index in the function frame (locals/params)
	declID int
	cbLay  *Layout // for VCBMember / ConstantBuffer<T>: layout within the buffer
	cbOff  int
}

func (v *VarDecl) hasMod(m string) bool {
	for _, x := range v.Mods {
		if x == m {
			return true
		}
	}
	return false
}

type CBufferDecl struct {
	Pos      Pos
	Name     string
	Register *RegisterSpec
	Members  []*VarDecl
	TBuffer  bool
	declID   int
	size     int
}

type Attr struct {
	Pos  Pos
	Name string
	Args []Expr
}

type FuncDecl struct {
	Pos         Pos
	Name        string
	Ret         *TypeSpec
	RetDims     []Expr
	RetMods     []string
	RetSemantic string
	Params      []*VarDecl
	Body        *BlockStmt // nil for a prototype
	Attrs       []Attr

	ret        *Type
	nslots     int
	declID     int
	numthreads [3]int
	isEntry    bool
}

// TopDecl is one of *StructDecl, *TypedefDecl, *VarDecl (+ siblings via
// *VarGroup), *CBufferDecl, *FuncDecl.
type TopDecl interface{}

type VarGroup struct{ Vars []*VarDecl }

// ---- statements ----

type Stmt interface{ stmtPos() Pos }

type BlockStmt struct {
	Pos   Pos
	Stmts []Stmt
}
type DeclStmt struct {
	Pos  Pos
	Vars []*VarDecl
	// local struct/typedef declarations are not supported
}
type ExprStmt struct {
	Pos Pos
	X   Expr
}
type IfStmt struct {
	Pos  Pos
	Cond Expr
	Then Stmt
	Else Stmt
}
type SwitchSection struct {
	Pos        Pos
	Labels     []Expr // case expressions
	HasDefault bool
	Body       []Stmt
}
type SwitchStmt struct {
	Pos      Pos
	Tag      Expr
	Sections []*SwitchSection
}
type ForStmt struct {
	Pos  Pos
	Init Stmt // DeclStmt, ExprStmt or nil
	Cond Expr
	Post Expr
	Body Stmt
}
type WhileStmt struct {
	Pos  Pos
	Cond Expr
	Body Stmt
}
type DoWhileStmt struct {
	Pos  Pos
	Body Stmt
	Cond Expr
}
type BreakStmt struct{ Pos Pos }
type ContinueStmt struct{ Pos Pos }
type DiscardStmt struct{ Pos Pos }
type ReturnStmt struct {
	Pos Pos
	X   Expr
}
type EmptyStmt struct{ Pos Pos }

func (s *BlockStmt) stmtPos() Pos    { return s.Pos }
func (s *DeclStmt) stmtPos() Pos     { return s.Pos }
func (s *ExprStmt) stmtPos() Pos     { return s.Pos }
func (s *IfStmt) stmtPos() Pos       { return s.Pos }
func (s *SwitchStmt) stmtPos() Pos   { return s.Pos }
func (s *ForStmt) stmtPos() Pos      { return s.Pos }
func (s *WhileStmt) stmtPos() Pos    { return s.Pos }
func (s *DoWhileStmt) stmtPos() Pos  { return s.Pos }
func (s *BreakStmt) stmtPos() Pos    { return s.Pos }
func (s *ContinueStmt) stmtPos() Pos { return s.Pos }
func (s *DiscardStmt) stmtPos() Pos  { return s.Pos }
func (s *ReturnStmt) stmtPos() Pos   { return s.Pos }
func (s *EmptyStmt) stmtPos() Pos    { return s.Pos }

// ---- expressions ----

type Expr interface{ exprPos() Pos }

type Ident struct {
	Pos  Pos
	Name string
	// resolution
	v     *VarDecl
	funcs []*FuncDecl
	ref   *Ref
}
type IntLit struct {
	Pos    Pos
	Val    uint64
	Suffix string
}
type FloatLit struct {
	Pos    Pos
	Val    float64
	Suffix string
}
type BoolLit struct {
	Pos Pos
	Val bool
}
type StringLit struct {
	Pos Pos
	Val string
}
type ParenExpr struct {
	Pos Pos
	X   Expr
}
type UnaryExpr struct {
	Pos     Pos
	Op      string // + - ! ~ ++ --
	X       Expr
	Postfix bool
}
type BinaryExpr struct {
	Pos  Pos
	Op   string
	L, R Expr
}
type AssignExpr struct {
	Pos  Pos
	Op   string // "=", "+=", ...
	L, R Expr
}
type TernaryExpr struct {
	Pos        Pos
	Cond, A, B Expr
}
type CommaExpr struct {
	Pos  Pos
	L, R Expr
}

// CallExpr is f(args) where f is a plain identifier (user function or
// intrinsic).
type CallExpr struct {
	Pos  Pos
	Fun  *Ident
	Args []Expr
}

// CtorExpr is T(args) for a builtin numeric type name.
type CtorExpr struct {
	Pos  Pos
	Type *TypeSpec
	Args []Expr
	typ  *Type
}

// MethodExpr is recv.Name(args) / recv.Name<T>(args).
type MethodExpr struct {
	Pos  Pos
	Recv Expr
	Name string
	Tmpl []TmplArg
	Args []Expr
}
type MemberExpr struct {
	Pos     Pos
	X       Expr
	Name    string
	NamePos Pos
	ref     *Ref
}
type IndexExpr struct {
	Pos Pos
	X   Expr
	I   Expr
}

// CastExpr is (T[dims])x.
type CastExpr struct {
	Pos  Pos
	Type *TypeSpec
	Dims []Expr
	X    Expr
	typ  *Type
}
type InitList struct {
	Pos   Pos
	Elems []Expr
}

func (e *Ident) exprPos() Pos       { return e.Pos }
func (e *IntLit) exprPos() Pos      { return e.Pos }
func (e *FloatLit) exprPos() Pos    { return e.Pos }
func (e *BoolLit) exprPos() Pos     { return e.Pos }
func (e *StringLit) exprPos() Pos   { return e.Pos }
func (e *ParenExpr) exprPos() Pos   { return e.Pos }
func (e *UnaryExpr) exprPos() Pos   { return e.Pos }
func (e *BinaryExpr) exprPos() Pos  { return e.Pos }
func (e *AssignExpr) exprPos() Pos  { return e.Pos }
func (e *TernaryExpr) exprPos() Pos { return e.Pos }
func (e *CommaExpr) exprPos() Pos   { return e.Pos }
func (e *CallExpr) exprPos() Pos    { return e.Pos }
func (e *CtorExpr) exprPos() Pos    { return e.Pos }
func (e *MethodExpr) exprPos() Pos  { return e.Pos }
func (e *MemberExpr) exprPos() Pos  { return e.Pos }
func (e *IndexExpr) exprPos() Pos   { return e.Pos }
func (e *CastExpr) exprPos() Pos    { return e.Pos }
func (e *InitList) exprPos() Pos    { return e.Pos }
