package hlslx

import (
	"encoding/binary"
	"math"
	"os"
	"testing"

	"github.com/gogpu/naga"
	"github.com/gogpu/naga/hlsl"
	"github.com/gogpu/naga/ir"

	"verif/harness/xrt"
)

// compileWGSL runs real naga: WGSL -> IR -> HLSL text.
func compileWGSL(t testing.TB, wgsl string, opts *hlsl.Options) string {
	t.Helper()
	src, err := tryCompileWGSL(wgsl, opts)
	if err != nil {
		t.Fatalf("naga: %v", err)
	}
	return src
}

func lowerWGSL(wgsl string) (*ir.Module, error) {
	ast, err := naga.Parse(wgsl)
	if err != nil {
		return nil, err
	}
	return naga.LowerWithSource(ast, wgsl)
}

func tryCompileWGSL(wgsl string, opts *hlsl.Options) (string, error) {
	m, err := lowerWGSL(wgsl)
	if err != nil {
		return "", err
	}
	if opts == nil {
		opts = hlsl.DefaultOptions()
	}
	src, _, err := hlsl.Compile(m, opts)
	return src, err
}

// ---- byte buffer helpers ----

func u32s(vs ...uint32) []byte {
	b := make([]byte, 4*len(vs))
	for i, v := range vs {
		binary.LittleEndian.PutUint32(b[4*i:], v)
	}
	return b
}

func i32s(vs ...int32) []byte {
	b := make([]byte, 4*len(vs))
	for i, v := range vs {
		binary.LittleEndian.PutUint32(b[4*i:], uint32(v))
	}
	return b
}

func f32s(vs ...float32) []byte {
	b := make([]byte, 4*len(vs))
	for i, v := range vs {
		binary.LittleEndian.PutUint32(b[4*i:], math.Float32bits(v))
	}
	return b
}

func getU32(b []byte, i int) uint32 { return binary.LittleEndian.Uint32(b[4*i:]) }
func getI32(b []byte, i int) int32  { return int32(binary.LittleEndian.Uint32(b[4*i:])) }
func getF32(b []byte, i int) float32 {
	return math.Float32frombits(binary.LittleEndian.Uint32(b[4*i:]))
}

func wantU32s(t *testing.T, name string, b []byte, want ...uint32) {
	t.Helper()
	for i, w := range want {
		if g := getU32(b, i); g != w {
			t.Errorf("%s[%d] = %d (0x%08x), want %d (0x%08x)", name, i, g, g, w, w)
		}
	}
}

func wantI32s(t *testing.T, name string, b []byte, want ...int32) {
	t.Helper()
	for i, w := range want {
		if g := getI32(b, i); g != w {
			t.Errorf("%s[%d] = %d, want %d", name, i, g, w)
		}
	}
}

func wantF32s(t *testing.T, name string, b []byte, want ...float32) {
	t.Helper()
	for i, w := range want {
		g := getF32(b, i)
		if math.Float32bits(g) != math.Float32bits(w) && !(g != g && w != w) {
			t.Errorf("%s[%d] = %v (0x%08x), want %v (0x%08x)", name, i, g, math.Float32bits(g), w, math.Float32bits(w))
		}
	}
}

// lenient accepts naga's non-HLSL "T[N] name" array declarations.
var lenient = Options{AllowArrayTypeSuffix: true}

// runOK executes and fails the test on trap/skip.
func runOK(t *testing.T, src string, in xrt.Input) xrt.Outcome {
	t.Helper()
	out := RunWith(src, in, lenient)
	if !out.OK() {
		t.Fatalf("outcome trap=%q skip=%q\n--- HLSL ---\n%s", out.Trap, out.Skip, src)
	}
	return out
}

func mustReadCorpus(t *testing.T, name string) string {
	t.Helper()
	b, err := os.ReadFile(corpusDir + "/" + name)
	if err != nil {
		t.Skip(err)
	}
	return string(b)
}
