package hlslx

import (
	"fmt"
	"math"
	"strings"

	"verif/harness/xrt"
)

type cell struct {
	T   *Type
	w   []word
	res *resBinding
	ro  bool
	bad bool // unsupported type: any use skips
}

type frame struct {
	fn     *FuncDecl
	cells  []*cell
	retVal Value
}

type ctl uint8

const (
	ctlNone ctl = iota
	ctlBreak
	ctlContinue
	ctlReturn
)

type machine struct {
	u       *Unit
	in      *xrt.Input
	fuel    int
	steps   int
	globals map[*VarDecl]*cell
	res     map[*VarDecl]*resBinding
	cbres   map[*CBufferDecl]*resBinding
	acc     []xrt.Access
	slotUse map[string]*resBinding // register -> the resource that was accessed through it
	depth   int
	fr      *frame
}

const maxCallDepth = 200

// place designates storage: interpreter memory (w, optionally through a
// swizzle sw), a region of a constant buffer (cb) or a resource object (res).
type place struct {
	T    *Type
	w    []word
	sw   []int
	cb   *cbRef
	res  *resBinding
	ro   bool
	why  string
	name string
}

func (m *machine) step(pos Pos) {
	m.steps++
	if m.steps > m.fuel {
		panic(skipError{fmt.Sprintf("fuel: more than %d steps (at %s)", m.fuel, pos)})
	}
}

// charge accounts for bulk work (large copies) so that fuel bounds CPU time.
func (m *machine) charge(words int, pos Pos) {
	if words >= 256 {
		m.steps += words / 256
		if m.steps > m.fuel {
			panic(skipError{fmt.Sprintf("fuel: more than %d steps (at %s)", m.fuel, pos)})
		}
	}
}

// use traps when any word of v is undefined: v is consumed by an operation.
func (m *machine) use(v Value, pos Pos, what string) {
	for i := range v.W {
		if !v.W[i].def {
			trapf("%s: read of uninitialised value (component %d of a %s) used by %s", pos, i, v.T, what)
		}
	}
}

// ---- conversion ----

func (m *machine) convert(v Value, to *Type, mode convMode, pos Pos) Value {
	if to.Kind == TResource {
		if v.T.Kind == TResource && v.T.Res == to.Res {
			return v
		}
		skipf("%s: compile error: cannot convert %s to %s", pos, v.T, to)
	}
	if v.T.Kind == TResource || v.T.Kind == TVoid || to.Kind == TVoid {
		skipf("%s: compile error: cannot convert %s to %s", pos, v.T, to)
	}
	if sameType(v.T, to) {
		if v.T.Lit {
			return Value{T: to, W: v.W}
		}
		return v
	}
	plan, err := conversionPlan(v.T.nonLit(), to, mode)
	if err != nil {
		skipf("%s: compile error: %v", pos, err)
	}
	var kinds []ScalarKind
	if to.isNumeric() {
		kinds = nil
	} else {
		kinds = scalarKinds(to, make([]ScalarKind, 0, to.flat))
	}
	var srcKinds []ScalarKind
	if !v.T.isNumeric() {
		srcKinds = scalarKinds(v.T, make([]ScalarKind, 0, v.T.flat))
	}
	out := make([]word, to.flat)
	m.charge(to.flat, pos)
	for i := range out {
		si := plan[i]
		w := v.W[si]
		fk := v.T.Scalar
		if srcKinds != nil {
			fk = srcKinds[si]
		}
		tk := to.Scalar
		if kinds != nil {
			tk = kinds[i]
		}
		if fk != tk {
			if !w.def {
				trapf("%s: read of uninitialised value in conversion %s -> %s", pos, v.T, to)
			}
			w = convScalar(w, fk, tk)
		}
		out[i] = w
	}
	return Value{T: to, W: out}
}

// ---- places ----

func (p *place) load(m *machine, pos Pos) Value {
	switch {
	case p.res != nil:
		return Value{T: p.T, Res: p.res}
	case p.cb != nil:
		return m.cbLoad(p.cb, pos)
	case p.sw != nil:
		w := make([]word, len(p.sw))
		for i, k := range p.sw {
			w[i] = p.w[k]
		}
		return Value{T: p.T, W: w}
	}
	w := make([]word, len(p.w))
	copy(w, p.w)
	m.charge(len(w), pos)
	return Value{T: p.T, W: w}
}

func (p *place) store(m *machine, v Value, pos Pos) {
	if p.ro {
		skipf("%s: compile error: assignment to %s", pos, p.why)
	}
	if p.res != nil || p.cb != nil {
		skipf("%s: compile error: assignment to a resource or constant buffer", pos)
	}
	if p.sw != nil {
		for i, k := range p.sw {
			p.w[k] = v.W[i]
		}
		return
	}
	if len(v.W) != len(p.w) {
		skipf("%s: internal: store of %d words into %d (%s <- %s)", pos, len(v.W), len(p.w), p.T, v.T)
	}
	copy(p.w, v.W)
	m.charge(len(v.W), pos)
}

func (m *machine) cellOf(v *VarDecl, pos Pos) *cell {
	switch v.Class {
	case VLocal, VParam:
		if m.fr == nil || v.slot < 0 || v.slot >= len(m.fr.cells) {
			skipf("%s: internal: variable '%s' has no frame slot", pos, v.Name)
		}
		c := m.fr.cells[v.slot]
		if c == nil {
			skipf("%s: compile error: variable '%s' used before its declaration was executed", pos, v.Name)
		}
		return c
	case VStatic, VGroupShared:
		c := m.globals[v]
		if c == nil {
			skipf("%s: use of global '%s' before its initialisation", pos, v.Name)
		}
		if c.bad {
			skipf("%s: global '%s' has unsupported type %s", pos, v.Name, c.T)
		}
		return c
	}
	skipf("%s: internal: no cell for '%s'", pos, v.Name)
	return nil
}

func (m *machine) evalPlace(e Expr) place {
	switch x := e.(type) {
	case *Ident:
		v := x.v
		if v == nil {
			if len(x.funcs) > 0 {
				skipf("%s: compile error: function '%s' used as a value", x.Pos, x.Name)
			}
			skipf("%s: compile error: undeclared identifier '%s'", x.Pos, x.Name)
		}
		switch v.Class {
		case VLocal, VParam, VStatic, VGroupShared:
			c := m.cellOf(v, x.Pos)
			if c.res != nil {
				return place{T: c.T, res: c.res, name: v.Name}
			}
			p := place{T: c.T, w: c.w, name: v.Name}
			if c.ro {
				p.ro, p.why = true, "const variable '"+v.Name+"'"
			}
			return p
		case VCBMember:
			rb := m.cbres[v.CBuffer]
			if rb == nil || v.cbLay == nil {
				skipf("%s: constant buffer '%s' has no usable layout: %v", x.Pos, v.CBuffer.Name, m.u.resErr)
			}
			return place{T: v.typ, cb: &cbRef{rb: rb, off: v.cbOff, lay: v.cbLay}, ro: true, why: "constant buffer member '" + v.Name + "'", name: v.Name}
		case VGlobal:
			if v.typ.Kind == TResource {
				rb := m.res[v]
				if rb == nil {
					skipf("%s: resource '%s' has no register binding", x.Pos, v.Name)
				}
				if v.typ.Res == "ConstantBuffer" || v.typ.Res == "TextureBuffer" {
					if v.cbLay == nil {
						skipf("%s: ConstantBuffer '%s' has no usable layout", x.Pos, v.Name)
					}
					return place{T: v.typ.ResArg, cb: &cbRef{rb: rb, off: 0, lay: v.cbLay}, ro: true, why: "constant buffer '" + v.Name + "'", name: v.Name}
				}
				return place{T: v.typ, res: rb, name: v.Name}
			}
			skipf("%s: global '%s' is a uniform in the default constant buffer ($Globals): not supported", x.Pos, v.Name)
		case VStaticLocal:
			skipf("%s: static local variable '%s' not supported", x.Pos, v.Name)
		}
		skipf("%s: internal: identifier class", x.Pos)
	case *ParenExpr:
		if _, isComma := x.X.(*CommaExpr); !isComma {
			return m.evalPlace(x.X)
		}
	case *MemberExpr:
		return m.memberPlace(x)
	case *IndexExpr:
		return m.indexPlace(x)
	}
	v := m.eval(e)
	return place{T: v.T, w: v.W, res: v.Res, ro: true, why: "an expression that is not an l-value"}
}

func (m *machine) memberPlace(x *MemberExpr) place {
	b := m.evalPlace(x.X)
	switch b.T.Kind {
	case TStruct:
		f := b.T.S.field(x.Name)
		if f == nil {
			skipf("%s: compile error: struct '%s' has no member '%s'", x.NamePos, b.T.S.Name, x.Name)
		}
		if b.cb != nil {
			var fl *FieldLayout
			for i := range b.cb.lay.Fields {
				if b.cb.lay.Fields[i].Name == x.Name {
					fl = &b.cb.lay.Fields[i]
				}
			}
			if fl == nil {
				skipf("%s: internal: no layout for member '%s'", x.NamePos, x.Name)
			}
			return place{T: f.T, cb: &cbRef{oob: b.cb.oob, rb: b.cb.rb, off: b.cb.off + fl.Off, lay: fl.L}, ro: true, why: b.why, name: b.name}
		}
		if b.sw != nil {
			skipf("%s: internal: member of swizzle", x.Pos)
		}
		if f.T.Kind == TResource {
			skipf("%s: resource inside a struct not supported", x.Pos)
		}
		return place{T: f.T, w: b.w[f.off : f.off+f.T.flat], ro: b.ro, why: b.why, name: b.name}
	case TScalar, TVector:
		n := 1
		if b.T.Kind == TVector {
			n = b.T.N
		}
		idx, ok := parseSwizzle(x.Name, n)
		if !ok {
			skipf("%s: compile error: invalid swizzle '.%s' on %s", x.NamePos, x.Name, b.T)
		}
		var rt *Type
		if len(idx) == 1 {
			rt = scalarT(b.T.Scalar)
		} else {
			rt = vecT(b.T.Scalar, len(idx))
		}
		if b.cb != nil {
			comps := b.cb.compList()
			nc := make([]int, len(idx))
			for i, k := range idx {
				nc[i] = comps[k]
			}
			return place{T: rt, cb: &cbRef{oob: b.cb.oob, rb: b.cb.rb, off: b.cb.off, comps: nc, T: rt}, ro: true, why: b.why, name: b.name}
		}
		dupl := false
		for i := range idx {
			for j := 0; j < i; j++ {
				if idx[i] == idx[j] {
					dupl = true
				}
			}
		}
		p := place{T: rt, w: b.w, ro: b.ro, why: b.why, name: b.name}
		if dupl && !p.ro {
			p.ro, p.why = true, "a swizzle with repeated components"
		}
		if b.sw != nil {
			p.sw = make([]int, len(idx))
			for i, k := range idx {
				p.sw[i] = b.sw[k]
			}
		} else if len(idx) == 1 && !dupl {
			p.w = b.w[idx[0] : idx[0]+1]
		} else {
			p.sw = idx
		}
		return p
	case TMatrix:
		idx, ok := parseMatrixSwizzle(x.Name, b.T.R, b.T.C)
		if !ok {
			skipf("%s: compile error: invalid matrix member '.%s' on %s", x.NamePos, x.Name, b.T)
		}
		var rt *Type
		if len(idx) == 1 {
			rt = scalarT(b.T.Scalar)
		} else {
			rt = vecT(b.T.Scalar, len(idx))
		}
		if b.cb != nil {
			comps := b.cb.compList()
			nc := make([]int, len(idx))
			for i, k := range idx {
				nc[i] = comps[k]
			}
			return place{T: rt, cb: &cbRef{oob: b.cb.oob, rb: b.cb.rb, off: b.cb.off, comps: nc, T: rt}, ro: true, why: b.why, name: b.name}
		}
		if b.sw != nil {
			skipf("%s: internal: matrix swizzle of swizzle", x.Pos)
		}
		return place{T: rt, w: b.w, sw: idx, ro: b.ro, why: b.why, name: b.name}
	case TResource:
		skipf("%s: member '.%s' of resource %s not supported", x.NamePos, x.Name, b.T)
	}
	skipf("%s: compile error: member access '.%s' on %s", x.NamePos, x.Name, b.T)
	return place{}
}

// parseMatrixSwizzle decodes _m00 / _11 style matrix component access.
func parseMatrixSwizzle(s string, R, C int) ([]int, bool) {
	var idx []int
	zero := -1
	for len(s) > 0 {
		if s[0] != '_' {
			return nil, false
		}
		s = s[1:]
		z := 0
		if len(s) > 0 && s[0] == 'm' {
			z = 1
			s = s[1:]
		}
		if zero >= 0 && zero != z {
			return nil, false
		}
		zero = z
		if len(s) < 2 || !isDigit(s[0]) || !isDigit(s[1]) {
			return nil, false
		}
		r, c := int(s[0]-'0'), int(s[1]-'0')
		if z == 0 {
			r--
			c--
		}
		if r < 0 || c < 0 || r >= R || c >= C {
			return nil, false
		}
		idx = append(idx, r*C+c)
		s = s[2:]
	}
	if len(idx) == 0 || len(idx) > 4 {
		return nil, false
	}
	return idx, true
}

func (m *machine) indexValue(e Expr) (int64, Value) {
	iv := m.eval(e)
	if iv.T.Kind != TScalar {
		if iv.T.Kind == TVector && iv.T.N == 1 {
			iv = Value{T: scalarT(iv.T.Scalar), W: iv.W}
		} else {
			skipf("%s: compile error: index of type %s", e.exprPos(), iv.T)
		}
	}
	m.use(iv, e.exprPos(), "an index")
	switch iv.T.Scalar {
	case KInt:
		return int64(int32(iv.W[0].v)), iv
	case KUint, KBool:
		return int64(iv.W[0].v), iv
	case KFloat:
		// HLSL converts a float index to int implicitly
		return int64(ftoi(f32(iv.W[0]))), iv
	}
	return 0, iv
}

func (m *machine) indexPlace(x *IndexExpr) place {
	b := m.evalPlace(x.X)
	if b.res != nil {
		skipf("%s: indexing of resource %s not supported", x.Pos, b.T)
	}
	i, _ := m.indexValue(x.I)
	switch b.T.Kind {
	case TArray:
		if b.cb != nil {
			// constant buffer: the address is computed as the layout dictates.
			// An index outside the declared array reads whatever lies there
			// (0 beyond the buffer); it is recorded by the access trace.
			lay := b.cb.lay
			if o64 := int64(b.cb.off) + i*int64(lay.Stride); b.cb.oob || o64 < 0 || o64 > 1<<28 {
				return place{T: b.T.Elem, cb: &cbRef{rb: b.cb.rb, off: -1, lay: lay.Elem, oob: true}, ro: true, why: b.why, name: b.name}
			}
			return place{T: b.T.Elem, cb: &cbRef{oob: b.cb.oob, rb: b.cb.rb, off: b.cb.off + int(i)*lay.Stride, lay: lay.Elem}, ro: true, why: b.why, name: b.name}
		}
		if i < 0 || i >= int64(b.T.Len) {
			trapf("%s: out-of-range index %d into array %s%s: undefined", x.Pos, i, b.T, ofName(b.name))
		}
		n := b.T.Elem.flat
		return place{T: b.T.Elem, w: b.w[int(i)*n : int(i)*n+n], ro: b.ro, why: b.why, name: b.name}
	case TVector:
		if i < 0 || i >= int64(b.T.N) {
			trapf("%s: out-of-range index %d into vector %s%s: undefined", x.Pos, i, b.T, ofName(b.name))
		}
		rt := scalarT(b.T.Scalar)
		if b.cb != nil {
			comps := b.cb.compList()
			return place{T: rt, cb: &cbRef{oob: b.cb.oob, rb: b.cb.rb, off: b.cb.off, comps: []int{comps[i]}, T: rt}, ro: true, why: b.why, name: b.name}
		}
		if b.sw != nil {
			k := b.sw[i]
			return place{T: rt, w: b.w[k : k+1], ro: b.ro, why: b.why, name: b.name}
		}
		return place{T: rt, w: b.w[i : i+1], ro: b.ro, why: b.why, name: b.name}
	case TMatrix:
		if i < 0 || i >= int64(b.T.R) {
			trapf("%s: out-of-range row index %d into matrix %s%s: undefined", x.Pos, i, b.T, ofName(b.name))
		}
		rt := vecT(b.T.Scalar, b.T.C)
		if b.cb != nil {
			comps := b.cb.compList()
			return place{T: rt, cb: &cbRef{oob: b.cb.oob, rb: b.cb.rb, off: b.cb.off, comps: comps[int(i)*b.T.C : int(i+1)*b.T.C], T: rt}, ro: true, why: b.why, name: b.name}
		}
		if b.sw != nil {
			skipf("%s: internal: index of matrix swizzle", x.Pos)
		}
		c := b.T.C
		return place{T: rt, w: b.w[int(i)*c : int(i)*c+c], ro: b.ro, why: b.why, name: b.name}
	case TScalar:
		skipf("%s: compile error: indexing a scalar", x.Pos)
	}
	skipf("%s: compile error: indexing %s", x.Pos, b.T)
	return place{}
}

func ofName(n string) string {
	if n == "" {
		return ""
	}
	return " ('" + n + "')"
}

// ---- expressions ----

func (m *machine) eval(e Expr) Value {
	switch x := e.(type) {
	case *IntLit:
		switch x.Suffix {
		case "":
			if x.Val <= math.MaxInt32 {
				return Value{T: tLitInt, W: []word{dw(uint32(x.Val))}}
			}
			if x.Val <= math.MaxUint32 {
				return uintValue(uint32(x.Val))
			}
			skipf("%s: integer literal %d does not fit 32 bits", x.Pos, x.Val)
		case "u":
			if x.Val > math.MaxUint32 {
				skipf("%s: integer literal %d does not fit 32 bits", x.Pos, x.Val)
			}
			return uintValue(uint32(x.Val))
		default:
			skipf("%s: 64-bit integer literal (suffix %q) not supported", x.Pos, x.Suffix)
		}
	case *FloatLit:
		switch x.Suffix {
		case "", "f":
			t := tLitFloat
			if x.Suffix == "f" {
				t = tFloat
			}
			return Value{T: t, W: []word{fw(float32(x.Val))}}
		}
		skipf("%s: float literal suffix %q (half/double) not supported", x.Pos, x.Suffix)
	case *BoolLit:
		return boolValue(x.Val)
	case *StringLit:
		skipf("%s: string literal in expression", x.Pos)
	case *ParenExpr:
		return m.eval(x.X)
	case *Ident, *MemberExpr, *IndexExpr:
		p := m.evalPlace(e)
		return p.load(m, e.exprPos())
	case *UnaryExpr:
		return m.evalUnary(x)
	case *BinaryExpr:
		a := m.eval(x.L)
		b := m.eval(x.R)
		return m.binary(x.Op, a, b, x.Pos)
	case *AssignExpr:
		return m.evalAssign(x)
	case *TernaryExpr:
		return m.evalTernary(x)
	case *CommaExpr:
		m.eval(x.L)
		return m.eval(x.R)
	case *CallExpr:
		return m.evalCall(x)
	case *CtorExpr:
		return m.evalCtor(x)
	case *CastExpr:
		if x.typ == nil {
			skipf("%s: internal: unresolved cast type", x.Pos)
		}
		if hasOpaque(x.typ) {
			skipf("%s: cast to unsupported type %s", x.Pos, x.typ)
		}
		v := m.eval(x.X)
		return m.convert(v, x.typ, convExplicit, x.Pos)
	case *MethodExpr:
		return m.evalMethod(x)
	case *InitList:
		skipf("%s: initializer list outside an initializer", x.Pos)
	}
	skipf("%s: internal: unknown expression node %T", e.exprPos(), e)
	return Value{}
}

func (m *machine) evalUnary(x *UnaryExpr) Value {
	if x.Op == "++" || x.Op == "--" {
		p := m.evalPlace(x.X)
		old := p.load(m, x.Pos)
		if !old.T.isNumeric() || old.T.Scalar == KBool {
			skipf("%s: compile error: %s on %s", x.Pos, x.Op, old.T)
		}
		m.use(old, x.Pos, x.Op)
		op := "+"
		if x.Op == "--" {
			op = "-"
		}
		one := Value{T: tLitInt, W: []word{dw(1)}}
		nv := m.convert(m.binary(op, old, one, x.Pos), old.T, convImplicit, x.Pos)
		p.store(m, nv, x.Pos)
		if x.Postfix {
			return old
		}
		return nv
	}
	v := m.eval(x.X)
	if !v.T.isNumeric() {
		skipf("%s: compile error: unary %s on %s", x.Pos, x.Op, v.T)
	}
	switch x.Op {
	case "+":
		return v
	case "-":
		m.use(v, x.Pos, "unary -")
		t := v.T
		if t.Scalar == KBool {
			t = t.withScalar(KInt)
			v = m.convert(v, t, convImplicit, x.Pos)
		}
		out := make([]word, len(v.W))
		for i, w := range v.W {
			if t.Scalar == KFloat {
				out[i] = dw(w.v ^ 0x80000000)
			} else {
				out[i] = dw(-w.v) // two's complement negation (D3D ineg), wraps
			}
		}
		return Value{T: t, W: out}
	case "!":
		m.use(v, x.Pos, "!")
		bv := m.convert(v, v.T.nonLit().withScalar(KBool), convImplicit, x.Pos)
		out := make([]word, len(bv.W))
		for i, w := range bv.W {
			out[i] = boolWord(w.v == 0)
		}
		return Value{T: bv.T, W: out}
	case "~":
		m.use(v, x.Pos, "~")
		t := v.T
		if t.Scalar == KFloat {
			skipf("%s: compile error: ~ on %s", x.Pos, t)
		}
		if t.Scalar == KBool {
			t = t.withScalar(KInt)
			v = m.convert(v, t, convImplicit, x.Pos)
		}
		out := make([]word, len(v.W))
		for i, w := range v.W {
			out[i] = dw(^w.v)
		}
		return Value{T: t, W: out}
	}
	skipf("%s: unknown unary operator %s", x.Pos, x.Op)
	return Value{}
}

// binary evaluates "a op b" component-wise under HLSL's conversion rules.
// && and || evaluate both operands (no short-circuit before HLSL 2021).
func (m *machine) binary(op string, a, b Value, pos Pos) Value {
	rt, ot, err := binaryResultType(op, a.T, b.T)
	if err != nil {
		skipf("%s: compile error: %v", pos, err)
	}
	m.use(a, pos, "operator "+op)
	m.use(b, pos, "operator "+op)
	var ca, cb Value
	if op == "<<" || op == ">>" {
		ca = m.convert(a, ot.nonLit(), convImplicit, pos)
		bk := b.T.Scalar
		if bk == KBool {
			bk = KUint
		}
		cb = m.convert(b, ot.nonLit().withScalar(bk), convImplicit, pos)
	} else {
		ca = m.convert(a, ot.nonLit(), convImplicit, pos)
		cb = m.convert(b, ot.nonLit(), convImplicit, pos)
	}
	out := make([]word, ot.flat)
	k := ot.Scalar
	for i := range out {
		out[i] = binWord(op, k, ca.W[i], cb.W[i], pos)
	}
	return Value{T: rt, W: out}
}

func (m *machine) evalAssign(x *AssignExpr) Value {
	p := m.evalPlace(x.L)
	if p.res != nil || p.T.Kind == TResource {
		skipf("%s: assignment to a resource variable not supported", x.Pos)
	}
	var rv Value
	if il, ok := x.R.(*InitList); ok {
		if x.Op != "=" {
			skipf("%s: compile error: initializer list with %s", x.Pos, x.Op)
		}
		rv = m.initFromList(p.T, il)
	} else {
		rv = m.eval(x.R)
	}
	if x.Op == "=" {
		nv := m.convert(rv, p.T, convImplicit, x.Pos)
		p.store(m, nv, x.Pos)
		return nv
	}
	op := strings.TrimSuffix(x.Op, "=")
	old := p.load(m, x.Pos)
	res := m.binary(op, old, rv, x.Pos)
	nv := m.convert(res, p.T, convImplicit, x.Pos)
	p.store(m, nv, x.Pos)
	return nv
}

// evalTernary: both arms are evaluated; the condition selects per component.
func (m *machine) evalTernary(x *TernaryExpr) Value {
	c := m.eval(x.Cond)
	a := m.eval(x.A)
	b := m.eval(x.B)
	if !c.T.isNumeric() {
		skipf("%s: compile error: condition of type %s", x.Pos, c.T)
	}
	m.use(c, x.Pos, "the condition of ?:")
	if !a.T.isNumeric() || !b.T.isNumeric() {
		if c.T.flat != 1 {
			skipf("%s: compile error: vector condition with non-numeric operands", x.Pos)
		}
		if !sameType(a.T, b.T) {
			skipf("%s: compile error: ?: operands %s and %s", x.Pos, a.T, b.T)
		}
		cb := m.convert(c, scalarT(KBool), convImplicit, x.Pos)
		if cb.W[0].v != 0 {
			return a
		}
		return b
	}
	// common type of the arms
	var k ScalarKind
	lit := false
	if a.T.Scalar == KBool && b.T.Scalar == KBool {
		k = KBool
	} else {
		k, lit = arithKind(a.T, b.T)
	}
	rt, err := commonShape(a.T, b.T, k)
	if err != nil {
		skipf("%s: compile error: ?: %v", x.Pos, err)
	}
	if c.T.Kind != TScalar {
		// vector condition: the arms are broadcast to its shape
		rt2, err := commonShape(rt, c.T, k)
		if err != nil {
			skipf("%s: compile error: ?: %v", x.Pos, err)
		}
		if c.T.Kind != rt2.Kind || c.T.flat != rt2.flat {
			skipf("%s: compile error: ?: condition %s does not match operands %s", x.Pos, c.T, rt)
		}
		rt = rt2
	}
	if lit && rt.Kind == TScalar {
		if k == KFloat {
			rt = tLitFloat
		} else {
			rt = tLitInt
		}
	}
	ca := m.convert(a, rt.nonLit(), convImplicit, x.Pos)
	cbv := m.convert(b, rt.nonLit(), convImplicit, x.Pos)
	cc := m.convert(c, c.T.nonLit().withScalar(KBool), convImplicit, x.Pos)
	out := make([]word, rt.flat)
	for i := range out {
		ci := 0
		if len(cc.W) > 1 {
			ci = i
		}
		if cc.W[ci].v != 0 {
			out[i] = ca.W[i]
		} else {
			out[i] = cbv.W[i]
		}
	}
	return Value{T: rt, W: out}
}

func (m *machine) evalCtor(x *CtorExpr) Value {
	t := x.typ
	if t == nil {
		skipf("%s: internal: unresolved constructor type", x.Pos)
	}
	if !t.isNumeric() {
		skipf("%s: constructor of unsupported type %s", x.Pos, t)
	}
	if len(x.Args) == 0 {
		skipf("%s: compile error: %s() without arguments", x.Pos, t)
	}
	if len(x.Args) == 1 {
		v := m.eval(x.Args[0])
		if !v.T.isNumeric() {
			skipf("%s: compile error: cannot construct %s from %s", x.Pos, t, v.T)
		}
		// T(x) with a single argument is a conversion; an argument with more
		// components than T is a truncating cast
		if v.T.flat > t.flat && !(v.T.Kind == TVector && t.Kind != TMatrix) && !(v.T.Kind == TMatrix && t.Kind == TMatrix) && t.Kind != TScalar {
			skipf("%s: compile error: too many components constructing %s from %s", x.Pos, t, v.T)
		}
		if v.T.flat < t.flat && v.T.flat != 1 {
			skipf("%s: compile error: too few components constructing %s from %s", x.Pos, t, v.T)
		}
		return m.convert(v, t, convExplicit, x.Pos)
	}
	out := make([]word, 0, t.flat)
	for _, a := range x.Args {
		v := m.eval(a)
		if !v.T.isNumeric() {
			skipf("%s: compile error: constructor argument of type %s", a.exprPos(), v.T)
		}
		cv := m.convert(v, v.T.nonLit().withScalar(t.Scalar), convExplicit, a.exprPos())
		out = append(out, cv.W...)
	}
	if len(out) != t.flat {
		skipf("%s: compile error: %s constructed from %d components", x.Pos, t, len(out))
	}
	return Value{T: t, W: out}
}

// initFromList builds a value of type t from a (possibly nested) initializer
// list: HLSL flattens the list and assigns scalars in order.
func (m *machine) initFromList(t *Type, il *InitList) Value {
	if hasOpaque(t) {
		skipf("%s: initializer list for unsupported type %s", il.Pos, t)
	}
	var flat []word
	var kinds []ScalarKind
	var collect func(e Expr)
	collect = func(e Expr) {
		if l, ok := e.(*InitList); ok {
			for _, y := range l.Elems {
				collect(y)
			}
			return
		}
		v := m.eval(e)
		if v.T.Kind == TResource || v.T.Kind == TVoid {
			skipf("%s: compile error: %s in initializer list", e.exprPos(), v.T)
		}
		flat = append(flat, v.W...)
		kinds = scalarKinds(v.T, kinds)
	}
	collect(il)
	if len(flat) != t.flat {
		skipf("%s: compile error: initializer list has %d components, %s needs %d", il.Pos, len(flat), t, t.flat)
	}
	tk := scalarKinds(t, make([]ScalarKind, 0, t.flat))
	out := make([]word, t.flat)
	for i := range out {
		w := flat[i]
		if kinds[i] != tk[i] {
			if !w.def {
				trapf("%s: read of uninitialised value in initializer list conversion", il.Pos)
			}
			w = convScalar(w, kinds[i], tk[i])
		}
		out[i] = w
	}
	return Value{T: t, W: out}
}

// ---- calls ----

type argInfo struct {
	e    Expr
	p    place
	isLv bool
	v    Value
	hasV bool
	T    *Type
}

func isLvalueSyntax(e Expr) bool {
	switch x := e.(type) {
	case *Ident:
		return true
	case *ParenExpr:
		return isLvalueSyntax(x.X)
	case *MemberExpr:
		return isLvalueSyntax(x.X)
	case *IndexExpr:
		return isLvalueSyntax(x.X)
	}
	return false
}

// evalArgs evaluates the arguments left to right.  An l-value argument is
// kept as a place (it may be bound to an out/inout parameter); its value is
// read immediately when some candidate takes it by value, so that argument
// evaluation is strictly left to right.
func (m *machine) evalArgs(args []Expr, cands []*FuncDecl) []argInfo {
	out := make([]argInfo, len(args))
	for i, a := range args {
		ai := argInfo{e: a}
		if isLvalueSyntax(a) {
			ai.p = m.evalPlace(a)
			ai.isLv = true
			ai.T = ai.p.T
			for _, f := range cands {
				if len(f.Params) == len(args) && f.Params[i].In && ai.p.res == nil {
					ai.v = ai.p.load(m, a.exprPos())
					ai.hasV = true
					break
				}
			}
		} else {
			ai.v = m.eval(a)
			ai.hasV = true
			ai.T = ai.v.T
		}
		out[i] = ai
	}
	return out
}

func (a *argInfo) value(m *machine) Value {
	if !a.hasV {
		a.v = a.p.load(m, a.e.exprPos())
		a.hasV = true
	}
	return a.v
}

func (m *machine) evalCall(x *CallExpr) Value {
	name := x.Fun.Name
	if fs := x.Fun.funcs; len(fs) > 0 {
		m.step(x.Pos)
		args := m.evalArgs(x.Args, fs)
		ats := make([]*Type, len(args))
		for i := range args {
			ats[i] = args[i].T
		}
		fn, err := pickOverload(fs, ats)
		if err != nil {
			skipf("%s: compile error: %v", x.Pos, err)
		}
		return m.callUser(fn, args, x.Pos)
	}
	if x.Fun.v != nil {
		skipf("%s: compile error: '%s' is not a function", x.Pos, name)
	}
	return m.callIntrinsic(x)
}

func (m *machine) callUser(fn *FuncDecl, args []argInfo, pos Pos) Value {
	if fn.Body == nil {
		skipf("%s: function '%s' has no body", pos, fn.Name)
	}
	if m.depth >= maxCallDepth {
		skipf("%s: call depth exceeds %d (recursion is not allowed in HLSL)", pos, maxCallDepth)
	}
	fr := &frame{fn: fn, cells: make([]*cell, fn.nslots)}
	for i, p := range fn.Params {
		a := &args[i]
		if p.typ.Kind == TResource {
			var rb *resBinding
			if a.isLv {
				rb = a.p.res
			} else {
				rb = a.v.Res
			}
			if rb == nil || a.T.Kind != TResource || a.T.Res != p.typ.Res {
				skipf("%s: compile error: argument %d of '%s' is not a %s", pos, i, fn.Name, p.typ)
			}
			fr.cells[p.slot] = &cell{T: p.typ, res: rb}
			continue
		}
		if hasOpaque(p.typ) {
			skipf("%s: parameter '%s' of '%s' has unsupported type %s", pos, p.Name, fn.Name, p.typ)
		}
		c := &cell{T: p.typ}
		if p.Out {
			if !a.isLv || a.p.ro || a.p.cb != nil {
				why := "an expression that is not an l-value"
				if a.isLv {
					why = a.p.why
				}
				skipf("%s: compile error: argument %d of '%s' (out/inout parameter '%s') is %s", pos, i, fn.Name, p.Name, why)
			}
			// the copy-out conversion must exist
			if _, err := conversionPlan(p.typ, a.p.T, convImplicit); err != nil {
				skipf("%s: compile error: out parameter '%s': %v", pos, p.Name, err)
			}
		}
		if p.In {
			v := a.value(m)
			c.w = m.convert(v, p.typ, convImplicit, a.e.exprPos()).clone().W
		} else {
			c.w = make([]word, p.typ.flat)
		}
		if p.hasMod("const") {
			c.ro = true
		}
		fr.cells[p.slot] = c
	}
	saved := m.fr
	m.fr = fr
	m.depth++
	fr.retVal = Value{T: fn.ret}
	if fn.ret.Kind != TVoid {
		if hasOpaque(fn.ret) {
			skipf("%s: function '%s' returns unsupported type %s", pos, fn.Name, fn.ret)
		}
		fr.retVal.W = make([]word, fn.ret.flat) // undefined unless a return executes
	}
	c := m.execBlockNoScope(fn.Body.Stmts)
	if c == ctlBreak || c == ctlContinue {
		skipf("%s: compile error: break/continue outside a loop in '%s'", pos, fn.Name)
	}
	m.depth--
	m.fr = saved
	// copy-out, in parameter order
	for i, p := range fn.Params {
		if !p.Out || p.typ.Kind == TResource {
			continue
		}
		a := &args[i]
		pv := Value{T: p.typ, W: fr.cells[p.slot].w}
		a.p.store(m, m.convert(pv, a.p.T, convImplicit, pos), pos)
	}
	return fr.retVal
}

// ---- statements ----

func (m *machine) execBlockNoScope(stmts []Stmt) ctl {
	for _, s := range stmts {
		if c := m.exec(s); c != ctlNone {
			return c
		}
	}
	return ctlNone
}

func (m *machine) condition(e Expr, what string) bool {
	v := m.eval(e)
	if !v.T.isNumeric() || v.T.flat != 1 {
		skipf("%s: compile error: %s condition of type %s (a scalar is required)", e.exprPos(), what, v.T)
	}
	m.use(v, e.exprPos(), "a "+what+" condition")
	bv := convScalar(v.W[0], v.T.Scalar, KBool)
	return bv.v != 0
}

func (m *machine) exec(s Stmt) ctl {
	m.step(s.stmtPos())
	switch x := s.(type) {
	case *EmptyStmt:
		return ctlNone
	case *BlockStmt:
		return m.execBlockNoScope(x.Stmts)
	case *DeclStmt:
		for _, v := range x.Vars {
			m.declLocal(v)
		}
		return ctlNone
	case *ExprStmt:
		m.eval(x.X)
		return ctlNone
	case *IfStmt:
		if m.condition(x.Cond, "if") {
			return m.exec(x.Then)
		} else if x.Else != nil {
			return m.exec(x.Else)
		}
		return ctlNone
	case *WhileStmt:
		for {
			if !m.condition(x.Cond, "while") {
				return ctlNone
			}
			c := m.exec(x.Body)
			if c == ctlBreak {
				return ctlNone
			}
			if c == ctlReturn {
				return c
			}
			m.step(x.Pos)
		}
	case *DoWhileStmt:
		for {
			c := m.exec(x.Body)
			if c == ctlBreak {
				return ctlNone
			}
			if c == ctlReturn {
				return c
			}
			if !m.condition(x.Cond, "do-while") {
				return ctlNone
			}
			m.step(x.Pos)
		}
	case *ForStmt:
		if x.Init != nil {
			if c := m.exec(x.Init); c != ctlNone {
				return c
			}
		}
		for {
			if x.Cond != nil && !m.condition(x.Cond, "for") {
				return ctlNone
			}
			c := m.exec(x.Body)
			if c == ctlBreak {
				return ctlNone
			}
			if c == ctlReturn {
				return c
			}
			if x.Post != nil {
				m.eval(x.Post)
			}
			m.step(x.Pos)
		}
	case *SwitchStmt:
		return m.execSwitch(x)
	case *BreakStmt:
		return ctlBreak
	case *ContinueStmt:
		return ctlContinue
	case *DiscardStmt:
		skipf("%s: discard statement (not meaningful in a compute shader)", x.Pos)
	case *ReturnStmt:
		fn := m.fr.fn
		if x.X == nil {
			if fn.ret.Kind != TVoid {
				skipf("%s: compile error: return without a value in '%s'", x.Pos, fn.Name)
			}
			return ctlReturn
		}
		if fn.ret.Kind == TVoid {
			skipf("%s: compile error: return with a value in void function '%s'", x.Pos, fn.Name)
		}
		var v Value
		if il, ok := x.X.(*InitList); ok {
			v = m.initFromList(fn.ret, il)
		} else {
			v = m.eval(x.X)
		}
		m.fr.retVal = m.convert(v, fn.ret, convImplicit, x.Pos).clone()
		return ctlReturn
	}
	skipf("%s: internal: unknown statement %T", s.stmtPos(), s)
	return ctlNone
}

func (m *machine) execSwitch(x *SwitchStmt) ctl {
	tv := m.eval(x.Tag)
	if tv.T.Kind != TScalar || tv.T.Scalar == KFloat {
		skipf("%s: compile error: switch on %s", x.Pos, tv.T)
	}
	m.use(tv, x.Pos, "a switch selector")
	start := -1
	def := -1
	for si, sec := range x.Sections {
		if sec.HasDefault {
			def = si
		}
		for _, l := range sec.Labels {
			lv := m.eval(l)
			if lv.T.Kind != TScalar || lv.T.Scalar == KFloat {
				skipf("%s: compile error: case label of type %s", l.exprPos(), lv.T)
			}
			// the label is converted to the selector's type
			cv := m.convert(lv, tv.T.nonLit(), convImplicit, l.exprPos())
			if cv.W[0].v == tv.W[0].v && start < 0 {
				start = si
			}
		}
	}
	if start < 0 {
		start = def
	}
	if start < 0 {
		return ctlNone
	}
	for si := start; si < len(x.Sections); si++ {
		c := m.execBlockNoScope(x.Sections[si].Body)
		switch c {
		case ctlBreak:
			return ctlNone
		case ctlContinue, ctlReturn:
			return c
		}
		// fall through into the next section
	}
	return ctlNone
}

func (m *machine) declLocal(v *VarDecl) {
	if v.Class == VStaticLocal {
		skipf("%s: static local variable '%s' not supported", v.Pos, v.Name)
	}
	t := v.typ
	if t == nil {
		skipf("%s: internal: unresolved type of '%s'", v.Pos, v.Name)
	}
	if t.Kind == TResource {
		skipf("%s: local resource variable '%s' not supported", v.Pos, v.Name)
	}
	if hasOpaque(t) || t.Kind == TVoid {
		skipf("%s: local '%s' has unsupported type %s", v.Pos, v.Name, t)
	}
	c := &cell{T: t}
	if v.Init != nil {
		var iv Value
		if il, ok := v.Init.(*InitList); ok {
			iv = m.initFromList(t, il)
		} else {
			iv = m.convert(m.eval(v.Init), t, convImplicit, v.Pos).clone()
		}
		c.w = iv.W
	} else {
		c.w = make([]word, t.flat)
		m.charge(t.flat, v.Pos)
	}
	if v.hasMod("const") {
		c.ro = true
	}
	m.fr.cells[v.slot] = c
}
