package hlslx

import (
	"fmt"
	"os"
	"path/filepath"
	"sort"
	"strings"
	"testing"
	"time"

	"github.com/gogpu/naga/hlsl"
	"github.com/gogpu/naga/ir"

	"verif/harness/xrt"
)

const corpusDir = "/repo/snapshot/testdata/in"

// zeroBuffers returns a generous zero-filled buffer for every bindable
// buffer resource of the unit.
func zeroBuffers(u *Unit, size int) map[string][]byte {
	bufs := map[string][]byte{}
	for _, r := range u.Resources() {
		if !r.HasRegister {
			continue
		}
		switch r.Kind {
		case "ByteAddressBuffer", "RWByteAddressBuffer", "cbuffer", "ConstantBuffer":
			if _, dup := bufs[r.Slot]; !dup {
				bufs[r.Slot] = make([]byte, size)
			}
		}
	}
	return bufs
}

// normaliseReason strips positions and names so that reasons can be counted.
func normaliseReason(s string) string {
	// drop a leading "L:C: "
	if i := strings.Index(s, ": "); i > 0 && i < 12 {
		ok := true
		for _, c := range s[:i] {
			if !(c >= '0' && c <= '9') && c != ':' {
				ok = false
			}
		}
		if ok {
			s = s[i+2:]
		}
	}
	if len(s) > 110 {
		s = s[:110] + "..."
	}
	return s
}

func TestCorpusSmoke(t *testing.T) {
	files, err := filepath.Glob(filepath.Join(corpusDir, "*.wgsl"))
	if err != nil || len(files) == 0 {
		t.Skipf("corpus not found: %v", err)
	}
	sort.Strings(files)
	type optCase struct {
		name string
		mk   func() *hlsl.Options
	}
	cases := []optCase{
		{"default", func() *hlsl.Options { return hlsl.DefaultOptions() }},
		{"sm60-norestrict", func() *hlsl.Options {
			o := hlsl.DefaultOptions()
			o.ShaderModel = hlsl.ShaderModel6_0
			o.RestrictIndexing = false
			o.ForceLoopBounding = false
			o.ZeroInitializeWorkgroupMemory = false
			o.SpecialConstantsBinding = &hlsl.BindTarget{Space: 1, Register: 0}
			return o
		}},
	}
	for _, oc := range cases {
		var nagaFail, parsed, parseFail, lenientOnly int
		var executed, trapped, skipped, computeEPs, otherEPs int
		skipReasons := map[string]int{}
		trapReasons := map[string]int{}
		parseReasons := map[string]int{}
		staticReasons := map[string]int{}
		skipExamples := map[string]string{}
		start := time.Now()
		for _, f := range files {
			b, err := os.ReadFile(f)
			if err != nil {
				t.Fatal(err)
			}
			base := filepath.Base(f)
			mod, err := lowerWGSL(string(b))
			if err != nil {
				nagaFail++
				continue
			}
			var src string
			var info *hlsl.TranslationInfo
			func() {
				defer func() {
					if r := recover(); r != nil {
						err = fmt.Errorf("naga panic: %v", r)
					}
				}()
				src, info, err = hlsl.Compile(mod, oc.mk())
			}()
			if err != nil {
				nagaFail++
				continue
			}
			u, perr := Parse(src)
			if perr != nil {
				u2, perr2 := ParseWith(src, lenient)
				if perr2 != nil {
					parseFail++
					parseReasons[normaliseReason(perr2.Error())]++
					t.Logf("[%s] %s: PARSE FAIL %v", oc.name, base, perr2)
					continue
				}
				lenientOnly++
				parseReasons["(strict only) "+normaliseReason(perr.Error())]++
				u = u2
			}
			parsed++
			for _, se := range u.StaticErrors() {
				staticReasons[normaliseReason(se)]++
				t.Logf("[%s] %s: static error: %s", oc.name, base, se)
			}
			for _, ep := range mod.EntryPoints {
				if ep.Stage != ir.StageCompute {
					otherEPs++
					continue
				}
				computeEPs++
				name := ep.Name
				if info != nil {
					if n, ok := info.EntryPointNames[ep.Name]; ok {
						name = n
					}
				}
				in := xrt.Input{Entry: name, Buffers: zeroBuffers(u, 1<<16), NumWorkgroups: [3]uint32{1, 1, 1}, MaxSteps: 200000, TraceAccesses: true}
				out := u.Run(in)
				switch {
				case out.Skip != "":
					skipped++
					r := normaliseReason(out.Skip)
					skipReasons[r]++
					if _, ok := skipExamples[r]; !ok {
						skipExamples[r] = base + ":" + name + " -> " + out.Skip
					}
					if strings.HasPrefix(out.Skip, "internal") {
						t.Errorf("[%s] %s:%s internal error: %s", oc.name, base, name, out.Skip)
					}
				case out.Trap != "":
					trapped++
					trapReasons[normaliseReason(out.Trap)]++
					t.Logf("[%s] %s:%s TRAP %s", oc.name, base, name, out.Trap)
				default:
					executed++
				}
			}
		}
		t.Logf("[%s] files=%d naga-failed=%d parsed=%d (of which only with AllowArrayTypeSuffix: %d) parse-failed=%d; compute entry points=%d executed=%d trapped=%d skipped=%d; other-stage entry points (parse only)=%d; %.1fs",
			oc.name, len(files), nagaFail, parsed, lenientOnly, parseFail, computeEPs, executed, trapped, skipped, otherEPs, time.Since(start).Seconds())
		dump := func(title string, mp map[string]int) {
			var ks []string
			for k := range mp {
				ks = append(ks, k)
			}
			sort.Slice(ks, func(i, j int) bool { return mp[ks[i]] > mp[ks[j]] || (mp[ks[i]] == mp[ks[j]] && ks[i] < ks[j]) })
			for _, k := range ks {
				ex := ""
				if e, ok := skipExamples[k]; ok && title == "skip" {
					ex = "   e.g. " + e
				}
				t.Logf("[%s] %s x%d: %s%s", oc.name, title, mp[k], k, ex)
			}
		}
		dump("parse", parseReasons)
		dump("static", staticReasons)
		dump("skip", skipReasons)
		dump("trap", trapReasons)
	}
}
