module verif/harness

go 1.25

require github.com/gogpu/naga v0.0.0

replace github.com/gogpu/naga => /repo
