// Package spvev turns a SPIR-V binary into the event stream that
// spec/SpvTrace.tla validates: one "header" event, one "inst" event per
// instruction and one "end" event.  It only decodes - it never judges: words
// are split according to the operand grammar of harness/spv's independent
// opcode table (transcribed from the SPIR-V specification, not from naga), ids
// and literals are separated, enumerants are named.  Every rule lives in the
// TLA+ specification.
//
// Event fields (DESIGN.md appendix B, refined):
//
//	{"ev":"header","magic":..,"vmajor":..,"vminor":..,"vrest":0|1,"bound":..,"schema":..}
//	{"ev":"inst","op":"OpIAdd","t":resultType|0,"r":resultId|0,"ids":[..],"lits":[..],"en":[..],"s":"..","short":0|1}
//	{"ev":"end"}
//
// 32-bit words travel as signed ints (TLC integers are Java ints).
package spvev

import (
	"bytes"
	"encoding/binary"
	"encoding/json"
	"fmt"

	"verif/harness/spv"
)

// Event is one line of the trace.
type Event struct {
	Ev string `json:"ev"`
	// header
	Magic  int32 `json:"magic,omitempty"`
	VMajor int32 `json:"vmajor"`
	VMinor int32 `json:"vminor"`
	VRest  int32 `json:"vrest"`
	Bound  int32 `json:"bound,omitempty"`
	Schema int32 `json:"schema"`
	// inst
	Op    string   `json:"op"`
	T     int32    `json:"t"`
	R     int32    `json:"r"`
	Ids   []int32  `json:"ids"`
	Lits  []int32  `json:"lits"`
	En    []string `json:"en"`
	S     string   `json:"s"`
	Short int32    `json:"short"`
	// reset
	Mod int `json:"mod"`
	// not read by the specification
	Word int `json:"word"` // word offset of the instruction in the binary
}

var addrModels = map[uint32]string{0: "Logical", 1: "Physical32", 2: "Physical64", 5348: "PhysicalStorageBuffer64"}
var memModels = map[uint32]string{0: "Simple", 1: "GLSL450", 2: "OpenCL", 3: "Vulkan"}

func name(tab map[uint32]string, v uint32) string {
	if n, ok := tab[v]; ok {
		return n
	}
	return fmt.Sprint(v)
}

func clampID(w uint32) int32 {
	if w >= 1<<31 {
		return 1<<31 - 1
	}
	return int32(w)
}

// Events decodes a binary.  It never fails: damage is reported through the
// events themselves (bad magic in the header event, short=1 on an instruction
// that has fewer words than its operands need or that runs past the end).
func Events(bin []byte) []Event {
	n := len(bin) / 4
	words := make([]uint32, n)
	for i := range words {
		words[i] = binary.LittleEndian.Uint32(bin[4*i:])
	}
	var evs []Event
	h := Event{Ev: "header"}
	get := func(i int) uint32 {
		if i < len(words) {
			return words[i]
		}
		return 0
	}
	h.Magic = int32(get(0))
	v := get(1)
	h.VMajor, h.VMinor = int32(v>>16&0xff), int32(v>>8&0xff)
	if v&0xff0000ff != 0 {
		h.VRest = 1
	}
	if len(words) < 5 || len(bin)%4 != 0 {
		h.VRest = 1 // a header that is not even complete
	}
	h.Bound = clampID(get(3))
	h.Schema = int32(get(4))
	evs = append(evs, h)

	typeOf := map[uint32]uint32{}   // result id -> result type id
	intWidth := map[uint32]uint32{} // OpTypeInt id -> width
	glsl := map[uint32]bool{}       // ids of OpExtInstImport "GLSL.std.450"

	for p := 5; p < len(words); {
		wc := int(words[p] >> 16)
		op := uint16(words[p])
		opname, format, known := spv.OpFormat(op)
		e := Event{Ev: "inst", Op: opname, Ids: []int32{}, Lits: []int32{}, En: []string{}, Word: p}
		if wc == 0 || p+wc > len(words) {
			e.Short = 1
			evs = append(evs, e)
			break
		}
		w := words[p : p+wc]
		p += wc
		if !known {
			for _, x := range w[1:] {
				e.Lits = append(e.Lits, int32(x))
			}
			evs = append(evs, e)
			continue
		}
		pos := 1
		have := func() bool { return pos < len(w) }
		id := func() {
			e.Ids = append(e.Ids, clampID(w[pos]))
			pos++
		}
		lit := func() {
			e.Lits = append(e.Lits, int32(w[pos]))
			pos++
		}
		restIDs := func() {
			for have() {
				id()
			}
		}
		restLits := func() {
			for have() {
				lit()
			}
		}
		for k := 0; k < len(format); k++ {
			c := format[k]
			if !have() {
				switch c {
				case 'o', 'I', 'N', 'z', 'M', 'm', 'p':
				default:
					e.Short = 1
				}
				continue
			}
			switch c {
			case 't':
				e.T = clampID(w[pos])
				pos++
			case 'r':
				e.R = clampID(w[pos])
				pos++
			case 'i', 'o':
				id()
			case 'I':
				restIDs()
			case 'n':
				lit()
			case 'N', 'c':
				restLits()
			case 's', 'z':
				s, nw := spv.DecodeString(w[pos:])
				e.S = s
				pos += nw
			case 'S':
				e.En = append(e.En, spv.EnumName("storage", w[pos]))
				pos++
			case 'D', 'd':
				dec := w[pos]
				e.En = append(e.En, spv.EnumName("decoration", dec))
				pos++
				if opname == "OpDecorateString" || opname == "OpMemberDecorateString" {
					s, nw := spv.DecodeString(w[pos:])
					e.S = s
					pos += nw
					break
				}
				if c == 'd' {
					restIDs()
					break
				}
				if dec == spv.DecBuiltIn && have() {
					e.En = append(e.En, spv.EnumName("builtin", w[pos]))
				}
				restLits()
			case 'E':
				e.En = append(e.En, spv.EnumName("model", w[pos]))
				pos++
			case 'X', 'x':
				e.En = append(e.En, spv.EnumName("mode", w[pos]))
				pos++
				if c == 'x' {
					restIDs()
				} else {
					restLits()
				}
			case 'C':
				e.En = append(e.En, spv.EnumName("capability", w[pos]))
				pos++
			case 'A':
				e.En = append(e.En, name(addrModels, w[pos]))
				pos++
			case 'Y':
				e.En = append(e.En, name(memModels, w[pos]))
				pos++
			case 'L', 'M':
				restLits()
			case 'K', 'F':
				lit()
			case 'm':
				lit()
				restIDs()
			case 'p':
				// (literal, label) pairs; the literal has the width of the selector's type
				lw := 1
				if len(e.Ids) > 0 && intWidth[typeOf[uint32(e.Ids[0])]] > 32 {
					lw = 2
				}
				for pos+lw < len(w) {
					for j := 0; j < lw; j++ {
						lit()
					}
					id()
				}
				if have() {
					e.Short = 1 // a dangling literal without its label
					restLits()
				}
			case 'k':
				e.En = append(e.En, spv.OpName(uint16(w[pos])))
				pos++
				restIDs()
			case 'e':
				if len(e.Ids) > 0 && glsl[uint32(e.Ids[len(e.Ids)-1])] {
					e.En = append(e.En, spv.EnumName("glsl", w[pos]))
				} else {
					e.En = append(e.En, fmt.Sprint(w[pos]))
				}
				pos++
			}
		}
		restLits() // words beyond the grammar
		if e.R != 0 && e.T != 0 {
			typeOf[uint32(e.R)] = uint32(e.T)
		}
		switch opname {
		case "OpTypeInt":
			if len(e.Lits) > 0 {
				intWidth[uint32(e.R)] = uint32(e.Lits[0])
			}
		case "OpExtInstImport":
			if e.S == "GLSL.std.450" {
				glsl[uint32(e.R)] = true
			}
		}
		evs = append(evs, e)
	}
	evs = append(evs, Event{Ev: "end"})
	return evs
}

// Append writes the events of one module, preceded by a reset event carrying
// the module index and the (rule, opcode) pairs that are waived for it (known
// findings already reported, see SpvValid!Judge), as ndjson lines; it returns
// the number of lines written.
func Append(buf *bytes.Buffer, mod int, evs []Event, waive [][2]string) int {
	enc := json.NewEncoder(buf)
	enc.SetEscapeHTML(false)
	if waive == nil {
		waive = [][2]string{}
	}
	_ = enc.Encode(map[string]any{"ev": "reset", "mod": mod, "waive": waive})
	for i := range evs {
		e := &evs[i]
		switch e.Ev {
		case "header":
			_ = enc.Encode(map[string]any{"ev": "header", "magic": e.Magic, "vmajor": e.VMajor, "vminor": e.VMinor, "vrest": e.VRest, "bound": e.Bound, "schema": e.Schema})
		case "end":
			_ = enc.Encode(map[string]any{"ev": "end"})
		default:
			_ = enc.Encode(map[string]any{"ev": "inst", "op": e.Op, "t": e.T, "r": e.R, "ids": e.Ids, "lits": e.Lits, "en": e.En, "s": e.S, "short": e.Short})
		}
	}
	return len(evs) + 1
}
