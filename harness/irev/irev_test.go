package irev

import (
	"testing"

	"github.com/gogpu/naga/ir"
)

// the name tables must follow naga's enumerations
func TestTables(t *testing.T) {
	if formats[ir.StorageFormatR64Sint] != "r64sint" || len(formats) != int(ir.StorageFormatR64Sint)+1 || formats[ir.StorageFormatRgba32Float] != "rgba32float" {
		t.Fatal("format table out of step")
	}
	if mathFuns[ir.MathUnpack4xU8] != "unpack4xu8" || len(mathFuns) != int(ir.MathUnpack4xU8)+1 || mathFuns[ir.MathDot] != "dot" || mathFuns[ir.MathQuantizeF16] != "quantizef16" {
		t.Fatal("math table out of step")
	}
	if binaryOps[ir.BinaryShiftRight] != "shr" || builtinNames[ir.BuiltinClipDistance] != "clip_distance" || spaces[ir.SpaceTaskPayload] != "taskpayload" {
		t.Fatal("enum table out of step")
	}
	if stages[ir.StageCompute] != "compute" || scalarKinds[ir.ScalarAbstractFloat] != "afloat" || relFuns[ir.RelationalIsInf] != "isinf" {
		t.Fatal("enum table out of step")
	}
}
