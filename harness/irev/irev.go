// Package irev turns an *ir.Module into the event stream that spec/IrValid.tla
// consumes (DESIGN.md Appendix B, "IR events"): one event per arena entry
// (type, constant, override, global variable, global expression, function
// signature, argument, local variable, expression) and one event per statement
// of every body, in arena / program order.  The extractor only *describes*
// the module - it resolves nothing, checks nothing and never calls naga's own
// type inference: every rule is evaluated by TLC on the stream.
//
// Conventions shared with the specification (no null, no floats, ints < 2^31,
// a field always has the same JSON type):
//
//	absent handle            -1
//	booleans                 0 / 1
//	enumerations             lower-case strings
//	type inner               {"k":"scalar","sk":"sint","w":4}, {"k":"vector","n":3,"sk":..,"w":..},
//	                         {"k":"matrix","c":..,"r":..,"sk":..,"w":..}, {"k":"atomic","sk":..,"w":..},
//	                         {"k":"pointer","base":h,"space":".."}, {"k":"valueptr","n":0|2|3|4,"sk":..,"w":..,"space":".."},
//	                         {"k":"array","base":h,"size":n|-1,"stride":s}, {"k":"struct","ms":[{"ty":h,"off":o,"b":binding}],"span":s},
//	                         {"k":"image","dim":..,"arrayed":0|1,"class":..,"ms":0|1,"sk":..,"fmt":"rgba8unorm","access":n},
//	                         {"k":"sampler","cmp":0|1}, {"k":"barray","base":h,"size":n|-1}, {"k":"accel"}, {"k":"rayquery"}
//	type resolution          {"h":handle|-1,"v":inner|{"k":"none"}}
//	binding                  {"k":"none"} | {"k":"builtin","b":"position"} | {"k":"location","loc":n,"bs":n|-1}
package irev

import (
	"bytes"
	"encoding/json"
	"fmt"
	"reflect"
	"strings"

	"github.com/gogpu/naga/ir"
)

// J is one JSON object.
type J = map[string]any

// Ev is one event with the context the harness needs to describe a verdict.
type Ev struct {
	J    J
	Fn   string // enclosing function ("" at module level)
	What string // expression kind / statement kind / arena name
}

// Stream is the event stream of one module.
type Stream struct {
	Name   string
	Events []Ev
	Skip   string // non-empty: the module cannot travel through the interchange format (reason)
}

const maxInt = 1<<31 - 1

type ext struct {
	m    *ir.Module
	out  []Ev
	fn   string
	skip string
}

func (x *ext) emit(what string, j J) {
	x.out = append(x.out, Ev{J: j, Fn: x.fn, What: what})
}

func (x *ext) num(v uint64) int {
	if v > maxInt {
		if x.skip == "" {
			x.skip = fmt.Sprintf("integer %d does not fit the interchange format", v)
		}
		return maxInt
	}
	return int(v)
}

// hnd renders a handle; values beyond the interchange range (0xFFFFFFFF "invalid handle" markers) stay out of range.
func hnd[T ~uint32](h T) int {
	if uint64(h) > maxInt {
		return maxInt
	}
	return int(h)
}

func b2i(b bool) int {
	if b {
		return 1
	}
	return 0
}

func optH[T ~uint32](p *T) int {
	if p == nil {
		return -1
	}
	return hnd(*p)
}

var scalarKinds = []string{"sint", "uint", "float", "bool", "aint", "afloat"}

func sk(k ir.ScalarKind) string {
	if int(k) < len(scalarKinds) {
		return scalarKinds[k]
	}
	return fmt.Sprintf("kind%d", k)
}

var spaces = []string{"function", "private", "workgroup", "uniform", "storage", "pushconstant", "handle", "immediate", "taskpayload"}

func space(s ir.AddressSpace) string {
	if int(s) < len(spaces) {
		return spaces[s]
	}
	return fmt.Sprintf("space%d", s)
}

var dims = []string{"1d", "2d", "3d", "cube"}

// storage texel formats, in the order of ir.StorageFormat
var formats = []string{"unknown", "r8unorm", "r8snorm", "r8uint", "r8sint", "r16uint", "r16sint", "r16float", "rg8unorm", "rg8snorm", "rg8uint",
	"rg8sint", "r32uint", "r32sint", "r32float", "rg16uint", "rg16sint", "rg16float", "rgba8unorm", "rgba8snorm", "rgba8uint", "rgba8sint",
	"bgra8unorm", "rgb10a2uint", "rgb10a2unorm", "rg11b10ufloat", "rg32uint", "rg32sint", "rg32float", "rgba16uint", "rgba16sint",
	"rgba16float", "rgba32uint", "rgba32sint", "rgba32float", "r16unorm", "r16snorm", "rg16unorm", "rg16snorm", "rgba16unorm",
	"rgba16snorm", "r64uint", "r64sint"}
var classes = []string{"sampled", "depth", "external", "storage"}

func pick(tbl []string, i int) string {
	if i >= 0 && i < len(tbl) {
		return tbl[i]
	}
	return fmt.Sprintf("enum%d", i)
}

// enumName derives a lower-case name for enumerations that have no table here (builtins).
var builtinNames = []string{"position", "vertex_index", "instance_index", "front_facing", "frag_depth", "sample_index", "sample_mask",
	"local_invocation_id", "local_invocation_index", "global_invocation_id", "workgroup_id", "num_workgroups", "num_subgroups",
	"subgroup_id", "subgroup_size", "subgroup_invocation_id", "barycentric", "view_index", "primitive_index", "point_size",
	"mesh_task_size", "cull_primitive", "point_index", "line_indices", "triangle_indices", "vertex_count", "vertices",
	"primitive_count", "primitives", "clip_distance"}

// Binding renders a binding.
func (x *ext) bindingP(p *ir.Binding) J {
	if p == nil {
		return J{"k": "none"}
	}
	return x.binding(*p)
}

func (x *ext) binding(b ir.Binding) J {
	switch v := b.(type) {
	case nil:
		return J{"k": "none"}
	case ir.BuiltinBinding:
		return J{"k": "builtin", "b": pick(builtinNames, int(v.Builtin))}
	case *ir.BuiltinBinding:
		if v == nil {
			return J{"k": "none"}
		}
		return J{"k": "builtin", "b": pick(builtinNames, int(v.Builtin))}
	case ir.LocationBinding:
		return J{"k": "location", "loc": x.num(uint64(v.Location)), "bs": optH(v.BlendSrc)}
	case *ir.LocationBinding:
		if v == nil {
			return J{"k": "none"}
		}
		return J{"k": "location", "loc": x.num(uint64(v.Location)), "bs": optH(v.BlendSrc)}
	}
	return J{"k": "unknown"}
}

// Inner renders a type inner.
func (x *ext) inner(t ir.TypeInner) J {
	switch v := t.(type) {
	case nil:
		return J{"k": "none"}
	case ir.ScalarType:
		return J{"k": "scalar", "sk": sk(v.Kind), "w": int(v.Width)}
	case ir.VectorType:
		return J{"k": "vector", "n": int(v.Size), "sk": sk(v.Scalar.Kind), "w": int(v.Scalar.Width)}
	case ir.MatrixType:
		return J{"k": "matrix", "c": int(v.Columns), "r": int(v.Rows), "sk": sk(v.Scalar.Kind), "w": int(v.Scalar.Width)}
	case ir.AtomicType:
		return J{"k": "atomic", "sk": sk(v.Scalar.Kind), "w": int(v.Scalar.Width)}
	case ir.PointerType:
		return J{"k": "pointer", "base": hnd(v.Base), "space": space(v.Space)}
	case ir.ValuePointerType:
		n := 0
		if v.Size != nil {
			n = int(*v.Size)
		}
		return J{"k": "valueptr", "n": n, "sk": sk(v.Scalar.Kind), "w": int(v.Scalar.Width), "space": space(v.Space)}
	case ir.ArrayType:
		size := -1
		if v.Size.Constant != nil {
			size = x.num(uint64(*v.Size.Constant))
		}
		return J{"k": "array", "base": hnd(v.Base), "size": size, "stride": x.num(uint64(v.Stride))}
	case ir.StructType:
		ms := make([]any, 0, len(v.Members))
		for _, m := range v.Members {
			ms = append(ms, J{"ty": hnd(m.Type), "off": x.num(uint64(m.Offset)), "b": x.bindingP(m.Binding)})
		}
		return J{"k": "struct", "ms": ms, "span": x.num(uint64(v.Span))}
	case ir.ImageType:
		// the payload of the image class, as upstream's ImageClass carries it: the sampled kind only for sampled
		// images, format and access only for storage images
		skind, format, access := "-", "-", 0
		switch v.Class {
		case ir.ImageClassSampled:
			skind = sk(v.SampledKind)
		case ir.ImageClassStorage:
			format, access = pick(formats, int(v.StorageFormat)), int(v.StorageAccess)
		}
		ms := b2i(v.Multisampled)
		return J{"k": "image", "dim": pick(dims, int(v.Dim)), "arrayed": b2i(v.Arrayed), "class": pick(classes, int(v.Class)),
			"ms": ms, "sk": skind, "fmt": format, "access": access}
	case ir.SamplerType:
		return J{"k": "sampler", "cmp": b2i(v.Comparison)}
	case ir.BindingArrayType:
		size := -1
		if v.Size != nil {
			size = x.num(uint64(*v.Size))
		}
		return J{"k": "barray", "base": hnd(v.Base), "size": size}
	case ir.AccelerationStructureType:
		return J{"k": "accel"}
	case ir.RayQueryType:
		return J{"k": "rayquery"}
	}
	return J{"k": "unknown", "go": fmt.Sprintf("%T", t)}
}

func (x *ext) res(r ir.TypeResolution) J {
	if r.Handle != nil {
		return J{"h": hnd(*r.Handle), "v": J{"k": "none"}}
	}
	return J{"h": -1, "v": x.inner(r.Value)}
}

func hs(v ...ir.ExpressionHandle) []any {
	out := make([]any, 0, len(v))
	for _, h := range v {
		out = append(out, hnd(h))
	}
	return out
}

func addOpt(ops []any, p *ir.ExpressionHandle) []any {
	if p != nil {
		ops = append(ops, hnd(*p))
	}
	return ops
}

var literalNames = map[string]string{"LiteralF64": "f64", "LiteralF16": "f16", "LiteralF32": "f32", "LiteralU32": "u32", "LiteralI32": "i32",
	"LiteralU64": "u64", "LiteralI64": "i64", "LiteralBool": "bool", "LiteralAbstractInt": "aint", "LiteralAbstractFloat": "afloat"}

var unaryOps = []string{"negate", "lnot", "bnot"}
var binaryOps = []string{"add", "sub", "mul", "div", "mod", "eq", "ne", "lt", "le", "gt", "ge", "and", "xor", "or", "land", "lor", "shl", "shr"}
var relFuns = []string{"all", "any", "isnan", "isinf"}
var mathFuns = []string{"abs", "min", "max", "clamp", "saturate", "cos", "cosh", "sin", "sinh", "tan", "tanh", "acos", "asin", "atan", "atan2",
	"asinh", "acosh", "atanh", "radians", "degrees", "ceil", "floor", "round", "fract", "trunc", "modf", "frexp", "ldexp", "exp", "exp2",
	"log", "log2", "pow", "dot", "dot4i8packed", "dot4u8packed", "outer", "cross", "distance", "length", "normalize", "faceforward",
	"reflect", "refract", "sign", "fma", "mix", "step", "smoothstep", "sqrt", "inversesqrt", "inverse", "transpose", "determinant",
	"quantizef16", "counttrailingzeros", "countleadingzeros", "countonebits", "reversebits", "extractbits", "insertbits",
	"firsttrailingbit", "firstleadingbit", "pack4x8snorm", "pack4x8unorm", "pack2x16snorm", "pack2x16unorm", "pack2x16float",
	"pack4xi8", "pack4xu8", "pack4xi8clamp", "pack4xu8clamp", "unpack4x8snorm", "unpack4x8unorm", "unpack2x16snorm",
	"unpack2x16unorm", "unpack2x16float", "unpack4xi8", "unpack4xu8"}

// KindName is the short name of an expression kind ("Binary", "Literal", ...).
func KindName(k ir.ExpressionKind) string {
	if k == nil {
		return "Nil"
	}
	n := reflect.TypeOf(k).Name()
	return strings.TrimPrefix(n, "Expr")
}

// expr renders one expression (function arena or global arena).
func (x *ext) expr(k ir.ExpressionKind) J {
	j := J{"k": KindName(k), "ops": []any{}}
	switch v := k.(type) {
	case ir.Literal:
		n := "nil"
		if v.Value != nil {
			n = reflect.TypeOf(v.Value).Name()
		}
		if s, ok := literalNames[n]; ok {
			n = s
		}
		j["lit"] = n
	case ir.ExprConstant:
		j["c"] = hnd(v.Constant)
	case ir.ExprOverride:
		j["o"] = hnd(v.Override)
	case ir.ExprZeroValue:
		j["ty"] = hnd(v.Type)
	case ir.ExprCompose:
		j["ty"] = hnd(v.Type)
		j["ops"] = hs(v.Components...)
	case ir.ExprAccess:
		j["ops"] = hs(v.Base, v.Index)
	case ir.ExprAccessIndex:
		j["ops"] = hs(v.Base)
		j["idx"] = x.num(uint64(v.Index))
	case ir.ExprSplat:
		j["n"] = int(v.Size)
		j["ops"] = hs(v.Value)
	case ir.ExprSwizzle:
		j["n"] = int(v.Size)
		j["ops"] = hs(v.Vector)
		pat := []any{}
		for i := 0; i < int(v.Size) && i < 4; i++ {
			pat = append(pat, int(v.Pattern[i]))
		}
		j["pat"] = pat
	case ir.ExprFunctionArgument:
		j["idx"] = x.num(uint64(v.Index))
	case ir.ExprGlobalVariable:
		j["g"] = hnd(v.Variable)
	case ir.ExprLocalVariable:
		j["v"] = x.num(uint64(v.Variable))
	case ir.ExprLoad:
		j["ops"] = hs(v.Pointer)
	case ir.ExprImageSample:
		ops := hs(v.Image, v.Sampler, v.Coordinate)
		ops = addOpt(ops, v.ArrayIndex)
		ops = addOpt(ops, v.Offset)
		lvl := "auto"
		switch l := v.Level.(type) {
		case ir.SampleLevelZero:
			lvl = "zero"
		case ir.SampleLevelExact:
			lvl = "exact"
			ops = append(ops, hnd(l.Level))
		case ir.SampleLevelBias:
			lvl = "bias"
			ops = append(ops, hnd(l.Bias))
		case ir.SampleLevelGradient:
			lvl = "gradient"
			ops = append(ops, hnd(l.X), hnd(l.Y))
		}
		ops = addOpt(ops, v.DepthRef)
		j["ops"] = ops
		j["level"] = lvl
		j["gather"] = -1
		if v.Gather != nil {
			j["gather"] = int(*v.Gather)
		}
		j["depthref"] = b2i(v.DepthRef != nil)
	case ir.ExprImageLoad:
		ops := hs(v.Image, v.Coordinate)
		ops = addOpt(ops, v.ArrayIndex)
		ops = addOpt(ops, v.Sample)
		ops = addOpt(ops, v.Level)
		j["ops"] = ops
	case ir.ExprImageQuery:
		ops := hs(v.Image)
		q := "unknown"
		switch qq := v.Query.(type) {
		case ir.ImageQuerySize:
			q = "size"
			ops = addOpt(ops, qq.Level)
		case ir.ImageQueryNumLevels:
			q = "levels"
		case ir.ImageQueryNumLayers:
			q = "layers"
		case ir.ImageQueryNumSamples:
			q = "samples"
		}
		j["ops"] = ops
		j["q"] = q
	case ir.ExprUnary:
		j["op"] = pick(unaryOps, int(v.Op))
		j["ops"] = hs(v.Expr)
	case ir.ExprBinary:
		j["op"] = pick(binaryOps, int(v.Op))
		j["ops"] = hs(v.Left, v.Right)
	case ir.ExprSelect:
		j["ops"] = hs(v.Condition, v.Accept, v.Reject)
	case ir.ExprDerivative:
		j["ops"] = hs(v.Expr)
	case ir.ExprRelational:
		j["fun"] = pick(relFuns, int(v.Fun))
		j["ops"] = hs(v.Argument)
	case ir.ExprMath:
		ops := hs(v.Arg)
		ops = addOpt(ops, v.Arg1)
		ops = addOpt(ops, v.Arg2)
		ops = addOpt(ops, v.Arg3)
		j["ops"] = ops
		j["fun"] = pick(mathFuns, int(v.Fun))
	case ir.ExprAs:
		j["ops"] = hs(v.Expr)
		j["sk"] = sk(v.Kind)
		j["conv"] = 0
		if v.Convert != nil {
			j["conv"] = int(*v.Convert)
		}
	case ir.ExprCallResult:
		j["f"] = hnd(v.Function)
	case ir.ExprArrayLength:
		j["ops"] = hs(v.Array)
	case ir.ExprAtomicResult:
		j["ty"] = hnd(v.Ty)
		j["cmp"] = b2i(v.Comparison)
	case ir.ExprWorkGroupUniformLoadResult, ir.ExprRayQueryProceedResult, ir.ExprSubgroupBallotResult:
	case ir.ExprRayQueryGetIntersection:
		j["ops"] = hs(v.Query)
	case ir.ExprSubgroupOperationResult:
		j["ty"] = hnd(v.Type)
	case ir.ExprAlias:
		j["ops"] = hs(v.Source)
	case ir.ExprPhi:
		ops := []any{}
		for _, in := range v.Incoming {
			ops = append(ops, hnd(in.Value))
		}
		j["ops"] = ops
	default:
		j["k"] = "Unknown"
	}
	return j
}

var atomicFuns = map[string]string{"AtomicAdd": "add", "AtomicSubtract": "sub", "AtomicAnd": "and", "AtomicExclusiveOr": "xor",
	"AtomicInclusiveOr": "or", "AtomicMin": "min", "AtomicMax": "max", "AtomicExchange": "exchange", "AtomicStore": "store", "AtomicLoad": "load"}

func atomicFun(f ir.AtomicFunction) (name string, cmp *ir.ExpressionHandle) {
	if f == nil {
		return "nil", nil
	}
	name = atomicFuns[reflect.TypeOf(f).Name()]
	if name == "" {
		name = "unknown"
	}
	if e, ok := f.(ir.AtomicExchange); ok {
		cmp = e.Compare
	}
	return
}

// block walks a statement list.  Every statement event carries "use": the expression handles the statement reads.
func (x *ext) block(b []ir.Statement) {
	for _, s := range b {
		switch v := s.Kind.(type) {
		case ir.StmtEmit:
			x.emit("Emit", J{"ev": "emit", "s": hnd(v.Range.Start), "e": hnd(v.Range.End), "use": []any{}})
		case ir.StmtBlock:
			x.emit("Block", J{"ev": "block", "use": []any{}})
			x.block(v.Block)
			x.emit("Block", J{"ev": "end_block", "use": []any{}})
		case ir.StmtIf:
			x.emit("If", J{"ev": "if", "c": hnd(v.Condition), "use": hs(v.Condition)})
			x.block(v.Accept)
			x.emit("If", J{"ev": "else", "use": []any{}})
			x.block(v.Reject)
			x.emit("If", J{"ev": "end_if", "use": []any{}})
		case ir.StmtSwitch:
			x.emit("Switch", J{"ev": "switch", "sel": hnd(v.Selector), "use": hs(v.Selector), "n": len(v.Cases)})
			for _, c := range v.Cases {
				cj := J{"ev": "case", "ft": b2i(c.FallThrough), "use": []any{}}
				switch cv := c.Value.(type) {
				case ir.SwitchValueI32:
					cj["vk"], cj["v"] = "sint", int(cv)
				case ir.SwitchValueU32:
					cj["vk"], cj["v"] = "uint", int(int32(uint32(cv))) // bit pattern
				case ir.SwitchValueDefault:
					cj["vk"], cj["v"] = "default", 0
				default:
					cj["vk"], cj["v"] = "unknown", 0
				}
				x.emit("Switch", cj)
				x.block(c.Body)
				x.emit("Switch", J{"ev": "end_case", "use": []any{}})
			}
			x.emit("Switch", J{"ev": "end_switch", "use": []any{}})
		case ir.StmtLoop:
			x.emit("Loop", J{"ev": "loop", "use": []any{}})
			x.block(v.Body)
			x.emit("Loop", J{"ev": "continuing", "use": []any{}})
			x.block(v.Continuing)
			use := []any{}
			use = addOpt(use, v.BreakIf)
			x.emit("Loop", J{"ev": "end_loop", "bi": optH(v.BreakIf), "use": use})
		case ir.StmtBreak:
			x.emit("Break", J{"ev": "break", "use": []any{}})
		case ir.StmtContinue:
			x.emit("Continue", J{"ev": "continue", "use": []any{}})
		case ir.StmtReturn:
			use := []any{}
			use = addOpt(use, v.Value)
			x.emit("Return", J{"ev": "return", "v": optH(v.Value), "use": use})
		case ir.StmtKill:
			x.emit("Kill", J{"ev": "kill", "use": []any{}})
		case ir.StmtBarrier:
			x.emit("Barrier", J{"ev": "barrier", "flags": int(v.Flags), "use": []any{}})
		case ir.StmtStore:
			x.emit("Store", J{"ev": "store", "p": hnd(v.Pointer), "v": hnd(v.Value), "use": hs(v.Pointer, v.Value)})
		case ir.StmtImageStore:
			use := hs(v.Image, v.Coordinate)
			use = addOpt(use, v.ArrayIndex)
			use = append(use, hnd(v.Value))
			x.emit("ImageStore", J{"ev": "imagestore", "img": hnd(v.Image), "v": hnd(v.Value), "use": use})
		case ir.StmtAtomic:
			fun, cmp := atomicFun(v.Fun)
			use := hs(v.Pointer)
			if fun != "load" {
				use = append(use, hnd(v.Value))
			}
			use = addOpt(use, cmp)
			x.emit("Atomic", J{"ev": "atomic", "p": hnd(v.Pointer), "fun": fun, "v": hnd(v.Value), "cmp": optH(cmp), "res": optH(v.Result), "use": use})
		case ir.StmtImageAtomic:
			fun, _ := atomicFun(v.Fun)
			use := hs(v.Image, v.Coordinate)
			use = addOpt(use, v.ArrayIndex)
			use = append(use, hnd(v.Value))
			x.emit("ImageAtomic", J{"ev": "imageatomic", "img": hnd(v.Image), "fun": fun, "v": hnd(v.Value), "use": use})
		case ir.StmtWorkGroupUniformLoad:
			x.emit("WorkGroupUniformLoad", J{"ev": "wgload", "p": hnd(v.Pointer), "res": hnd(v.Result), "use": hs(v.Pointer)})
		case ir.StmtCall:
			x.emit("Call", J{"ev": "call", "f": hnd(v.Function), "args": hs(v.Arguments...), "res": optH(v.Result), "use": hs(v.Arguments...)})
		case ir.StmtRayQuery:
			use := hs(v.Query)
			fun, res := "unknown", -1
			switch f := v.Fun.(type) {
			case ir.RayQueryInitialize:
				fun = "initialize"
				use = append(use, hnd(f.AccelerationStructure), hnd(f.Descriptor))
			case ir.RayQueryProceed:
				fun, res = "proceed", hnd(f.Result)
			case ir.RayQueryTerminate:
				fun = "terminate"
			case ir.RayQueryGenerateIntersection:
				fun = "generate"
				use = append(use, hnd(f.HitT))
			case ir.RayQueryConfirmIntersection:
				fun = "confirm"
			}
			x.emit("RayQuery", J{"ev": "rayquery", "fun": fun, "res": res, "use": use})
		case ir.StmtSubgroupBallot:
			use := []any{}
			use = addOpt(use, v.Predicate)
			x.emit("SubgroupBallot", J{"ev": "subgroup", "what": "ballot", "res": hnd(v.Result), "arg": optH(v.Predicate), "use": use})
		case ir.StmtSubgroupCollectiveOperation:
			x.emit("SubgroupCollectiveOperation", J{"ev": "subgroup", "what": "collective", "res": hnd(v.Result), "arg": hnd(v.Argument), "use": hs(v.Argument)})
		case ir.StmtSubgroupGather:
			use := hs(v.Argument)
			switch g := v.Mode.(type) {
			case ir.GatherBroadcast:
				use = append(use, hnd(g.Index))
			case ir.GatherShuffle:
				use = append(use, hnd(g.Index))
			case ir.GatherShuffleDown:
				use = append(use, hnd(g.Delta))
			case ir.GatherShuffleUp:
				use = append(use, hnd(g.Delta))
			case ir.GatherShuffleXor:
				use = append(use, hnd(g.Mask))
			case ir.GatherQuadBroadcast:
				use = append(use, hnd(g.Index))
			}
			x.emit("SubgroupGather", J{"ev": "subgroup", "what": "gather", "res": hnd(v.Result), "arg": hnd(v.Argument), "use": use})
		default:
			x.emit("UnknownStatement", J{"ev": "unknown_stmt", "go": fmt.Sprintf("%T", s.Kind), "use": []any{}})
		}
	}
}

var stages = []string{"vertex", "task", "mesh", "fragment", "compute"}

func (x *ext) function(f *ir.Function, idx int, stage string, wg [3]uint32) {
	x.fn = f.Name
	args := []any{}
	for _, a := range f.Arguments {
		args = append(args, J{"ty": hnd(a.Type), "b": x.bindingP(a.Binding)})
	}
	res := J{"ty": -1, "b": J{"k": "none"}}
	if f.Result != nil {
		res = J{"ty": hnd(f.Result.Type), "b": x.bindingP(f.Result.Binding)}
	}
	x.emit("Function", J{"ev": "fbegin", "f": idx, "stage": stage, "args": args, "res": res,
		"wg": []any{x.num(uint64(wg[0])), x.num(uint64(wg[1])), x.num(uint64(wg[2]))},
		"nexpr": len(f.Expressions), "ntypes": len(f.ExpressionTypes)})
	for i, lv := range f.LocalVars {
		x.emit("LocalVariable", J{"ev": "local", "i": i, "ty": hnd(lv.Type), "init": optH(lv.Init)})
	}
	for i := range f.Expressions {
		j := x.expr(f.Expressions[i].Kind)
		j["ev"] = "expr"
		j["h"] = i
		if i < len(f.ExpressionTypes) {
			j["rt"] = x.res(f.ExpressionTypes[i])
		} else {
			j["rt"] = J{"h": -1, "v": J{"k": "none"}}
		}
		x.emit(j["k"].(string), j)
	}
	named := []any{}
	for h := range f.NamedExpressions {
		named = append(named, hnd(h))
	}
	sortInts(named)
	x.emit("NamedExpressions", J{"ev": "named", "hs": named})
	x.block(f.Body)
	x.emit("Function", J{"ev": "fend"})
	x.fn = ""
}

func sortInts(a []any) {
	for i := 1; i < len(a); i++ {
		for k := i; k > 0 && a[k-1].(int) > a[k].(int); k-- {
			a[k-1], a[k] = a[k], a[k-1]
		}
	}
}

// ValidateFn lets the caller supply naga's own validator verdict (number of errors and the messages).
type ValidateFn func(m *ir.Module) (int, []string)

// Events extracts the stream of one module.  validate may be nil (no "validate" event is produced then).
func Events(name string, m *ir.Module, validate ValidateFn) (s Stream) {
	x := &ext{m: m}
	s.Name = name
	defer func() {
		if r := recover(); r != nil {
			s.Skip = fmt.Sprintf("extractor panic: %v", r)
		}
	}()
	x.emit("Module", J{"ev": "reset", "name": name})
	for i, t := range m.Types {
		x.emit("Type", J{"ev": "type", "h": i, "named": b2i(t.Name != ""), "name": t.Name, "inner": x.inner(t.Inner)})
	}
	special := func(p *ir.TypeHandle) int { return optH(p) }
	x.emit("SpecialTypes", J{"ev": "special", "hs": []any{special(m.SpecialTypes.ExternalTextureParams),
		special(m.SpecialTypes.ExternalTextureTransferFunction), special(m.SpecialTypes.RayIntersection)}})
	for i, c := range m.Constants {
		x.emit("Constant", J{"ev": "const", "h": i, "ty": hnd(c.Type), "init": hnd(c.Init)})
	}
	for i, o := range m.Overrides {
		x.emit("Override", J{"ev": "override", "h": i, "ty": hnd(o.Ty), "init": optH(o.Init)})
	}
	for i, g := range m.GlobalVariables {
		grp, bnd := -1, -1
		if g.Binding != nil {
			grp, bnd = x.num(uint64(g.Binding.Group)), x.num(uint64(g.Binding.Binding))
		}
		x.emit("GlobalVariable", J{"ev": "global", "h": i, "space": space(g.Space), "ty": hnd(g.Type), "group": grp, "binding": bnd,
			"init": optH(g.InitExpr)})
	}
	for i := range m.GlobalExpressions {
		j := x.expr(m.GlobalExpressions[i].Kind)
		j["ev"] = "gexpr"
		j["h"] = i
		x.emit(j["k"].(string), j)
	}
	x.emit("GlobalExpressions", J{"ev": "gend"})
	// signatures of all functions first: a call may name any function of the arena
	sigs := []any{}
	for _, f := range m.Functions {
		args := []any{}
		for _, a := range f.Arguments {
			args = append(args, hnd(a.Type))
		}
		r := -1
		if f.Result != nil {
			r = hnd(f.Result.Type)
		}
		sigs = append(sigs, J{"args": args, "res": r})
	}
	x.emit("Functions", J{"ev": "fsigs", "sigs": sigs})
	for i := range m.Functions {
		x.function(&m.Functions[i], i, "none", [3]uint32{})
	}
	for i := range m.EntryPoints {
		ep := &m.EntryPoints[i]
		x.function(&ep.Function, -1, pick(stages, int(ep.Stage)), ep.Workgroup)
	}
	if validate != nil {
		n, msgs := validate(m)
		first := ""
		if len(msgs) > 0 {
			first = msgs[0]
		}
		x.emit("Validate", J{"ev": "validate", "n": n, "first": first})
	}
	x.emit("Module", J{"ev": "mend"})
	s.Events = x.out
	s.Skip = x.skip
	return s
}

// Marshal renders events as ndjson (one line per event).
func Marshal(evs []Ev) []byte {
	var buf bytes.Buffer
	enc := json.NewEncoder(&buf)
	enc.SetEscapeHTML(false)
	for _, e := range evs {
		_ = enc.Encode(e.J)
	}
	return buf.Bytes()
}
